"""Observation (not a registered check; dynamic, so outside this project's technique): in a compiled batch
(jax.jit(jax.vmap(eigen_sym33_unit))) tensors with generic 3-D orientation and a (nearly) repeated eigenvalue come
back with non-orthogonal eigenvectors: orthogonality / reconstruction error ~ eps/gap, O(1) at an exact double
eigenvalue; a single compiled call is exact to 1e-15, and so is the in-plane block form of plane-strain kinematics.
With XLA_FLAGS=--xla_backend_optimization_level=0 the batch is exact too: XLA duplicates the producer of the first
eigenvector (a 0/0-type combination of two cancelling differences) into two fusions that round differently.
Run:  PYTHONPATH=<stub for sksparse>:/repo /venv/bin/python observations/eigen_batched_degenerate.py
"""
import jax; jax.config.update('jax_enable_x64', True)
import jax.numpy as np, numpy as onp, sys
from optimism import TensorMath as T
rng=onp.random.default_rng(1)
f=jax.jit(jax.vmap(T.eigen_sym33_unit)); f1=jax.jit(T.eigen_sym33_unit)
for gap in (0.0,1e-15,1e-14,1e-13,1e-12,1e-10,1e-8,1e-6,1e-3):
    As=[]
    for trial in range(400):
        Q,_=onp.linalg.qr(rng.normal(size=(3,3)))
        d=[(1,1+gap,3),(2,5,5+gap),(-2-gap,-2,-1),(0,gap,1)][trial%4]
        A=Q@onp.diag(d)@Q.T; A=0.5*(A+A.T); As.append(A)
    As=np.array(As)
    lb,Vb=f(As)
    rec=onp.array([float(np.linalg.norm(Vb[k]@np.diag(lb[k])@Vb[k].T-As[k])) for k in range(len(As))])
    orth=onp.array([float(np.linalg.norm(Vb[k].T@Vb[k]-np.eye(3))) for k in range(len(As))])
    r1=[];o1=[]
    for k in range(0,400,10):
        l,V=f1(As[k]); r1.append(float(np.linalg.norm(V@np.diag(l)@V.T-As[k]))); o1.append(float(np.linalg.norm(V.T@V-np.eye(3))))
    print('gap %.0e batch: max orth %.1e max rec %.1e  n(orth>1e-10)=%d | single: orth %.1e rec %.1e'%(gap,onp.nanmax(orth),onp.nanmax(rec),(orth>1e-10).sum(),max(o1),max(r1)))
