"""C06_sym -- symbolic interpretation of the trust-region subproblem solvers (engine of rules/C06.py).

Nothing here looks at statement text, local names or an idiom.  A function of the library is *interpreted*
(optilint.tensoreval.Interp, extended below) on symbolic inputs of arbitrary dimension:

  * scalars are exact rational functions over atoms (optilint.expr), with algebraic atoms for square roots (s**2 -> radicand);
  * vectors are *formal vectors*: linear combinations  sum_i c_i * a_i  of basis atoms a_i = W(sym), W a word of symmetric linear
    operators (model Hessian H, preconditioner P, its inverse, the approximate Hessian M) applied to a vector symbol; operators
    distribute over sums, `0.*x` is the empty combination;
  * an inner product expands bilinearly into *Gram atoms*  <s1|W|s2>  (symmetric operators move freely between the two sides,
    P.Pinv cancels), so  z@d, np.dot(d, z), np.sum(z*d), np.vdot ...  of equal vectors are equal values whatever the spelling;
  * the eigen-decomposition  sig, v = eigh(A)  gives a mode vector `sig`, an orthogonal matrix `v` with v@(mode vector) a space vector,
    v.T@(space vector) a mode vector, v[:,k] / v[k] members of an orthonormal family; mode vectors are closed terms
    (elementwise + - * / abs sqrt with scalars) that can be evaluated on a concrete spectrum;
  * repository functions, nested defs, lambdas, functools.partial, dict dispatch, namedtuple records (incl. *record, ._replace) are
    executed by the interpreter, so it does not matter how the code is cut into helpers or how values are carried;
  * every comparison / truth test of a symbolic value *forks* the path (replay-based depth-first enumeration); the outcome is recorded
    as a fact  `diff rel 0`  and remembered as a sign set per difference, so a repeated or mirrored test is decided consistently;
  * a loop with a symbolic trip count is analysed from a *generalised head state*: every variable assigned in the loop gets a fresh
    head symbol of the type it has on entry (record fields and tuple elements one by one); the path then either runs the body once and
    ends at the back edge (the state there is the "step" of an inductive argument, the state on entry its "base") or leaves the loop.

The rule module states obligations on the results: returned values, path facts, entry / back-edge states.  Nothing of the analysed library is
imported or run; numeric evaluation is only done on *extracted formulas* (sign of a closed expression at sample points, witnesses).
"""
from __future__ import annotations

import ast
import math
import random
from fractions import Fraction

from optilint.core import Incomplete
from optilint.expr import Rat, Poly, simplify, NotPolynomial
from optilint.model import norm_src
from optilint.tensoreval import (Interp, Dual, PyFunc, Record, Closure, Env, EvalError, Raised, Unknown, ReturnSignal,
                                 _A, R, ONE, ZERO, rat_const, rat_is_zero, poly_sign)

EVAL_ERRORS = (EvalError, Raised, KeyError, TypeError, AttributeError, IndexError, ValueError, RecursionError, ZeroDivisionError, NotPolynomial)


class SpaceClash(EvalError):
    """a space quantity combined with an eigen-mode quantity: a definite index-space type error of the analysed code"""


class Budget(Incomplete):
    """too many symbolic paths: the analysis cannot decide (never a violation)"""


# ====================================================================================== scalars

def is_num(v):
    return isinstance(v, (int, float, Fraction, Dual)) and not isinstance(v, bool)


def rat(v) -> Rat:
    if isinstance(v, Dual):
        return v.a
    if isinstance(v, bool):
        raise EvalError("bool used as a number")
    if isinstance(v, (int, float, Fraction)):
        return R(v)
    if isinstance(v, Rat):
        return v
    raise EvalError(f"not a scalar: {v!r}")


def nrm(r: Rat) -> Rat:
    return simplify(_A.norm(r))


def S(r) -> Dual:
    return Dual(rat(r))


def rkey(r: Rat) -> str:
    return repr(nrm(r))


def atom(name) -> Rat:
    return _A.atom(name)


def req(a: Rat, b: Rat) -> bool:
    """a == b as rational functions modulo the square-root rules"""
    return _A.equal(a, b)


def atoms_of(r: Rat):
    r = nrm(r)
    out = set(r.atoms())
    # atoms hidden in the radicands of algebraic atoms
    todo = list(out)
    while todo:
        x = todo.pop()
        p = _A.rules.get(x)
        if p is not None:
            for y in p.atoms():
                if y not in out:
                    out.add(y)
                    todo.append(y)
    return out


def subst(r: Rat, mapping: dict) -> Rat:
    """replace atoms by rational functions (atoms under a root are left alone: callers substitute *into* the names the code uses)"""
    r = nrm(r)
    for a, v in mapping.items():
        if a in r.atoms():
            r = _A.subst(r, a, v)
    return nrm(r)


# ====================================================================================== formal vectors

def aname(a):
    w, s = a
    return "".join(o + "(" for o in w) + s + ")" * len(w)


class FV:
    """formal vector: {basis atom (word of operators, symbol): coefficient Rat}"""
    __slots__ = ("t",)

    def __init__(self, t=None):
        self.t = {}
        for k, c in (t or {}).items():
            c = nrm(c)
            if not c.n.is_zero():
                self.t[k] = c

    @staticmethod
    def sym(name):
        return FV({((), name): ONE})

    def key(self):
        return "{" + " + ".join(f"({self.t[k]!r})*{aname(k)}" for k in sorted(self.t)) + "}"

    def __repr__(self):
        return "FV" + self.key()

    def add(self, o, sign=1):
        t = dict(self.t)
        for k, c in o.t.items():
            t[k] = (t[k] + (c if sign > 0 else -c)) if k in t else (c if sign > 0 else -c)
        return FV(t)

    def scale(self, r: Rat):
        return FV({k: c * r for k, c in self.t.items()})

    def coef(self, a):
        return self.t.get(a, ZERO)

    def is_zero(self):
        return not self.t

    def same(self, o):
        return isinstance(o, FV) and self.add(o, -1).is_zero()

    def syms(self):
        return {s for (w, s) in self.t}


class HadV:
    """elementwise product of two formal vectors (only its sum is meaningful: np.sum(u*v) = <u,v>)"""
    __slots__ = ("u", "v")

    def __init__(self, u, v):
        self.u, self.v = u, v


class ShapeOf:
    """x.shape / x.size of a formal vector (only usable to build a zero vector of the same shape)"""
    def __init__(self, v):
        self.v = v


class LinOp:
    """symmetric linear operator given to the analysed code as a callable"""
    def __init__(self, name, interp):
        self.name, self.interp = name, interp

    def __repr__(self):
        return f"<linear operator {self.name}>"

    def apply(self, v):
        if not isinstance(v, FV):
            raise EvalError(f"operator {self.name} applied to {v!r}")
        inv = self.interp.inverse.get(self.name)
        t = {}
        for (w, s), c in v.t.items():
            if w and w[0] == inv:
                k = (w[1:], s)
            else:
                k = ((self.name,) + w, s)
            t[k] = t[k] + c if k in t else c
        return FV(t)


class SymObj:
    """opaque record-like object (settings, objective): attribute -> scalar atom, or what `table` says"""
    def __init__(self, name, table=None):
        self.name, self.table = name, dict(table or {})

    def __repr__(self):
        return f"<object {self.name}>"


class SymRange:
    def __init__(self, args):
        self.args = args


class Inst:
    """instance of a plain class of the analysed library (a private helper class): `__init__` was run on it, attributes live in `attrs`,
    methods are looked up in the class scope and bound to it.  Instances are mutable objects of the interpreted program: `serial` orders
    them by creation (stores into an object that is older than the loop being generalised are refused), `path` is the run that made it."""
    __slots__ = ("cls", "attrs", "serial", "path")

    def __init__(self, cls, serial, path):
        self.cls, self.attrs, self.serial, self.path = cls, {}, serial, path

    def __repr__(self):
        return f"<instance of {self.cls.name}>"


# ====================================================================================== mode vectors (eigenbasis)

class MV:
    """vector over eigen-modes: a closed elementwise term.  tree: ("sym", name) | ("const", Rat) | (op, t1[, t2])"""
    __slots__ = ("tree", "key", "nonneg")

    def __init__(self, tree, nonneg=False):
        self.tree, self.key, self.nonneg = tree, mv_key(tree), nonneg

    def __repr__(self):
        return f"MV[{self.key}]"


def mv_key(t):
    k = t[0]
    if k == "sym":
        return t[1]
    if k == "const":
        return "c[" + rkey(t[1]) + "]"
    if k in ("add", "mul"):
        a, b = sorted((mv_key(t[1]), mv_key(t[2])))
        return f"{k}({a},{b})"
    if k in ("div",):
        return f"div({mv_key(t[1])},{mv_key(t[2])})"
    if k == "pow":
        return f"pow({mv_key(t[1])},{t[2]})"
    return f"{k}({mv_key(t[1])})"


class EigMat:
    """orthogonal matrix of eigenvectors (columns): [space, mode]; `sign` carries a unary minus ((-v)@x is how -v@x parses)"""
    def __init__(self, name, transposed=False, sign=1):
        self.name, self.transposed, self.sign = name, transposed, sign

    def __repr__(self):
        return f"<{'-' if self.sign < 0 else ''}eigenvectors {self.name}{'.T' if self.transposed else ''}>"


class MatSym:
    """symmetric matrix symbol (argument of eigh)"""
    def __init__(self, name):
        self.name = name


# ====================================================================================== path machinery

class PathEnd(Exception):
    def __init__(self, kind, **kw):
        self.kind, self.kw = kind, kw


class BreakSignal(Exception):
    pass


class ContinueSignal(Exception):
    pass


class Fact:
    """`d rel 0` holds on the path (rel in < <= > >= == !=)"""
    __slots__ = ("d", "rel", "node")

    def __init__(self, d, rel, node=None):
        self.d, self.rel, self.node = d, rel, node

    def __repr__(self):
        return f"{self.d!r} {self.rel} 0"


_TRUE = {ast.Lt: {-1}, ast.LtE: {-1, 0}, ast.Gt: {1}, ast.GtE: {0, 1}, ast.Eq: {0}, ast.NotEq: {-1, 1}}
_REL = {ast.Lt: "<", ast.LtE: "<=", ast.Gt: ">", ast.GtE: ">=", ast.Eq: "==", ast.NotEq: "!="}
_NEG = {"<": ">=", "<=": ">", ">": "<=", ">=": "<", "==": "!=", "!=": "=="}
_RELSET = {"<": {-1}, "<=": {-1, 0}, ">": {1}, ">=": {0, 1}, "==": {0}, "!=": {-1, 1}}


class Path:
    """result of one symbolic run"""
    def __init__(self):
        self.kind = None          # return | backedge | stop | error
        self.value = None
        self.facts = []
        self.signs = {}
        self.loops = {}           # loop node id -> {"node", "entry": snapshot, "head": {name: head value}}
        self.loop = None          # loop node id of the back edge
        self.snapshot = None      # frame variables at the back edge
        self.events = []
        self.error = None
        self.ret_node = None
        self.payload = None
        self.clash = False

    def allowed(self, d: Rat):
        return self.signs.get(rkey(d), {-1, 0, 1})


class Oracle:
    def __init__(self, prefix):
        self.prefix, self.k, self.trace = list(prefix), 0, []

    def choose(self, n=2):
        c = self.prefix[self.k] if self.k < len(self.prefix) else 0
        self.k += 1
        self.trace.append((c, n))
        return c

    def next_prefix(self):
        tr = self.trace
        for i in range(len(tr) - 1, -1, -1):
            c, n = tr[i]
            if c + 1 < n:
                return [x for (x, _) in tr[:i]] + [c + 1]
        return None


# ====================================================================================== the interpreter

class SymInterp(Interp):
    def __init__(self, repo, max_paths=1500):
        super().__init__(repo, max_depth=60)
        self.max_paths = max_paths
        self.inverse = {}          # operator name -> name of its inverse
        self.spd = set()           # operators that are positive definite
        self.ortho = {}            # vector symbol -> (family, index): orthonormal families
        self.gram_info = {}        # gram atom -> (s1, word, s2)
        self.nonneg = set()        # atoms known >= 0 everywhere
        self.positive = set()      # atoms assumed > 0 (radius)
        self.atom_eval = {}        # opaque scalar atom -> callable(sample) -> float
        self.path = None
        self.oracle = None
        self.stop_calls = {}       # qualname -> callable(interp, args, kwargs): stands in for the callee
        self.loop_index = {}
        self.loop_stable = {}      # loop node id -> names that provably keep their entry value at the loop head
        self.assumed = []
        self.minmax_args = {}      # opaque max/min atom -> (which, [argument Rats])
        self.inst_serial = 0       # creation counter of helper-class instances
        self.inst_barrier = 0      # instances with a smaller serial were made before the loop whose head state is generalised
        self.inst_writes = 0       # attribute stores so far (an effect-only statement that fails after a store is not skipped)
        self.loop_stack = []       # (loop node id, instance barrier) of the loops being interpreted
        self.tainted_loops = set() # loops in which the state of an older instance is changed: no path through them is trusted

    # ------------------------------------------------------------------ running
    def run_paths(self, closure, args, kwargs=None, refine=3):
        """all paths of closure(*args); each as a Path.  After an enumeration, a variable assigned in a loop whose value at every back
        edge equals its value on entry (flag that is only changed right before leaving, re-computed constant) keeps that value at the loop
        head in the next enumeration (sound: the first enumeration assumed nothing about it); repeated until nothing new is found."""
        for _ in range(refine + 1):
            out = self._enumerate(closure, args, kwargs)
            new = False
            per_loop = {}
            for p in out:
                if p.kind == "backedge":
                    per_loop.setdefault(p.loop, []).append(p)
            for lk, ps in per_loop.items():
                have = self.loop_stable.setdefault(lk, set())
                names = set(ps[0].loops[lk]["head"])
                for nm in sorted(names):
                    if nm in have:
                        continue
                    # at every back edge the variable holds its entry value again, or was not changed in the iteration
                    if all(nm in q.loops[lk]["entry"] and nm in q.snapshot and
                           (same_value(q.loops[lk]["entry"][nm], q.snapshot[nm]) or same_value(q.loops[lk]["head"][nm], q.snapshot[nm])) for q in ps):
                        have.add(nm)
                        new = True
            if not new:
                break
        # a loop in which some path changes an instance that is older than the loop: the instance state assumed at the loop head (its
        # state on entry) is not an invariant, so every path through that loop (also the ones that leave it at once) is withdrawn
        for p in out:
            if p.kind != "error" and any(lk in self.tainted_loops for lk in p.loops):
                p.kind, p.value, p.clash = "error", None, False
                p.error = "EvalError: the loop changes the state of a helper-class instance created before it (loop-carried object state)"
        return out

    def _enumerate(self, closure, args, kwargs=None):
        out = []
        prefix = []
        while True:
            if len(out) >= self.max_paths:
                raise Budget(f"more than {self.max_paths} symbolic paths in {closure!r}")
            p = Path()
            self.path, self.oracle = p, Oracle(prefix)
            self.depth = 0
            self.inst_barrier = 0
            self.loop_stack = []
            try:
                v = self.call(closure, list(args), dict(kwargs or {}))
                p.kind, p.value = "return", v
            except PathEnd as e:
                p.kind = e.kind
                p.payload = e.kw
                if e.kind == "backedge":
                    p.loop, p.snapshot = e.kw["loop"], e.kw["snapshot"]
            except EVAL_ERRORS as e:
                p.kind, p.error = "error", f"{type(e).__name__}: {e}"
                p.clash = isinstance(e, SpaceClash)
            out.append(p)
            prefix = self.oracle.next_prefix()
            if prefix is None:
                break
        self.path = self.oracle = None
        return out

    def fn(self, qual_or_scope):
        sc = self.repo.find(qual_or_scope) if isinstance(qual_or_scope, str) else qual_or_scope
        if sc is None:
            return None
        return Closure(sc, self.module_env(sc.module))

    def module_attr(self, modname, name):
        """value bound to `name` in module `modname` (follows imports), or None"""
        m = self.repo.modules.get(modname)
        if m is None:
            return None
        try:
            return self.module_value(m, name)
        except EVAL_ERRORS:
            return None

    # ------------------------------------------------------------------ symbols
    def vec(self, name):
        return FV.sym(name)

    def scalar(self, name, positive=False, nonneg=False):
        if positive:
            self.positive.add(name)
            self.nonneg.add(name)
        if nonneg:
            self.nonneg.add(name)
        return Dual(atom(name))

    def op(self, name, inverse=None, spd=False):
        if inverse:
            self.inverse[name] = inverse
            self.inverse[inverse] = name
            if spd:
                self.spd.add(inverse)
        if spd:
            self.spd.add(name)
        return LinOp(name, self)

    def opaque_scalar(self, fname, parts, nonneg=False, ev=None):
        name = f"{fname}[" + " | ".join(rkey(rat(p)) if not isinstance(p, str) else p for p in parts) + "]"
        if nonneg:
            self.nonneg.add(name)
        if ev is not None:
            self.atom_eval[name] = ev
        return Dual(atom(name))

    # ------------------------------------------------------------------ algebra
    def gram(self, a, b) -> Rat:
        (w1, s1), (w2, s2) = a, b
        W = list(reversed(w1)) + list(w2)
        changed = True
        while changed:
            changed = False
            for i in range(len(W) - 1):
                if self.inverse.get(W[i]) == W[i + 1]:
                    del W[i:i + 2]
                    changed = True
                    break
        if not W and s1 in self.ortho and s2 in self.ortho and self.ortho[s1][0] == self.ortho[s2][0]:
            return ONE if self.ortho[s1][1] == self.ortho[s2][1] else ZERO
        c = min((s1, tuple(W), s2), (s2, tuple(reversed(W)), s1))
        name = f"<{c[0]}|{'.'.join(c[1])}|{c[2]}>"
        self.gram_info[name] = c
        if c[0] == c[2] and (not c[1] or (len(c[1]) == 1 and c[1][0] in self.spd)):
            self.nonneg.add(name)
        return atom(name)

    def dot(self, u, v) -> Dual:
        if not (isinstance(u, FV) and isinstance(v, FV)):
            raise EvalError(f"inner product of {u!r} and {v!r}")
        tot = ZERO
        for a, ca in u.t.items():
            for b, cb in v.t.items():
                tot = tot + ca * cb * self.gram(a, b)
        return Dual(nrm(tot))

    def known_nonneg(self, a):
        if a in self.nonneg or a in self.positive or a.startswith("sqrt["):
            return True
        p = self.path
        if p is not None:
            s = p.signs.get(repr(nrm(atom(a))))
            if s is not None and s <= {0, 1}:
                return True
        return False

    def sqrt(self, x) -> Dual:
        r = nrm(rat(x))
        c = rat_const(r)
        if c is not None and c < 0:
            raise EvalError("square root of a negative constant")
        return Dual(nrm(self._sqrt_poly(r.n) / self._sqrt_poly(r.d)))

    def _sqrt_poly(self, p: Poly) -> Rat:
        if p.is_const():
            c = p.const_value()
            if c < 0:
                raise EvalError("square root of a negative constant")
            sn, sd = math.isqrt(c.numerator), math.isqrt(c.denominator)
            if sn * sn == c.numerator and sd * sd == c.denominator:
                return R(Fraction(sn, sd))
        elif len(p.t) == 1:
            (m, c), = p.t.items()
            out, rest = [], []
            for (k, e) in m:
                if e >= 2 and self.known_nonneg(k):
                    out.append((k, e // 2))
                    if e % 2:
                        rest.append((k, 1))
                else:
                    rest.append((k, e))
            fc = Fraction(1)
            if c > 0:
                sn, sd = math.isqrt(c.numerator), math.isqrt(c.denominator)
                if sn * sn == c.numerator and sd * sd == c.denominator:
                    fc, c = Fraction(sn, sd), Fraction(1)
            if out or fc != 1:
                inner = Poly({tuple(sorted(rest)): c})
                front = Rat(Poly({tuple(sorted(out)): fc}))
                if inner == Poly.const(1):
                    return front
                return front * self._sqrt_poly(inner) if (rest or c != 1) else front
        name = f"sqrt[{p!r}]"
        _A.rules[name] = p
        return atom(name)

    def sign_of(self, r: Rat, extra_pos=()):
        """+1 / -1 / 0 / None by the sign rules: every atom must be known non-negative; None when that does not decide"""
        r = nrm(r)
        pos = _PosSet(self, extra_pos)
        sn, sd = poly_sign(r.n, pos), poly_sign(r.d, pos)
        if sn is None or sd is None or sd == 0:
            return None
        return sn * sd

    def is_nonneg(self, e: Rat, extra_pos=(), depth=2):
        """e >= 0 by the sign rules, using  max(x, y) >= x, y  and  min(x, y) <= x, y  for opaque max / min atoms that enter linearly"""
        e = nrm(e)
        s = self.sign_of(e, extra_pos)
        if s is not None and s >= 0:
            return True
        if depth == 0 or e.d != Poly.const(1):
            return False
        for a in sorted(e.n.atoms()):
            mm = self.minmax_args.get(a)
            if mm is None or e.n.degree_in(a) != 1:
                continue
            coef = Rat(e.n.diff(a))
            c = rat_const(coef)
            if c is None:
                continue
            if (mm[0] == "max" and c > 0) or (mm[0] == "min" and c < 0):
                rest = nrm(e - coef * atom(a))
                if any(self.is_nonneg(rest + coef * x, extra_pos, depth - 1) for x in mm[1]):
                    return True
        return False

    # ------------------------------------------------------------------ forks
    def decide_sign(self, d: Rat, op, node=None):
        d = nrm(d)
        c = rat_const(d)
        T = _TRUE[type(op)]
        if c is not None:
            return ((c > 0) - (c < 0)) in T
        p = self.path
        if p is None:
            raise EvalError(f"cannot decide the sign of {d!r}")
        key = repr(d)
        allowed = p.signs.get(key)
        if allowed is None:
            allowed = {-1, 0, 1}
            s = self.sign_of(d)
            if s is not None:
                # sign rules speak about >= 0 / <= 0 only (atoms may vanish)
                allowed = {0, 1} if s > 0 else ({-1, 0} if s < 0 else {0})
        if allowed <= T:
            return True
        if not (allowed & T):
            return False
        outcome = self.oracle.choose(2) == 0
        new = (allowed & T) if outcome else (allowed - T)
        p.signs[key] = new
        p.signs[repr(nrm(-d))] = {-s for s in new}
        rel = _REL[type(op)]
        p.facts.append(Fact(d, rel if outcome else _NEG[rel], node))
        return outcome

    def compare(self, a, op, b):
        if isinstance(op, (ast.Is, ast.IsNot)) and ((isinstance(a, Dual) and isinstance(b, bool)) or (isinstance(b, Dual) and isinstance(a, bool))):
            raise EvalError("identity comparison of a symbolic value with True / False")
        if isinstance(op, (ast.In, ast.NotIn, ast.Is, ast.IsNot)):
            return super().compare(a, op, b)
        simple = (str, type(None), bool)
        if isinstance(a, simple) or isinstance(b, simple):
            if isinstance(a, Dual) or isinstance(b, Dual):
                # `settings.flag == False`: truth test of the symbolic operand
                other, sym = (a, b) if isinstance(b, Dual) else (b, a)
                if isinstance(other, bool) and isinstance(op, (ast.Eq, ast.NotEq)):
                    t = self.truth(sym)
                    return (t == other) if isinstance(op, ast.Eq) else (t != other)
            if isinstance(op, ast.Eq):
                return a == b
            if isinstance(op, ast.NotEq):
                return a != b
            raise EvalError("ordering of non-numeric values")
        if isinstance(a, Unknown) or isinstance(b, Unknown):
            raise EvalError("comparison with an unknown value")
        if isinstance(a, ShapeOf):
            a = self.shape_tuple(a)
        if isinstance(b, ShapeOf):
            b = self.shape_tuple(b)
        if isinstance(a, (tuple, list)) and isinstance(b, (tuple, list)) and type(a) is type(b) and isinstance(op, (ast.Eq, ast.NotEq)) and \
                all(is_num(x) for x in a) and all(is_num(x) for x in b):
            # sequences of numbers are equal iff they have the same length and equal items
            eq = len(a) == len(b) and all(self.decide_sign(rat(x) - rat(y), ast.Eq()) for x, y in zip(a, b))
            return eq if isinstance(op, ast.Eq) else not eq
        if not (is_num(a) and is_num(b)):
            raise EvalError(f"comparison of {a!r} and {b!r}")
        return self.decide_sign(rat(a) - rat(b), op)

    def truth(self, v):
        if isinstance(v, Dual):
            c = rat_const(v.a)
            if c is not None:
                return c != 0
            return self.decide_sign(v.a, ast.NotEq())
        if isinstance(v, Inst):
            if self.class_function(v.cls, "__bool__") is not None or self.class_function(v.cls, "__len__") is not None:
                raise EvalError(f"truth value of {v!r} with a user-defined __bool__ / __len__")
            return True
        if isinstance(v, (SymObj, LinOp, Closure, PyFunc, Record, FV)):
            if isinstance(v, FV):
                raise EvalError("truth value of a vector")
            return True
        if isinstance(v, Unknown):
            raise EvalError("truth value of an unknown")
        return super().truth(v)

    # ------------------------------------------------------------------ instances of plain helper classes
    DIM = "dim[space]"

    def dim(self):
        """the dimension n >= 1 of the space (the matrix is n x n, space vectors and mode vectors have n entries: what the property quantifies over)"""
        self.positive.add(self.DIM)
        self.nonneg.add(self.DIM)
        return Dual(atom(self.DIM))

    def shape_tuple(self, v):
        """np.shape(v) / v.shape as a tuple of dimensions, or None"""
        if isinstance(v, ShapeOf):
            return (self.dim(),)
        if isinstance(v, MatSym):
            return (self.dim(), self.dim())
        if isinstance(v, (FV, MV)):
            return (self.dim(),)
        if is_num(v):
            return ()
        return None

    @staticmethod
    def _decorators(sc):
        return {norm_src(d).split("(")[0].split(".")[-1] for d in sc.node.decorator_list}

    def plain_class(self, csc):
        """a class the interpreter can instantiate: no bases (or `object`), no metaclass, no decorator, not a record-like class with
        annotated fields and a generated constructor"""
        nd = csc.node
        if not isinstance(nd, ast.ClassDef) or nd.keywords or nd.decorator_list:
            return False
        if any(norm_src(b) != "object" for b in nd.bases):
            return False
        has_init = any(c.kind == "function" and c.name == "__init__" for c in csc.children)
        fields = any(isinstance(st, ast.AnnAssign) for st in nd.body)
        if fields and not has_init:
            return False
        for c in csc.children:
            if c.kind == "function" and c.name in ("__new__", "__getattr__", "__getattribute__", "__setattr__", "__slots__", "__init_subclass__"):
                return False
        return True

    def class_function(self, csc, name):
        found = None
        for c in csc.children:
            if c.kind == "function" and c.name == name:
                found = c               # the last definition wins, as in Python
        return found

    def instantiate(self, csc, args, kwargs):
        self.inst_serial += 1
        obj = Inst(csc, self.inst_serial, self.path)
        init = self.class_function(csc, "__init__")
        if init is None:
            if args or kwargs:
                raise EvalError(f"arguments for the class {csc.name} that has no __init__")
            return obj
        if self._decorators(init):
            raise EvalError(f"decorated __init__ of {csc.name}")
        r = self.call_closure(Closure(init, self.module_env(init.module)), [obj] + list(args), kwargs)
        if r is not None:
            raise EvalError(f"__init__ of {csc.name} returns a value")
        return obj

    def inst_attr(self, obj, a):
        if a in obj.attrs:
            return obj.attrs[a]
        fn = self.class_function(obj.cls, a)
        if fn is not None:
            decos = self._decorators(fn)
            cl = Closure(fn, self.module_env(fn.module))
            if not decos:
                return PyFunc(f"{obj.cls.name}.{a}", lambda it, args, kw, cl=cl, obj=obj: it.call_closure(cl, [obj] + list(args), kw))
            if decos == {"property"}:
                return self.call_closure(cl, [obj], {})
            if decos == {"staticmethod"}:
                return cl
            raise EvalError(f"method {a} of {obj.cls.name} with decorators {sorted(decos)}")
        # class attribute: a plain assignment in the class body
        val = None
        for st in obj.cls.node.body:
            if isinstance(st, ast.Assign) and any(isinstance(t, ast.Name) and t.id == a for t in st.targets):
                val = st.value
            elif isinstance(st, ast.AnnAssign) and isinstance(st.target, ast.Name) and st.target.id == a and st.value is not None:
                val = st.value
        if val is not None:
            return self.eval(val, self.module_env(obj.cls.module))
        raise EvalError(f"attribute {a} of {obj!r}")

    def inst_store(self, obj, a, v):
        if obj.path is not self.path:
            raise EvalError(f"store into {obj!r} that is shared between runs")
        if obj.serial <= self.inst_barrier:
            for lk_, b_ in self.loop_stack:
                if obj.serial <= b_:
                    self.tainted_loops.add(lk_)
            raise EvalError(f"store into {obj!r} inside a loop that it was created before (loop-carried object state)")
        fn = self.class_function(obj.cls, a)
        if fn is not None and self._decorators(fn):
            raise EvalError(f"store into the property / decorated method {a} of {obj!r}")
        self.inst_writes += 1
        obj.attrs[a] = v

    def assign(self, t, v, env):
        if isinstance(t, ast.Attribute):
            base = self.eval(t.value, env)
            if isinstance(base, Inst):
                return self.inst_store(base, t.attr, v)
            raise EvalError(f"store into an attribute of {base!r}")
        return super().assign(t, v, env)

    # ------------------------------------------------------------------ expressions
    def num(self, v):
        if isinstance(v, (FV, MV, HadV)):
            return v
        return super().num(v)

    def neg(self, v):
        if isinstance(v, FV):
            return v.scale(R(-1))
        if isinstance(v, MV):
            return MV(("neg", v.tree))
        if isinstance(v, EigMat):
            return EigMat(v.name, v.transposed, -v.sign)
        return super().neg(v)

    def e_Constant(self, e, env):
        return e.value

    def e_Name(self, e, env):
        try:
            return super().e_Name(e, env)
        except KeyError:
            raise EvalError(f"name {e.id} is not bound")

    def e_Call(self, e, env):
        f = self.eval(e.func, env)
        args = []
        for a in e.args:
            if isinstance(a, ast.Starred):
                v = self.eval(a.value, env)
                if isinstance(v, Record):
                    args += list(v.values)
                elif isinstance(v, (tuple, list)):
                    args += list(v)
                else:
                    raise EvalError("* of a value that is not a sequence")
            else:
                args.append(self.eval(a, env))
        kwargs = {}
        for k in e.keywords:
            if k.arg:
                kwargs[k.arg] = self.eval(k.value, env)
            else:
                d = self.eval(k.value, env)
                if isinstance(d, Record):
                    d = dict(zip(d.fields, d.values))
                if not isinstance(d, dict):
                    raise EvalError("** of a value that is not a dictionary")
                kwargs.update(d)
        return self.call(f, args, kwargs)

    def call(self, f, args, kwargs):
        if isinstance(f, LinOp):
            if len(args) != 1 or kwargs:
                raise EvalError(f"operator {f.name} called with {len(args)} arguments")
            return f.apply(args[0])
        if isinstance(f, tuple) and f and f[0] == "recmethod":
            rec, name = f[1], f[2]
            if name == "_replace":
                vals = list(rec.values)
                for k, v in kwargs.items():
                    if k not in rec.fields:
                        raise EvalError(f"_replace of unknown field {k}")
                    vals[rec.fields.index(k)] = v
                return Record(rec.tname, rec.fields, vals, cls=rec.cls)
            if name == "_asdict":
                return dict(zip(rec.fields, rec.values))
        if isinstance(f, tuple) and f and f[0] == "mvmethod":
            v, name = f[1], f[2]
            if name == "dot" and len(args) == 1:
                return self.matmul(v, args[0])
            if not args and not kwargs:
                return self.mv_reduce(name, v)
            raise EvalError(f"method {name} of a mode vector with arguments")
        if isinstance(f, tuple) and f and f[0] == "fvmethod":
            v, name = f[1], f[2]
            if name in ("dot",):
                return self.matmul(v, args[0])
            if name in ("copy",):
                return v
        if isinstance(f, Unknown):
            raise EvalError(f"call of an unknown value ({f.why[:40]})")
        if isinstance(f, Inst):
            return self.call(self.inst_attr(f, "__call__"), args, kwargs)
        return super().call(f, args, kwargs)

    def call_closure(self, f, args, kwargs):
        q = f.scope.qualname
        if q in self.stop_calls:
            return self.stop_calls[q](self, args, kwargs)
        return super().call_closure(f, args, kwargs)

    def e_Attribute(self, e, env):
        base = self.eval(e.value, env)
        a = e.attr
        if isinstance(base, SymObj):
            if a in base.table:
                return base.table[a]
            return Dual(atom(f"{base.name}.{a}"))
        if isinstance(base, Inst):
            return self.inst_attr(base, a)
        if isinstance(base, MatSym) and a == "shape":
            return self.shape_tuple(base)
        if isinstance(base, MatSym) and a == "T":
            return base                 # the matrix symbol is symmetric
        if isinstance(base, dict) and a in ("update", "copy", "values", "pop", "setdefault"):
            return ("method", base, a)
        if isinstance(base, list) and a in ("copy", "insert", "pop"):
            return ("method", base, a)
        if isinstance(base, Record) and a in ("_replace", "_asdict"):
            return ("recmethod", base, a)
        if isinstance(base, Record) and a == "_fields":
            return tuple(base.fields)
        if isinstance(base, FV):
            if a == "T":
                return base
            if a in ("shape", "size"):
                return ShapeOf(base)
            if a in ("dot", "copy"):
                return ("fvmethod", base, a)
        if isinstance(base, EigMat) and a == "T":
            return EigMat(base.name, not base.transposed, base.sign)
        if isinstance(base, MV) and a == "T":
            return base
        if isinstance(base, MV) and a in ("mean", "sum", "max", "min", "dot"):
            return ("mvmethod", base, a)
        if isinstance(base, Unknown):
            raise EvalError("attribute of an unknown value")
        return super().e_Attribute(e, env)

    def getitem(self, base, key):
        if isinstance(base, EigMat):
            k = key
            col = None
            if isinstance(k, tuple) and len(k) == 2:
                r_, c_ = k
                if isinstance(r_, slice) and r_ == slice(None) and isinstance(c_, int):
                    col = ("col", c_)
                elif isinstance(c_, slice) and c_ == slice(None) and isinstance(r_, int):
                    col = ("row", r_)
            elif isinstance(k, int):
                col = ("row", k)
            if col is None:
                raise EvalError("unsupported index of the eigenvector matrix")
            kind, idx = col
            if base.transposed:
                kind = "row" if kind == "col" else "col"
            if kind == "row":
                # a row of [space, mode] runs over the eigen-modes: not a space vector (and not an eigenvector)
                r_ = MV(("sym", f"{base.name}[{idx},:]"))
                return r_ if base.sign > 0 else MV(("neg", r_.tree))
            nm = f"{base.name}[:,{idx}]"
            self.ortho[nm] = ((base.name, kind), idx)
            return FV.sym(nm).scale(R(base.sign))
        if isinstance(base, ShapeOf):
            return self.getitem(self.shape_tuple(base), key)
        if isinstance(base, MV):
            if isinstance(key, int):
                tree = base.tree
                return self.opaque_scalar("item", [f"{base.key}", f"{key}"], nonneg=base.nonneg,
                                          ev=lambda smp, tree=tree, key=key: smp.mv(tree)[key])
            raise EvalError("unsupported index of a mode vector")
        if isinstance(base, dict) and isinstance(key, Dual):
            key = self.truth(key) if rat_const(key.a) is None else key
        if isinstance(base, dict):
            # True / 1 / 1.0 are the same key in Python
            for k, v in base.items():
                if k == key and type(k) is type(key):
                    return v
            for k, v in base.items():
                if k == key:
                    return v
            raise EvalError(f"missing key {key!r}")
        if isinstance(base, Record) and isinstance(key, slice):
            return tuple(base.values[key])
        return super().getitem(base, key)

    # ---- arithmetic
    def matmul(self, a, b):
        if isinstance(a, FV) and isinstance(b, FV):
            return self.dot(a, b)
        if isinstance(a, EigMat) and isinstance(b, MV):
            if a.transposed:
                raise SpaceClash("eigenvector matrix transposed ([mode, space]) applied to a vector over eigen-modes")
            return FV.sym(f"{a.name}@{b.key}").scale(R(a.sign))
        if isinstance(a, EigMat) and isinstance(b, FV):
            if not a.transposed:
                raise SpaceClash("eigenvector matrix ([space, mode], eigenvectors are its columns) applied to a vector over space")
            r_ = MV(("sym", f"{a.name}.T@{b.key()}"))
            return r_ if a.sign > 0 else MV(("neg", r_.tree))
        if isinstance(a, MV) and isinstance(b, MV):
            k1, k2 = sorted((a.key, b.key))
            ta, tb = a.tree, b.tree
            return self.opaque_scalar("dot", [k1, k2], nonneg=(a.nonneg and b.nonneg) or a.key == b.key,
                                      ev=lambda smp, ta=ta, tb=tb: sum(x * y for x, y in zip(smp.mv(ta), smp.mv(tb))))
        if isinstance(a, MatSym) and isinstance(b, FV):
            return self.op("A:" + a.name).apply(b)
        if (isinstance(a, FV) and isinstance(b, MV)) or (isinstance(a, MV) and isinstance(b, FV)):
            raise SpaceClash("inner product of a vector over space with a vector over eigen-modes")
        if isinstance(a, (FV, MV, EigMat, MatSym)) or isinstance(b, (FV, MV, EigMat, MatSym)):
            raise EvalError(f"matrix product of {a!r} and {b!r}")
        a, b = self.num(a), self.num(b)
        if isinstance(a, Dual) and isinstance(b, Dual):
            return a * b
        from optilint.tensoreval import matmul as _mm
        return _mm(a, b)

    def mv_of(self, v):
        if isinstance(v, MV):
            return v
        if is_num(v):
            r = rat(v)
            c = rat_const(r)
            return MV(("const", nrm(r)), nonneg=(c is not None and c >= 0) or (self.sign_of(r) in (0, 1)))
        raise EvalError(f"mode vector combined with {v!r}")

    def mv_bin(self, kind, a, b):
        a, b = self.mv_of(a), self.mv_of(b)
        nn = False
        if kind in ("add",):
            nn = a.nonneg and b.nonneg
        elif kind in ("mul", "div"):
            nn = (a.nonneg and b.nonneg) or (kind == "mul" and a.key == b.key)
        return MV((kind, a.tree, b.tree), nonneg=nn)

    def e_BinOp(self, e, env):
        a, b = self.eval(e.left, env), self.eval(e.right, env)
        return self.binop(a, e.op, b, e, env)

    def binop(self, a, op, b, e=None, env=None):
        special = (FV, MV, EigMat, MatSym, HadV, LinOp)
        if isinstance(a, Unknown) or isinstance(b, Unknown):
            raise EvalError("arithmetic with an unknown value")
        if isinstance(op, ast.MatMult):
            return self.matmul(a, b)
        if isinstance(a, special) or isinstance(b, special):
            if isinstance(a, FV) or isinstance(b, FV):
                if isinstance(a, MV) or isinstance(b, MV):
                    raise SpaceClash(f"{type(op).__name__} of a vector over space and a vector over eigen-modes")
                if isinstance(a, FV) and isinstance(b, FV):
                    if isinstance(op, ast.Add):
                        return a.add(b)
                    if isinstance(op, ast.Sub):
                        return a.add(b, -1)
                    if isinstance(op, ast.Mult):
                        return HadV(a, b)
                    raise EvalError("vector op vector")
                if isinstance(a, FV) and is_num(b):
                    if isinstance(op, ast.Mult):
                        return a.scale(rat(b))
                    if isinstance(op, ast.Div):
                        if rat_is_zero(rat(b)):
                            raise EvalError("division by zero")
                        return a.scale(ONE / rat(b))
                    if isinstance(op, ast.Pow) and rat_const(rat(b)) == 2:
                        return HadV(a, a)
                    if isinstance(op, (ast.Add, ast.Sub)) and rat_is_zero(rat(b)):
                        return a
                if isinstance(b, FV) and is_num(a):
                    if isinstance(op, ast.Mult):
                        return b.scale(rat(a))
                    if isinstance(op, ast.Add) and rat_is_zero(rat(a)):
                        return b
                    if isinstance(op, ast.Sub) and rat_is_zero(rat(a)):
                        return b.scale(R(-1))
                raise EvalError(f"unsupported vector operation {type(op).__name__} of {a!r} and {b!r}")
            if isinstance(a, MV) or isinstance(b, MV):
                if isinstance(a, (FV, EigMat, MatSym, HadV, LinOp)) or isinstance(b, (FV, EigMat, MatSym, HadV, LinOp)):
                    raise SpaceClash(f"{type(op).__name__} of a vector over eigen-modes and a space quantity")
                if isinstance(op, ast.Add):
                    if isinstance(a, MV) and is_num(b):
                        self.note_shift(a, b)
                    if isinstance(b, MV) and is_num(a):
                        self.note_shift(b, a)
                    return self.mv_bin("add", a, b)
                if isinstance(op, ast.Sub):
                    return self.mv_bin("add", a, self.neg(b) if isinstance(b, MV) else S(-rat(b)))
                if isinstance(op, ast.Mult):
                    return self.mv_bin("mul", a, b)
                if isinstance(op, ast.Div):
                    return self.mv_bin("div", a, b)
                if isinstance(op, ast.Pow) and is_num(b) and rat_const(rat(b)) is not None:
                    k = rat_const(rat(b))
                    if k == 2:
                        return self.mv_bin("mul", a, a)
                    return MV(("pow", a.tree, str(k)), nonneg=a.nonneg)
            raise EvalError(f"unsupported operation {type(op).__name__} of {a!r} and {b!r}")
        if isinstance(a, (SymObj,)) or isinstance(b, (SymObj,)):
            raise EvalError("arithmetic with an opaque object")
        if isinstance(op, ast.Pow) and is_num(a) and is_num(b):
            k = rat_const(rat(b))
            if k is not None and k.denominator == 2 and isinstance(a, Dual) and rat_const(a.a) is None:
                s = self.sqrt(a)
                return S(nrm(s.a.pow(int(k.numerator))))
            if k is None:
                return self.opaque_scalar("pow", [a, b])
        if isinstance(op, ast.Div) and is_num(a) and is_num(b) and rat_is_zero(rat(b)):
            raise EvalError("division by zero")
        if isinstance(op, (ast.Mod, ast.FloorDiv)) and (isinstance(a, Dual) or isinstance(b, Dual)):
            return self.opaque_scalar(type(op).__name__, [a, b])
        # generic: python numbers, strings, tuples, Dual
        env2 = Env(None, None)
        env2.vars["__l"], env2.vars["__r"] = a, b
        return Interp.e_BinOp(self, ast.BinOp(left=ast.Name(id="__l", ctx=ast.Load()), op=op, right=ast.Name(id="__r", ctx=ast.Load())), env2)

    def note_shift(self, mv, s):
        """event: a scalar is added to a mode-vector symbol (spectrum shift)"""
        if self.path is not None and mv.tree[0] == "sym":
            self.path.events.append(("shift", mv.key, nrm(rat(s)), len(self.path.facts)))

    def lookup(self, name, env):
        if name in ("__l", "__r") and env.scope is None:
            return env.vars[name]
        return super().lookup(name, env)

    def e_UnaryOp(self, e, env):
        v = self.eval(e.operand, env)
        if isinstance(e.op, ast.Not):
            return not self.truth(v)
        if isinstance(e.op, ast.USub):
            return self.neg(v)
        if isinstance(e.op, ast.UAdd):
            return v
        if isinstance(e.op, ast.Invert) and isinstance(v, bool):
            return not v
        raise EvalError("unary operator")

    def e_JoinedStr(self, e, env):
        return "<formatted>"

    def e_Compare(self, e, env):
        left = self.eval(e.left, env)
        res = True
        for op, c in zip(e.ops, e.comparators):
            right = self.eval(c, env)
            res = res and self.compare(left, op, right)
            if not res:
                return False
            left = right
        return res

    # ------------------------------------------------------------------ library calls
    def call_method(self, base, name, args, kwargs):
        if isinstance(base, dict):
            if name == "get":
                try:
                    return self.getitem(base, args[0])
                except EvalError:
                    return args[1] if len(args) > 1 else None
            if name == "update":
                for a in args:
                    if isinstance(a, Record):
                        a = dict(zip(a.fields, a.values))
                    base.update(dict(a) if isinstance(a, dict) else {k: v for (k, v) in a})
                base.update(kwargs)
                return None
            if name == "copy":
                return dict(base)
            if name == "values":
                return list(base.values())
            if name == "pop" and args:
                if args[0] in base:
                    return base.pop(args[0])
                if len(args) > 1:
                    return args[1]
                raise EvalError("pop of a missing key")
            if name == "setdefault" and args:
                return base.setdefault(args[0], args[1] if len(args) > 1 else None)
        if isinstance(base, list):
            if name == "copy":
                return list(base)
            if name == "insert" and len(args) == 2:
                base.insert(self.as_int(args[0]), args[1])
                return None
            if name == "pop":
                return base.pop(self.as_int(args[0])) if args else base.pop()
        return super().call_method(base, name, args, kwargs)

    def call_ext(self, name, args, kwargs):
        last = name.split(".")[-1]
        if name == "builtins.range":
            try:
                return list(range(*[self.as_int(a) for a in args]))
            except EvalError:
                return SymRange(list(args))
        if name == "builtins.print":
            return None
        if name in ("builtins.max", "builtins.min") and args:
            xs = list(args[0]) if len(args) == 1 and isinstance(args[0], (list, tuple)) else list(args)
            if all(is_num(x) for x in xs):
                cs = [rat_const(rat(x)) for x in xs]
                if all(c is not None for c in cs):
                    return S(max(cs) if last == "max" else min(cs))
                return self.opaque_minmax(last, xs)
            raise EvalError(f"{last} of non-numeric values")
        if name == "builtins.abs" and len(args) == 1:
            return self.np_call("abs", args, kwargs)
        if name == "builtins.bool" and len(args) == 1:
            return self.truth(args[0])
        if name in ("builtins.float", "builtins.int") and len(args) == 1 and isinstance(args[0], (Dual, int, float, Fraction)):
            return args[0]
        if name == "builtins.len" and len(args) == 1 and isinstance(args[0], Record):
            return len(args[0].values)
        if name.startswith("class:"):
            csc = self.repo.find(name[len("class:"):])
            if csc is not None and csc.kind == "class" and self.plain_class(csc):
                return self.instantiate(csc, args, kwargs)
        if name == "builtins.len" and len(args) == 1 and isinstance(args[0], ShapeOf):
            return len(self.shape_tuple(args[0]))
        if name in ("builtins.getattr", "builtins.hasattr") and len(args) >= 2 and isinstance(args[0], Inst):
            if not isinstance(args[1], str):
                raise EvalError("attribute name that is not a constant string")
            try:
                v = self.inst_attr(args[0], args[1])
            except EvalError:
                if name.endswith("hasattr"):
                    return False
                if len(args) == 3:
                    return args[2]
                raise
            return True if name.endswith("hasattr") else v
        if name == "builtins.getattr" and len(args) in (2, 3) and isinstance(args[1], str):
            base = args[0]
            if isinstance(base, SymObj):
                return base.table.get(args[1], Dual(atom(f"{base.name}.{args[1]}")))
            if isinstance(base, Record) and args[1] in base.fields:
                return base.get(args[1])
            if len(args) == 3:
                return args[2]
            raise EvalError(f"getattr {args[1]}")
        if name == "builtins.hasattr" and len(args) == 2 and isinstance(args[0], SymObj):
            return True
        if name == "builtins.dict":
            d = {}
            if args:
                src_ = args[0]
                if isinstance(src_, Record):
                    src_ = dict(zip(src_.fields, src_.values))
                d.update(dict(src_) if isinstance(src_, dict) else {k: v for (k, v) in src_})
            d.update(kwargs)
            return d
        if name in ("builtins.tuple", "builtins.list") and len(args) == 1 and isinstance(args[0], Record):
            return tuple(args[0].values) if name.endswith("tuple") else list(args[0].values)
        if name == "builtins.zip":
            seqs = [list(a.values) if isinstance(a, Record) else list(a) for a in args]
            return [tuple(t) for t in zip(*seqs)]
        if name == "builtins.enumerate":
            st = self.as_int(args[1]) if len(args) > 1 else self.as_int(kwargs.get("start", 0))
            return [(i + st, x) for i, x in enumerate(list(args[0]))]
        if name == "builtins.isinstance":
            raise EvalError("isinstance on symbolic data")
        if name == "builtins.sum" and args and isinstance(args[0], (list, tuple)):
            tot = args[1] if len(args) > 1 else 0
            for x in args[0]:
                tot = self.binop(tot, ast.Add(), x)
            return tot
        if name == "builtins.exit":
            raise PathEnd("stop", why="exit()")
        if name == "math.sqrt" and len(args) == 1:
            return self.np_call("sqrt", args, kwargs)
        if name in ("operator.itemgetter", "operator.attrgetter"):
            raise EvalError(name)
        return super().call_ext(name, args, kwargs)

    def opaque_minmax(self, which, xs):
        rs = sorted((nrm(rat(x)) for x in xs), key=repr)
        keep = []
        for r in rs:
            if not any(req(r, k) for k in keep):
                keep.append(r)
        if len(keep) == 1:
            return S(keep[0])
        f = max if which in ("max", "maximum") else min
        nm_ = ("max" if f is max else "min") + "[" + " | ".join(rkey(r) for r in keep) + "]"
        self.minmax_args[nm_] = ("max" if f is max else "min", list(keep))
        return self.opaque_scalar("max" if f is max else "min", keep,
                                  nonneg=(all if f is min else any)(self.sign_of(r) in (0, 1) for r in keep),
                                  ev=lambda smp, keep=keep, f=f: f(smp.value(r) for r in keep))

    def np_call(self, fn, args, kwargs):
        a0 = args[0] if args else None
        if fn in ("dot", "vdot", "inner", "matmul") and len(args) == 2:
            return self.matmul(args[0], args[1])
        if fn == "sqrt" and len(args) == 1:
            if isinstance(a0, MV):
                return MV(("sqrt", a0.tree), nonneg=True)
            if is_num(a0):
                return self.sqrt(a0)
        if fn in ("abs", "absolute", "fabs") and len(args) == 1:
            if isinstance(a0, MV):
                return MV(("abs", a0.tree), nonneg=True)
            if is_num(a0):
                r = nrm(rat(a0))
                s = self.sign_of(r)
                c = rat_const(r)
                if c is not None:
                    return S(abs(c))
                if s in (0, 1):
                    return S(r)
                if s == -1:
                    return S(-r)
                key = min(rkey(r), rkey(-r))
                return self.opaque_scalar("abs", [key], nonneg=True, ev=lambda smp, r=r: abs(smp.value(r)))
        if fn == "square" and len(args) == 1:
            return self.binop(a0, ast.Mult(), a0)
        if fn == "sum" and len(args) == 1:
            if isinstance(a0, HadV):
                return self.dot(a0.u, a0.v)
            if isinstance(a0, MV):
                return self.mv_reduce("sum", a0)
            if is_num(a0):
                return a0
        if fn in ("mean", "average", "max", "min", "amax", "amin") and len(args) == 1:
            if isinstance(a0, MV):
                return self.mv_reduce({"average": "mean", "amax": "max", "amin": "min"}.get(fn, fn), a0)
            if is_num(a0):
                return a0
        if fn == "linalg.norm" and len(args) == 1 and not kwargs:
            if isinstance(a0, FV):
                return self.sqrt(self.dot(a0, a0))
            if isinstance(a0, MV):
                tree = a0.tree
                return self.opaque_scalar("norm", [a0.key], nonneg=True,
                                          ev=lambda smp, tree=tree: math.sqrt(sum(x * x for x in smp.mv(tree))))
            if is_num(a0):
                return self.np_call("abs", args, kwargs)
        if fn == "linalg.eigh" and len(args) == 1 and isinstance(a0, MatSym):
            return (MV(("sym", f"eigvals({a0.name})")), EigMat(f"eigvecs({a0.name})"))
        if fn in ("array", "asarray", "copy", "float64", "float32", "real", "squeeze", "ravel", "stop_gradient") and args and \
                isinstance(a0, (FV, MV, Dual, int, float, Fraction)) and not isinstance(a0, bool):
            return a0
        if fn in ("zeros_like",) and isinstance(a0, FV):
            return FV()
        if fn == "shape" and len(args) == 1 and not kwargs:
            if isinstance(a0, FV):
                return ShapeOf(a0)
            st_ = self.shape_tuple(a0)
            if st_ is not None:
                return st_
        if fn == "ndim" and len(args) == 1 and not kwargs:
            st_ = self.shape_tuple(a0)
            if st_ is not None:
                return len(st_)
        if fn in ("ones_like",) and isinstance(a0, FV):
            raise EvalError("ones_like of a formal vector")
        if fn == "zeros" and isinstance(a0, ShapeOf):
            return FV()
        if fn in ("maximum", "minimum") and len(args) == 2 and is_num(args[0]) and is_num(args[1]):
            return self.opaque_minmax(fn, list(args))
        if fn == "sign" and len(args) == 1 and is_num(a0):
            r = rat(a0)
            c = rat_const(r)
            if c is not None:
                return S((c > 0) - (c < 0))
            if self.decide_sign(r, ast.Gt()):
                return S(1)
            if self.decide_sign(r, ast.Lt()):
                return S(-1)
            return S(0)
        if fn == "where" and len(args) == 3:
            c = args[0]
            if isinstance(c, (bool, Dual)):
                return args[1] if self.truth(c) else args[2]
        if fn in ("isnan", "isinf") and len(args) == 1 and (is_num(a0) or isinstance(a0, (FV, MV))):
            self.assume("floating point values are finite (no NaN / inf paths)")
            return False
        if fn in ("isfinite",) and len(args) == 1 and (is_num(a0) or isinstance(a0, (FV, MV))):
            self.assume("floating point values are finite (no NaN / inf paths)")
            return True
        cmpf = {"greater": ast.Gt, "greater_equal": ast.GtE, "less": ast.Lt, "less_equal": ast.LtE, "equal": ast.Eq, "not_equal": ast.NotEq}
        if fn in cmpf and len(args) == 2 and is_num(args[0]) and is_num(args[1]):
            return self.compare(args[0], cmpf[fn](), args[1])
        if fn in ("logical_or", "logical_and") and len(args) == 2:
            x, y = self.truth(args[0]), self.truth(args[1])
            return (x or y) if fn.endswith("or") else (x and y)
        if fn == "logical_not" and len(args) == 1:
            return not self.truth(a0)
        if any(isinstance(a, (FV, MV, EigMat, MatSym, HadV, Unknown)) for a in args):
            raise EvalError(f"numpy function {fn} on symbolic vectors")
        return super().np_call(fn, args, kwargs)

    def mv_reduce(self, fn, mv):
        tree = mv.tree
        if fn == "min" and tree[0] == "sym" and tree[1].startswith("eigvals("):
            return self.getitem(mv, 0)          # eigh returns the eigenvalues in ascending order (trusted)
        f = {"sum": sum, "mean": lambda xs: sum(xs) / len(xs), "max": max, "min": min}[fn]
        return self.opaque_scalar(fn, [mv.key], nonneg=mv.nonneg, ev=lambda smp, tree=tree, f=f: f(smp.mv(tree)))

    def assume(self, line):
        if line not in self.assumed:
            self.assumed.append(line)

    # ------------------------------------------------------------------ statements
    def stmt(self, st, env):
        if isinstance(st, ast.For):
            it = self.eval(st.iter, env)
            if isinstance(it, SymRange):
                return self.sym_loop(st, env, it)
            if isinstance(it, Record):
                it = list(it.values)
            if isinstance(it, (FV, MV, Unknown, Dual, SymObj)):
                raise EvalError("iteration over a symbolic value")
            broke = False
            for x in it:
                self.assign(st.target, x, env)
                try:
                    self.block(st.body, env)
                except BreakSignal:
                    broke = True
                    break
                except ContinueSignal:
                    continue
            if not broke and st.orelse:
                self.block(st.orelse, env)
            return
        if isinstance(st, ast.While):
            return self.sym_loop(st, env, None)
        if isinstance(st, ast.Break):
            raise BreakSignal()
        if isinstance(st, ast.Continue):
            raise ContinueSignal()
        if isinstance(st, ast.Expr):
            if isinstance(st.value, ast.Constant):
                return
            strict = False
            if isinstance(st.value, ast.Call) and isinstance(st.value.func, ast.Attribute):
                # a method of a container the interpreter tracks (dict / list / record) must be understood: it may change the state
                try:
                    recv = self.eval(st.value.func.value, env)
                    strict = isinstance(recv, (dict, list, Record, FV, MV, Dual, Inst))
                except EVAL_ERRORS:
                    strict = False
            if not strict and isinstance(st.value, ast.Call):
                # a helper-class instance handed to a call may be changed by the callee: the call must be understood
                for a_ in list(st.value.args) + [k_.value for k_ in st.value.keywords]:
                    a_ = a_.value if isinstance(a_, ast.Starred) else a_
                    if isinstance(a_, ast.Name) and env.has(a_.id) and isinstance(env.lookup(a_.id), Inst):
                        strict = True
            if strict:
                self.eval(st.value, env)
                return
            writes0 = self.inst_writes
            try:
                self.eval(st.value, env)
            except EVAL_ERRORS:
                if self.inst_writes != writes0:
                    raise               # the state of a tracked object was changed before the failure
                # a statement evaluated for its effect only (print, callback, bookkeeping on objects the model does not track)
                if self.path is not None:
                    self.path.events.append(("skipped-effect", norm_src(st)[:60]))
            return
        if isinstance(st, ast.AugAssign) and isinstance(st.target, ast.Name):
            cur = self.eval(ast.Name(id=st.target.id, ctx=ast.Load()), env)
            v = self.binop(cur, st.op, self.eval(st.value, env))
            env.vars[st.target.id] = v
            return
        if isinstance(st, ast.AugAssign) and isinstance(st.target, ast.Attribute):
            base = self.eval(st.target.value, env)
            if not isinstance(base, Inst):
                raise EvalError(f"augmented store into an attribute of {base!r}")
            v = self.binop(self.inst_attr(base, st.target.attr), st.op, self.eval(st.value, env))
            self.inst_store(base, st.target.attr, v)
            return
        if isinstance(st, ast.AnnAssign) and st.value is not None:
            self.assign(st.target, self.eval(st.value, env), env)
            return
        if isinstance(st, ast.If):
            c = self.truth(self.eval(st.test, env))
            self.block(st.body if c else st.orelse, env)
            return
        if isinstance(st, ast.Return):
            v = self.eval(st.value, env) if st.value is not None else None
            if self.path is not None:
                self.path.ret_node = st
            raise ReturnSignal(v)
        if isinstance(st, (ast.Global, ast.Nonlocal)):
            return
        if isinstance(st, ast.With):
            for item in st.items:
                v = None
                try:
                    v = self.eval(item.context_expr, env)
                except EVAL_ERRORS:
                    pass
                if item.optional_vars is not None:
                    self.assign(item.optional_vars, v, env)
            self.block(st.body, env)
            return
        return super().stmt(st, env)

    # ---- loops from a generalised head state
    def loop_name(self, st):
        k = id(st)
        if k not in self.loop_index:
            self.loop_index[k] = f"L{len(self.loop_index) + 1}"
        return self.loop_index[k]

    def havoc_value(self, v, label):
        if isinstance(v, bool) or is_num(v):
            return Dual(atom(label))
        if isinstance(v, FV):
            return FV.sym(label)
        if isinstance(v, MV):
            return MV(("sym", label))
        if isinstance(v, Record):
            return Record(v.tname, v.fields, [self.havoc_value(x, f"{label}.{f}") for f, x in zip(v.fields, v.values)], cls=v.cls)
        if isinstance(v, tuple):
            return tuple(self.havoc_value(x, f"{label}[{i}]") for i, x in enumerate(v))
        if isinstance(v, list):
            return [self.havoc_value(x, f"{label}[{i}]") for i, x in enumerate(v)]
        if isinstance(v, dict):
            return {k: self.havoc_value(x, f"{label}[{k!r}]") for k, x in v.items()}
        return Unknown(f"loop-carried {type(v).__name__}")

    @staticmethod
    def assigned_names(node):
        out = []

        def tgt(t):
            if isinstance(t, ast.Name):
                if t.id not in out:
                    out.append(t.id)
            elif isinstance(t, (ast.Tuple, ast.List)):
                for x in t.elts:
                    tgt(x)
            elif isinstance(t, ast.Starred):
                tgt(t.value)
            elif isinstance(t, (ast.Subscript, ast.Attribute)):
                # store into a container / object: the whole container is loop-carried
                b = t
                while isinstance(b, (ast.Subscript, ast.Attribute)):
                    b = b.value
                tgt(b)

        def walk(n):
            for ch in ast.iter_child_nodes(n):
                if isinstance(ch, (ast.FunctionDef, ast.AsyncFunctionDef, ast.ClassDef)):
                    if ch.name not in out:
                        out.append(ch.name)
                    continue
                if isinstance(ch, (ast.Lambda, ast.ListComp, ast.SetComp, ast.DictComp, ast.GeneratorExp)):
                    continue
                if isinstance(ch, ast.Assign):
                    for t in ch.targets:
                        tgt(t)
                elif isinstance(ch, (ast.AugAssign, ast.AnnAssign)):
                    tgt(ch.target)
                elif isinstance(ch, ast.For):
                    tgt(ch.target)
                elif isinstance(ch, ast.NamedExpr):
                    tgt(ch.target)
                elif isinstance(ch, ast.With):
                    for it in ch.items:
                        if it.optional_vars is not None:
                            tgt(it.optional_vars)
                elif isinstance(ch, ast.Call) and isinstance(ch.func, ast.Attribute) and \
                        ch.func.attr in ("append", "extend", "update", "insert", "pop", "remove", "clear", "setdefault", "popitem", "sort", "reverse"):
                    tgt(ch.func.value)          # a mutating method: the receiver is loop-carried
                walk(ch)
        walk(node)
        return out

    def sym_loop(self, st, env, rng):
        p = self.path
        if p is None:
            raise EvalError("symbolic loop outside a path run")
        lk = id(st)
        ln = self.loop_name(st)
        names = self.assigned_names(st)
        # a mutable container handed to a call inside the loop may be changed by the callee: loop-carried as well
        for n_ in ast.walk(st):
            if isinstance(n_, ast.Call):
                for a_ in list(n_.args) + [k_.value for k_ in n_.keywords]:
                    if isinstance(a_, ast.Starred):
                        a_ = a_.value
                    if isinstance(a_, ast.Name) and a_.id not in names and isinstance(env.vars.get(a_.id), (dict, list)):
                        names.append(a_.id)
        # helper-class instances: their attributes are not generalised at the loop head, so (a) a store into an instance made before the
        # loop is refused while the loop is interpreted (inst_store) and (b) an instance that holds a mutable container and is used in the
        # loop is not followed (a method could change the container behind the interpreter's back)
        for n_ in ast.walk(st):
            if isinstance(n_, ast.Name) and env.has(n_.id) and isinstance(env.lookup(n_.id), Inst) and holds_container(env.lookup(n_.id)):
                raise EvalError(f"loop uses {env.lookup(n_.id)!r} whose attributes hold mutable containers")
        barrier0 = self.inst_barrier
        self.inst_barrier = self.inst_serial
        self.loop_stack.append((lk, self.inst_barrier))
        try:
            return self._sym_loop(st, env, rng, lk, ln, names)
        finally:
            self.inst_barrier = barrier0
            self.loop_stack.pop()

    def _sym_loop(self, st, env, rng, lk, ln, names):
        p = self.path
        entry = {k: snap_copy(v) for k, v in env.vars.items()}
        head = {}
        stable = self.loop_stable.get(lk, ())
        for nm in names:
            if nm in env.vars and nm not in stable:
                hv = self.havoc_value(env.vars[nm], f"{nm}@{ln}")
                env.vars[nm] = hv
                head[nm] = snap_copy(hv)
        p.loops[lk] = {"node": st, "name": ln, "entry": entry, "head": head, "facts_at_entry": len(p.facts)}
        if isinstance(st, ast.For):
            enter = self.oracle.choose(2) == 0
            p.events.append(("loop", ln, "enter" if enter else "exit"))
            # the loop target: current index inside the body, last index after the loop (the loop is assumed to run at least once)
            if isinstance(st.target, ast.Name):
                env.vars[st.target.id] = Dual(atom(f"{st.target.id}@{ln}"))
                self.nonneg.add(f"{st.target.id}@{ln}")
            else:
                raise EvalError("loop target")
        else:
            enter = self.truth(self.eval(st.test, env))
            p.events.append(("loop", ln, "enter" if enter else "exit"))
        if not enter:
            if st.orelse:
                self.block(st.orelse, env)
            return
        try:
            self.block(st.body, env)
        except BreakSignal:
            return
        except ContinueSignal:
            pass
        raise PathEnd("backedge", loop=lk, snapshot={k: snap_copy(v) for k, v in env.vars.items()})


class _PosSet:
    def __init__(self, interp, extra=()):
        self.i, self.extra = interp, set(extra)

    def __contains__(self, a):
        return a in self.extra or self.i.known_nonneg(a)


def holds_container(obj, seen=None):
    """does an attribute of the instance (or of an instance it refers to) hold a dict / list?"""
    seen = seen if seen is not None else set()
    if id(obj) in seen:
        return False
    seen.add(id(obj))
    for v in obj.attrs.values():
        todo = [v]
        while todo:
            x = todo.pop()
            if isinstance(x, (dict, list)):
                return True
            if isinstance(x, tuple):
                todo += list(x)
            elif isinstance(x, Record):
                todo += list(x.values)
            elif isinstance(x, Inst) and holds_container(x, seen):
                return True
    return False


def snap_copy(v):
    """copy of the mutable containers of a value (the leaves are immutable)"""
    if isinstance(v, dict):
        return {k: snap_copy(x) for k, x in v.items()}
    if isinstance(v, list):
        return [snap_copy(x) for x in v]
    return v


def same_value(a, b):
    """structural equality of two interpreter values (used for `variable keeps its entry value` invariants)"""
    if a is b and not isinstance(a, (dict, list)):
        return True
    if isinstance(a, Unknown) or isinstance(b, Unknown):
        return False
    if isinstance(a, bool) or isinstance(b, bool) or a is None or b is None or isinstance(a, str) or isinstance(b, str):
        return type(a) is type(b) and a == b
    if is_num(a) and is_num(b):
        return req(rat(a), rat(b))
    if isinstance(a, FV) and isinstance(b, FV):
        return a.same(b)
    if isinstance(a, MV) and isinstance(b, MV):
        return a.key == b.key
    if isinstance(a, Record) and isinstance(b, Record):
        return a.fields == b.fields and all(same_value(x, y) for x, y in zip(a.values, b.values))
    if isinstance(a, (tuple, list)) and isinstance(b, (tuple, list)):
        return len(a) == len(b) and all(same_value(x, y) for x, y in zip(a, b))
    if isinstance(a, dict) and isinstance(b, dict):
        return set(a) == set(b) and all(same_value(a[k], b[k]) for k in a)
    if isinstance(a, Closure) and isinstance(b, Closure):
        return a.scope is b.scope and a.env is b.env
    return a is b


# ====================================================================================== pytree leaves of a frame snapshot

def leaves(v, path):
    """[(path, leaf value)] of a carried value (records / tuples / lists / dicts opened)"""
    if isinstance(v, Record):
        out = []
        for f, x in zip(v.fields, v.values):
            out += leaves(x, f"{path}.{f}")
        return out
    if isinstance(v, (tuple, list)):
        out = []
        for i, x in enumerate(v):
            out += leaves(x, f"{path}[{i}]")
        return out
    if isinstance(v, dict):
        out = []
        for k in sorted(v, key=repr):
            out += leaves(v[k], f"{path}[{k!r}]")
        return out
    return [(path, v)]


def snapshot_leaves(snap, names=None):
    out = {}
    for nm, v in snap.items():
        if names is not None and nm not in names:
            continue
        for pth, x in leaves(v, nm):
            out[pth] = x
    return out


# ====================================================================================== numeric samples of extracted formulas

class SampleInvalid(Exception):
    pass


class Sample:
    """one numeric instance: vectors in R^2, symmetric 2x2 operators, scalars; evaluates Rat values (never the analysed program)"""
    def __init__(self, interp, seed=0, scalars=None, vectors=None, ops=None, spectra=None):
        self.i = interp
        self.rng = random.Random(seed)
        self.scalars = dict(scalars or {})
        self.vectors = dict(vectors or {})
        self.ops = dict(ops or {})
        self.spectra = dict(spectra or {})
        self.cache = {}

    def vector(self, s):
        if s not in self.vectors:
            if s in self.i.ortho:
                idx = self.i.ortho[s][1]
                if idx > 1:
                    raise SampleInvalid("orthonormal family index beyond the sample dimension")
                self.vectors[s] = [1.0, 0.0] if idx == 0 else [0.0, 1.0]
            else:
                self.vectors[s] = [self.rng.uniform(-2, 2), self.rng.uniform(-2, 2)]
        return self.vectors[s]

    def opmat(self, o):
        if o not in self.ops:
            inv = self.i.inverse.get(o)
            if inv is not None and inv in self.ops:
                (a, b), (c, d) = self.ops[inv]
                det = a * d - b * c
                self.ops[o] = [[d / det, -b / det], [-c / det, a / det]]
            elif o in self.i.spd:
                l1, l2, t = self.rng.uniform(0.2, 3), self.rng.uniform(0.2, 3), self.rng.uniform(0, math.pi)
                c, s = math.cos(t), math.sin(t)
                self.ops[o] = [[l1 * c * c + l2 * s * s, (l1 - l2) * c * s], [(l1 - l2) * c * s, l1 * s * s + l2 * c * c]]
            else:
                a, b, d = self.rng.uniform(-3, 3), self.rng.uniform(-2, 2), self.rng.uniform(-3, 3)
                self.ops[o] = [[a, b], [b, d]]
        return self.ops[o]

    def gram(self, info):
        s1, W, s2 = info
        v = list(self.vector(s2))
        for o in reversed(W):
            m = self.opmat(o)
            v = [m[0][0] * v[0] + m[0][1] * v[1], m[1][0] * v[0] + m[1][1] * v[1]]
        u = self.vector(s1)
        return u[0] * v[0] + u[1] * v[1]

    def atom(self, a):
        if a in self.cache:
            return self.cache[a]
        if a in self.scalars:
            v = self.scalars[a]
            v = v(self) if callable(v) else v
        elif a in self.i.gram_info:
            v = self.gram(self.i.gram_info[a])
        elif a in _A.rules:
            x = self.poly(_A.rules[a])
            if x < -1e-12:
                raise SampleInvalid("negative radicand")
            v = math.sqrt(max(x, 0.0))
        elif a in self.i.atom_eval:
            v = self.i.atom_eval[a](self)
        else:
            v = self.rng.uniform(0.3, 2.5)
        self.cache[a] = v
        return v

    def poly(self, p: Poly):
        tot = 0.0
        for m, c in p.t.items():
            v = float(c)
            for k, e in m:
                v *= self.atom(k) ** e
            tot += v
        return tot

    def value(self, r: Rat):
        r = nrm(r)
        d = self.poly(r.d)
        if abs(d) < 1e-300:
            raise SampleInvalid("zero denominator")
        return self.poly(r.n) / d

    def mv(self, tree):
        k = tree[0]
        if k == "sym":
            if tree[1] not in self.spectra:
                raise SampleInvalid(f"no spectrum for {tree[1]}")
            return list(self.spectra[tree[1]])
        n = len(next(iter(self.spectra.values()))) if self.spectra else 2
        if k == "const":
            return [self.value(tree[1])] * n
        if k in ("add", "mul", "div"):
            a, b = self.mv(tree[1]), self.mv(tree[2])
            f = {"add": lambda x, y: x + y, "mul": lambda x, y: x * y, "div": lambda x, y: x / y if y != 0 else float("inf")}[k]
            return [f(x, y) for x, y in zip(a, b)]
        if k == "neg":
            return [-x for x in self.mv(tree[1])]
        if k == "abs":
            return [abs(x) for x in self.mv(tree[1])]
        if k == "sqrt":
            return [math.sqrt(x) if x >= 0 else float("nan") for x in self.mv(tree[1])]
        if k == "pow":
            return [x ** float(Fraction(tree[2])) for x in self.mv(tree[1])]
        raise SampleInvalid(f"mode-vector term {k}")

    def holds(self, f: Fact, tol=1e-12):
        v = self.value(f.d)
        return {"<": v < -tol, "<=": v <= tol, ">": v > tol, ">=": v >= -tol, "==": abs(v) <= tol, "!=": abs(v) > tol}[f.rel]


# ====================================================================================== fact reasoning

def fact_ge(f: Fact):
    """the fact as  e >= 0  or  e > 0: (e, strict) ; None for == / !="""
    if f.rel in (">", ">="):
        return f.d, f.rel == ">"
    if f.rel in ("<", "<="):
        return nrm(-f.d), f.rel == "<"
    return None


def implies_nonneg(interp, facts, e: Rat, depth=2, extra_pos=()):
    """facts imply e >= 0: by the sign rules, or e == (a fact's e) + (something that is >= 0 in the same way)"""
    e = nrm(e)
    s = interp.sign_of(e, extra_pos)
    if s is not None and s >= 0:
        return True
    if depth == 0:
        return False
    for f in facts:
        g = fact_ge(f)
        if g is None:
            if f.rel == "==":
                # e - k*d for k = +-1
                for k in (1, -1):
                    if implies_nonneg(interp, [x for x in facts if x is not f], e - (f.d if k > 0 else -f.d), depth - 1, extra_pos):
                        return True
            continue
        ge, _ = g
        rest = nrm(e - ge)
        if rest.n.is_zero():
            return True
        # e == c * ge with a positive constant c
        if not ge.n.is_zero():
            q = nrm(e / ge)
            c = rat_const(q)
            if c is not None and c > 0:
                return True
            sq = interp.sign_of(q, extra_pos)
            if sq is not None and sq > 0 and _strictly_positive(interp, q, extra_pos):
                return True
        if implies_nonneg(interp, [x for x in facts if x is not f], rest, depth - 1, extra_pos):
            return True
    return False


def _strictly_positive(interp, q, extra_pos):
    """q is a product / quotient of atoms assumed strictly positive and positive constants"""
    q = nrm(q)
    for p in (q.n, q.d):
        if len(p.t) != 1:
            return False
        (m, c), = p.t.items()
        if c <= 0:
            return False
        for (k, e) in m:
            if not (k in interp.positive or k in extra_pos):
                return False
    return True
