"""C20_interp -- symbolic-SHAPE interpreter for the VTK writer (shared machinery of rules/C20.py).

The source of optimism/VTKWriter.py is *interpreted* (never imported, never executed) on a symbolic writer:

  * integers are exact polynomials over size symbols (N_nodes, N_el, number of spheres, ...); a situation fixes, per symbol, whether it
    is zero or >= 1, so every test the writer makes on a count is decided by sign reasoning on polynomials, not by matching its text;
  * arrays are shapes (tuples of polynomials) with NumPy's shape semantics for creation / stacking / tiling / reshaping / indexing;
  * text is a sequence of literal pieces, opaque one-token pieces (a formatted number / name) and symbolic repetitions (`'\n'.join(..)`,
    `s * n`, loops of writes); everything written to a file object is recorded, so the *file* is an abstract token stream;
  * lists / dicts / instances are heap objects with identity: aliasing is real aliasing, every in-place mutation is logged
    (the purity analysis reads the log), `dict(d)` / `np.array(a)` copy, `np.asarray(a)` / basic slices do not;
  * a field dictionary holds *classes* of entries: one symbolic key stands for `m` (symbolic) fields admitted by identical calls; a loop
    over such a dictionary runs its body once per class (iterations must be independent: only stores keyed by the loop key are allowed)
    and its output becomes a repetition group;
  * a counted loop with a symbolic trip count is summarised by peeling two iterations, extrapolating every count linearly and
    *verifying* the extrapolation inductively on a symbolic iteration number.

Anything that is not modelled raises `Undecidable` (=> the obligations that needed the value are UNDECIDED, never REFUTED).  `ProgramError`
means: the analysed program itself would raise here (e.g. stacking blocks whose column counts are different constants).
"""
from __future__ import annotations

import ast
import re
import string
from fractions import Fraction

from optilint.expr import Poly, poly_div_exact


class Undecidable(Exception):
    def __init__(self, msg, node=None):
        super().__init__(msg)
        self.msg, self.node = msg, node


class ProgramError(Exception):
    """the analysed program raises (derived from values the analysis fully understands)"""
    def __init__(self, msg, node=None, scope=None):
        super().__init__(msg)
        self.msg, self.node, self.scope = msg, node, scope


class ReturnSig(Exception):
    def __init__(self, value):
        self.value = value


class BreakSig(Exception):
    pass


class ContinueSig(Exception):
    pass


# ------------------------------------------------------------------------------------------------ polynomials

def PC(c):
    return Poly.const(c)


def PS(name):
    return Poly.atom(name)


ZERO, ONE = PC(0), PC(1)


def psubst(p: Poly, sigma: dict) -> Poly:
    """substitute atoms by polynomials"""
    if not sigma or not (p.atoms() & set(sigma)):
        return p
    res = Poly()
    for m, c in p.t.items():
        term = Poly.const(c)
        for k, e in m:
            base = sigma[k] if k in sigma else Poly.atom(k)
            if e < 0:
                raise Undecidable("negative exponent")
            term = term * base.pow(e)
        res = res + term
    return res


def pconst(p: Poly):
    """python int of a constant integral polynomial, else None"""
    if p.is_const():
        c = p.const_value()
        if c.denominator == 1:
            return int(c)
    return None


# ------------------------------------------------------------------------------------------------ values

_OID = [0]


def new_oid():
    _OID[0] += 1
    return _OID[0]


class Int:
    """an integer whose value is a polynomial in the size symbols"""
    __slots__ = ("p",)

    def __init__(self, p):
        self.p = p if isinstance(p, Poly) else PC(p)

    def __repr__(self):
        return f"Int({self.p!r})"


class Scalar:
    """a number whose value the analysis does not track (shape ())"""
    __slots__ = ("kind",)

    def __init__(self, kind="num"):
        self.kind = kind

    def __repr__(self):
        return f"<{self.kind}>"


class Arr:
    """ndarray: shape only.  `base` is the array this one is a view of (mutation through a view mutates the base)."""
    def __init__(self, shape, base=None, fill=None):
        self.shape = tuple(shape)
        self.oid = new_oid()
        self.base = base
        self.fill = fill        # Int when every entry is known to be that integer (np.tile(k, ..) / np.full(.., k)); columns for 2-D: see cols

    def root(self):
        a = self
        while a.base is not None:
            a = a.base
        return a

    def __repr__(self):
        return "Arr(" + ", ".join(repr(d) for d in self.shape) + ")"


class Str:
    """abstract text: tuple of atoms ('lit', text) | ('tok', value, prov) | ('join', sep_atoms, item_atoms, count Poly)"""
    __slots__ = ("atoms",)

    def __init__(self, atoms):
        self.atoms = tuple(atoms)

    def __repr__(self):
        return f"Str{self.atoms!r}"


class Key:
    """a symbolic dictionary key: stands for the names of `mult` fields admitted by identical calls"""
    __slots__ = ("kid",)

    def __init__(self, kid):
        self.kid = kid

    def __repr__(self):
        return f"Key({self.kid})"


class EnumVal:
    def __init__(self, cls, name, value):
        self.cls, self.name, self.value = cls, name, value

    def __repr__(self):
        return f"{self.cls.name}.{self.name}"


class UserClass:
    def __init__(self, name, node, kind="plain"):
        self.name, self.node, self.kind = name, node, kind
        self.attrs = {}          # class level attributes / methods
        self.fields = []         # namedtuple / dataclass: [(name, default value or NODEFAULT)]
        self.members = {}        # enum
        self.bases = []

    def lookup(self, name):
        if name in self.attrs:
            return self.attrs[name]
        for b in self.bases:
            if isinstance(b, UserClass):
                r = b.lookup(name)
                if r is not MISSING:
                    return r
        return MISSING

    def __repr__(self):
        return f"<class {self.name}>"


class _Missing:
    def __repr__(self):
        return "MISSING"


MISSING = _Missing()
NODEFAULT = _Missing()


class NTInst:
    """immutable record (namedtuple / typing.NamedTuple / frozen view of a dataclass)"""
    def __init__(self, cls, vals):
        self.cls, self.vals = cls, dict(vals)

    def __repr__(self):
        return f"{self.cls.name}({', '.join(f'{k}={v!r}' for k, v in self.vals.items())})"


class Instance:
    def __init__(self, cls):
        self.cls, self.attrs, self.oid = cls, {}, new_oid()

    def __repr__(self):
        return f"<{self.cls.name} object #{self.oid}>"


class Group:
    """element of a list summary: a sub-sequence of segments (what one round of a loop over fields appended)"""
    def __init__(self, segs):
        self.segs = segs

    def length(self):
        n = ZERO
        for (e, c, _k) in self.segs:
            n = n + (e.length() * c if isinstance(e, Group) else c)
        return n

    def __repr__(self):
        return f"Group({self.segs!r})"


class ListV:
    """list: concrete `items`, or a summary (`items is None`) made of segments (elem, count Poly, kid): `count` consecutive elements that
    all look like `elem` (kid: the elements correspond to the keys of the dictionary entry class `kid`)"""
    def __init__(self, items=None, segs=None):
        self.items = items
        self.segs = segs
        self.oid = new_oid()

    def length(self):
        if self.items is not None:
            return PC(len(self.items))
        n = ZERO
        for (e, c, _k) in self.segs:
            n = n + (e.length() * c if isinstance(e, Group) else c)
        return n

    @property
    def n(self):
        return self.length()

    @property
    def elem(self):
        if self.items is not None or len(self.segs) != 1:
            raise Undecidable("element of a list with several kinds of entries")
        return self.segs[0][0]

    def __repr__(self):
        return f"List({self.items!r})" if self.items is not None else f"List(segs={self.segs!r})"


class DictV:
    def __init__(self, entries=None):
        self.entries = [list(e) for e in (entries or [])]     # [key, value]
        self.oid = new_oid()

    def __repr__(self):
        return f"Dict({self.entries!r})"


class DictView:
    def __init__(self, d, kind):
        self.d, self.kind = d, kind


class RangeV:
    def __init__(self, start, stop):
        self.start, self.stop = start, stop


class SliceV:
    def __init__(self, lo, hi, step):
        self.lo, self.hi, self.step = lo, hi, step


class Func:
    def __init__(self, node, env, name, cls=None, scope=None):
        self.node, self.env, self.name, self.cls, self.scope = node, env, name, cls, scope
        self.kind = "function"      # | property | staticmethod | classmethod

    def __repr__(self):
        return f"<function {self.name}>"


class Bound:
    def __init__(self, func, obj):
        self.func, self.obj = func, obj


class Builtin:
    def __init__(self, name):
        self.name = name

    def __repr__(self):
        return f"<builtin {self.name}>"


class Method:
    """method of an abstract value: (receiver, name)"""
    def __init__(self, recv, name):
        self.recv, self.name = recv, name


class ModuleV:
    def __init__(self, name):
        self.name = name

    def __repr__(self):
        return f"<module {self.name}>"


class LibModule:
    """a private helper module of the analysed library (`optimism/_xxx.py`): its source is interpreted like the module under analysis;
    `env` holds its globals (functions defined there close over *that* environment, not over the globals of the importing module)"""
    def __init__(self, name, env):
        self.name, self.env = name, env

    def __repr__(self):
        return f"<library module {self.name}>"


class FileObj:
    def __init__(self):
        self.out = []           # ('str', atoms, prov)  |  ('rep', [items], count Poly)
        self.oid = new_oid()
        self.closed = False


class Opaque:
    """a value the analysis does not look into (dtype objects, results of warnings.warn, ...)"""
    def __init__(self, desc):
        self.desc = desc

    def __repr__(self):
        return f"<opaque {self.desc}>"


class Poison:
    def __init__(self, why):
        self.why = why


class Partial:
    def __init__(self, fn, args, kwargs):
        self.fn, self.args, self.kwargs = fn, list(args), dict(kwargs)


class Env:
    def __init__(self, parent=None, scope=None):
        self.vars = {}
        self.parent = parent
        self.scope = scope

    def lookup(self, name):
        e = self
        while e is not None:
            if name in e.vars:
                return e.vars[name]
            e = e.parent
        return MISSING


def is_int(v):
    return isinstance(v, Int)


def const_of(v):
    """python int of a constant Int, else None"""
    if isinstance(v, Int):
        return pconst(v.p)
    return None
