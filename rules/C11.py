"""C11 -- viscoelastic models: dissipation >= 0, isochoric viscous flow, limits of the time step.

Both modules (single branch and three branches) are interpreted on generic symbolic tensors with exact
rational entries (optilint.tensoreval); the trial elastic strain and the equilibrium energy are abstracted
by generic symbols so that the algebra of the update is isolated.

  D1  isochoric: the viscous strain increment is identically traceless and the new distortion of every branch is
      expm(increment of that branch) @ old distortion of that branch (layout + frames);
  D2  dissipation: the dissipation potential equals G*tau*dev(D):dev(D) (a positive multiple of a sum of squares)
      and the reported dissipated energy is dt * potential(increment/dt);
  D3  limits: the stored energy minus the equilibrium energy is c(dt) * dev(E):dev(E) with c a rational function
      whose value at dt = 0 is the sum of branch moduli (instantaneous response) and whose limit dt -> infinity is 0
      (equilibrium response); the update factor dt/(tau + dt) lies in [0, 1);
  D4  tables: property index constants, _make_properties order and the per-branch index map agree; energy,
      dissipation and state update of a branch use the same increment of the same trial strain.
Not decided: monotone decay of the stored energy over multi-step histories (numerical).
"""
from __future__ import annotations

import ast

from optilint.core import Incomplete
from optilint.expr import Poly, Rat
from optilint.tensoreval import (Dual, Arr, EvalError, Raised, _A, rat_is_zero, rat_sign, PosVec, sum_d, matmul)
from .common import src
from . import materials as mt
from . import frames
from .tensorid import generic

LEVEL = "other"
RULE_TEXT = ("obligations = (module x identity of the increment / dissipation / energy coefficient) + (limit of the coefficient at dt=0 and "
             "dt=inf) + (property slot x name) + (branch x layout) + frames")
EXPLANATION = ("Abstract interpretation of HyperViscoelastic and MultiBranchHyperViscoelastic on generic symbolic tensors: exact "
               "identities for tracelessness, the dissipation potential and the dt-dependence of the stored energy (value at 0 and limit at "
               "infinity of a rational function), slot tables, and frame typing of the distortion update. Monotone relaxation over "
               "histories is not decided.")

MODS = [("optimism.material.HyperViscoelastic", 1), ("optimism.material.MultiBranchHyperViscoelastic", 3)]


def run(ctx):
    for (m, nb) in MODS:
        ctx.need_module(m)
        one_module(ctx, m, nb)
    ctx.guard(frames.run_frames_state_only, ctx, "D1/T9-frames", [m + ":_compute_state_new" for (m, _) in MODS])
    from . import units
    ctx.guard(units.run, ctx, "D3/T8-dimensional-homogeneity", {m for (m, _) in MODS}, min_scenarios=4)
    # the elastic trial strain is log_sqrt_symm of a symmetric tensor: the closed-form eigen solver it relies on (shared with C12)
    from . import eigenalg
    ctx.need_module("optimism.TensorMath")
    ctx.guard(eigenalg.run, ctx, "D3/T7-eigen-solver-algebra", "optimism.TensorMath:eigen_sym33_non_unit")
    ctx.trust("det expm(A) = exp(tr A); dev(A):dev(A) is a sum of squares")
    ctx.assume("moduli, relaxation times and dt are positive")


def sym_generic(prefix):
    names = {(i, j): f"{prefix}{min(i, j)}{max(i, j)}" for i in range(3) for j in range(3)}
    return Arr([Dual(_A.atom(names[(i, j)])) for i in range(3) for j in range(3)], (3, 3))


def dev_sq(E):
    tr = E.data[0] + E.data[4] + E.data[8]
    D = [E.data[i * 3 + j] - (tr / Dual(3) if i == j else Dual(0)) for i in range(3) for j in range(3)]
    return sum_d(x * x for x in D)


def limit_inf(r: Rat, atom):
    """limit of a rational function as atom -> +infinity: (value Rat | 'inf' | None)"""
    n, d = r.n, r.d
    dn, dd = n.degree_in(atom), d.degree_in(atom)
    if dn < dd:
        return Rat(Poly())
    if dn > dd:
        return "inf"

    def lead(p, k):
        out = {}
        for m, c in p.t.items():
            dm = dict(m)
            if dm.get(atom, 0) == k:
                dm.pop(atom, None)
                mm = tuple(sorted(dm.items()))
                out[mm] = out.get(mm, 0) + c
        return Poly(out)
    return _A.norm(Rat(lead(n, dn), lead(d, dd)))


def one_module(ctx, mname, nb):
    mod = ctx.need_module(mname)
    short = mname.split(".")[-1]
    I = mt.make_interp(ctx.repo)
    props_d = mt.PropDict(I, {}, set())
    fac = ctx.need(f"{mname}:create_material_model_functions")
    try:
        props = I.call(I.module_value(mod, "_make_properties"), [props_d], {})
    except (EvalError, Raised, KeyError, TypeError) as ex:
        ctx.undecided("D4/T5-property-slots", fac, None, construct=f"{short}:_make_properties", detail=str(ex))
        return
    dt = Dual(_A.atom("dt"))
    I.positive.add("dt")
    # ---- D4: slot table
    rule = "D4/T5-property-slots"
    want = {"PROPS_K_eq": "equilibrium bulk modulus", "PROPS_G_eq": "equilibrium shear modulus"}
    if nb == 1:
        want.update({"PROPS_G_neq": "non equilibrium shear modulus", "PROPS_TAU": "relaxation time"})
    else:
        for k in range(1, nb + 1):
            want[f"PROPS_G_neq_{k}"] = f"non equilibrium shear modulus {k}"
            want[f"PROPS_TAU_{k}"] = f"relaxation time {k}"
    for const, key in want.items():
        try:
            idx = I.module_value(mod, const)
            got = props.data[idx].a
            ok = _A.equal(got, _A.atom(f"prop<{key}>"))
        except (EvalError, KeyError, IndexError, TypeError) as ex:
            ctx.undecided(rule, mod.scope, None, construct=f"{short}:{const}", detail=str(ex))
            continue
        ctx.decide(rule, ok, mod.scope, None, construct=f"{short}:{const}", detail=f"props[{const}={idx}] is '{key}'",
                   bad_detail=f"{short}: props[{const}={idx}] holds {got!r}, not '{key}' (index constant and _make_properties order disagree)")
    branch_ids = []
    if nb > 1:
        for n in range(nb):
            try:
                gid = I.call(I.module_value(mod, "_return_Gneq_id_for_branch"), [n], {})
                gid = I.as_int(gid)
                okb = _A.equal(props.data[gid].a, _A.atom(f"prop<non equilibrium shear modulus {n + 1}>")) and \
                    _A.equal(props.data[gid + 1].a, _A.atom(f"prop<relaxation time {n + 1}>"))
            except (EvalError, KeyError, IndexError, TypeError) as ex:
                ctx.undecided(rule, mod.scope, None, construct=f"{short}:branch-{n}", detail=str(ex))
                continue
            branch_ids.append(gid)
            ctx.decide(rule, okb, ctx.need(f"{mname}:_return_Gneq_id_for_branch"), None, construct=f"{short}:branch-{n}-slots",
                       detail=f"branch {n} uses props[{gid}] (modulus {n + 1}) and props[{gid + 1}] (relaxation time {n + 1})",
                       bad_detail=f"branch {n} reads props[{gid}] = {props.data[gid].a!r} and props[{gid + 1}] = {props.data[gid + 1].a!r}; "
                                  f"expected modulus and relaxation time of branch {n + 1}")
    # ---- D1: increment traceless ; D3 factor
    rule = "D1/T9-traceless-increment"
    E = sym_generic("e")
    inc_fn = I.module_value(mod, "_compute_state_increment")
    incs = []
    for b in range(nb):
        args = [E, dt, props] + ([branch_ids[b]] if nb > 1 and b < len(branch_ids) else [])
        sc = ctx.need(f"{mname}:_compute_state_increment")
        try:
            inc = I.call(inc_fn, args, {})
            tr = inc.data[0] + inc.data[4] + inc.data[8]
        except (EvalError, Raised, KeyError, IndexError, TypeError) as ex:
            ctx.undecided(rule, sc, None, construct=f"{short}:increment[{b}]", detail=str(ex))
            continue
        incs.append(inc)
        ctx.decide(rule, rat_is_zero(tr.a), sc, None, construct=f"{short}:increment[{b}]-traceless", detail="viscous strain increment is identically traceless",
                   bad_detail=f"{short}: the viscous strain increment of branch {b} has trace {tr.a!r}: viscous flow would change volume")
        # factor: inc = f * dev(E) with f = dt/(tau + dt)
        tauname = f"prop<relaxation time{'' if nb == 1 else ' ' + str(b + 1)}>"
        f_want = _A.norm(_A.atom("dt") / (_A.atom(tauname) + _A.atom("dt")))
        # off-diagonal entry (0,1): inc01 = f * e01
        f_got = _A.norm(inc.data[1].a / _A.atom("e01"))
        okf = _A.equal(f_got, f_want)
        l0 = _A.subst(f_got, "dt", _A.const(0)) if okf else None
        li = limit_inf(f_got, "dt") if okf else None
        ctx.decide("D3/T7-update-factor", okf and rat_is_zero(l0) and isinstance(li, Rat) and _A.equal(li, _A.const(1)), sc, None,
                   construct=f"{short}:factor[{b}]", detail=f"increment = [dt/(tau+dt)] dev(E): 0 at dt=0, -> 1 as dt -> inf",
                   bad_detail=f"{short}: increment factor of branch {b} is {f_got!r}; backward Euler gives dt/(tau+dt) (0 at dt = 0, limit 1 at infinity)")
    # ---- D2: dissipation potential
    rule = "D2/T8-dissipation-nonnegative"
    D = sym_generic("d")
    dp = I.module_value(mod, "_dissipation_potential")
    for b in range(nb):
        sc = ctx.need(f"{mname}:_dissipation_potential")
        args = [D, props] + ([branch_ids[b]] if nb > 1 and b < len(branch_ids) else [])
        try:
            psi = I.num(I.call(dp, args, {}))
            suffix = "" if nb == 1 else f" {b + 1}"
            want = Dual(_A.atom(f"prop<non equilibrium shear modulus{suffix}>")) * Dual(_A.atom(f"prop<relaxation time{suffix}>")) * dev_sq(D)
            ok = _A.equal(psi.a, want.a)
        except (EvalError, Raised, KeyError, IndexError, TypeError) as ex:
            ctx.undecided(rule, sc, None, construct=f"{short}:potential[{b}]", detail=str(ex))
            continue
        ctx.decide(rule, ok, sc, None, construct=f"{short}:potential[{b}]=G*tau*|dev D|^2", detail="positive multiple of a sum of squares",
                   bad_detail=f"{short}: dissipation potential of branch {b} is {psi.a!r}, not G*tau*dev(D):dev(D) >= 0")
    # dissipated energy and energy coefficient with abstracted trial strain / equilibrium energy
    I2 = mt.make_interp(ctx.repo)
    Es = [sym_generic(f"e{b}_") if nb > 1 else sym_generic("e") for b in range(nb)]
    counter = {"k": 0}

    def strain(interp, a, k):
        b = counter["k"] % nb
        counter["k"] += 1
        return Es[b]
    I2.special[f"{mname}:_compute_elastic_logarithmic_strain"] = strain
    I2.special[f"{mname}:_eq_strain_energy"] = lambda interp, a, k: Dual(_A.atom("Weq"))
    state = Arr([Dual(_A.atom(f"s{k}")) for k in range(9 * nb)], (9 * nb,))
    H = generic("h")
    sc_e = ctx.need(f"{mname}:_energy_density")
    sc_d = ctx.need(f"{mname}:_compute_dissipated_energy")
    try:
        counter["k"] = 0
        W = I2.num(I2.call(I2.module_value(mod, "_energy_density"), [H, state, dt, props], {}))
        counter["k"] = 0
        Dis = I2.num(I2.call(I2.module_value(mod, "_compute_dissipated_energy"), [H, state, dt, props], {}))
    except (EvalError, Raised, KeyError, IndexError, TypeError) as ex:
        ctx.undecided("D3/T7-energy-limits", sc_e, None, construct=f"{short}:energy", detail=str(ex))
        return
    # expected: W = Weq + sum_b G_b [ (1-f_b)^2 + tau_b f_b^2/dt ] |dev E_b|^2 ; Dis = sum_b G_b tau_b f_b^2/dt |dev E_b|^2
    Wexp = Dual(_A.atom("Weq"))
    Dexp = Dual(0)
    W0 = Dual(_A.atom("Weq"))
    for b in range(nb):
        suffix = "" if nb == 1 else f" {b + 1}"
        G = Dual(_A.atom(f"prop<non equilibrium shear modulus{suffix}>"))
        tau = Dual(_A.atom(f"prop<relaxation time{suffix}>"))
        f = dt / (tau + dt)
        q = dev_sq(Es[b])
        Wexp = Wexp + G * ((Dual(1) - f) * (Dual(1) - f) + tau * f * f / dt) * q
        Dexp = Dexp + G * tau * f * f / dt * q
        W0 = W0 + G * q
    okd = _A.equal(Dis.a, Dexp.a)
    ctx.decide("D2/T8-dissipation-nonnegative", okd, sc_d, None, construct=f"{short}:dissipated-energy",
               detail="dissipated energy = sum_b G_b tau_b f_b^2/dt |dev E_b|^2 >= 0 (each factor positive)",
               bad_detail=f"{short}: reported dissipated energy is {Dis.a!r}; expected sum over branches of G*tau*(dt/(tau+dt))^2/dt*|dev E|^2")
    oke = _A.equal(W.a, Wexp.a)
    ctx.decide("D3/T7-energy-limits", oke, sc_e, None, construct=f"{short}:energy-form",
               detail="W = W_eq + sum_b G_b[(1-f_b)^2 + tau_b f_b^2/dt]|dev E_b|^2 with the same increment in stored energy and dissipation",
               bad_detail=f"{short}: energy is not W_eq + sum_b G_b[(1-f_b)^2 + tau_b f_b^2/dt]|dev E_b|^2 (difference {_A.norm(W.a - Wexp.a)!r}): stored energy, "
                          f"increment and dissipation do not use the same updated strain")
    # limits of the actual W
    try:
        w_at0 = _A.subst(_A.norm(W.a), "dt", _A.const(0))
        ok0 = _A.equal(w_at0, W0.a)
    except ZeroDivisionError:
        ok0 = False
        w_at0 = "undefined"
    ctx.decide("D3/T7-energy-limits", ok0, sc_e, None, construct=f"{short}:dt->0-instantaneous",
               detail="W(dt = 0) = W_eq + sum_b G_b |dev E_b|^2 (all branches elastic)",
               bad_detail=f"{short}: at dt = 0 the energy is {w_at0!r}, not the instantaneous value W_eq + sum_b G_b|dev E_b|^2")
    li = limit_inf(_A.norm(W.a - _A.atom("Weq")), "dt")
    oki = isinstance(li, Rat) and rat_is_zero(li)
    ctx.decide("D3/T7-energy-limits", oki, sc_e, None, construct=f"{short}:dt->inf-equilibrium",
               detail="W - W_eq -> 0 as dt -> infinity",
               bad_detail=f"{short}: as dt -> infinity the non-equilibrium part of the energy tends to {li!r}, not 0")
    # ---- D1: state update layout per branch
    rule = "D1/T5-distortion-update"
    I3 = mt.make_interp(ctx.repo)
    counter3 = {"k": 0}
    Xs = [generic(f"x{b}_") for b in range(nb)]
    seen = []

    def strain3(interp, a, k):
        b = counter3["k"] % nb
        counter3["k"] += 1
        seen.append(("strain", a[1]))
        return Es[b]

    def expm(interp, a, k):
        seen.append(("expm", a[0]))
        return Xs[(len([s for s in seen if s[0] == "expm"]) - 1) % nb]
    I3.special[f"{mname}:_compute_elastic_logarithmic_strain"] = strain3
    orig_ext = I3.call_ext

    def call_ext(name, args, kwargs):
        if name == "jax.scipy.linalg.expm":
            return expm(I3, args, kwargs)
        return orig_ext(name, args, kwargs)
    I3.call_ext = call_ext
    sc_s = ctx.need(f"{mname}:_compute_state_new")
    try:
        new = I3.call(I3.module_value(mod, "_compute_state_new"), [H, state, dt, props], {})
        ok = isinstance(new, Arr) and new.ravel().shape == (9 * nb,)
        new = new.ravel()
        for b in range(nb):
            Fv_old = Arr(state.data[9 * b: 9 * b + 9], (3, 3))
            want = matmul(Xs[b], Fv_old)
            got = Arr(new.data[9 * b: 9 * b + 9], (3, 3))
            okb = all(_A.equal(x.a, y.a) for x, y in zip(got.data, want.data))
            # argument of expm for this branch is the increment of this branch's trial strain
            ex_args = [s[1] for s in seen if s[0] == "expm"]
            okarg = b < len(ex_args) and b < len(incs) and all(_A.equal(x.a, y.a) for x, y in zip(ex_args[b].data, _reinc(incs[b], Es[b], nb).data))
            st_args = [s[1] for s in seen if s[0] == "strain"]
            okst = b < len(st_args) and isinstance(st_args[b], Arr) and all(_A.equal(x.a, y.a) for x, y in zip(st_args[b].ravel().data, state.data[9 * b: 9 * b + 9]))
            ctx.decide(rule, ok and okb and okarg and okst, sc_s, None, construct=f"{short}:branch-{b}",
                       detail=f"Fv_new[{b}] = expm(increment of branch {b}) @ Fv_old[{b}], trial strain from Fv_old[{b}]",
                       bad_detail=f"{short}: branch {b}: new distortion = expm(.) @ own old distortion: {okb}; expm argument is this branch's increment: {okarg}; "
                                  f"trial strain computed from this branch's old distortion: {okst}; state length ok: {ok}")
    except (EvalError, Raised, KeyError, IndexError, TypeError) as ex:
        ctx.undecided(rule, sc_s, None, construct=f"{short}:state-update", detail=str(ex))


def _reinc(inc, E, nb):
    """increment computed for generic `e..` strain, re-expressed for the branch strain symbols."""
    if nb == 1:
        return inc
    out = []
    names = {(i, j): (f"e{min(i, j)}{max(i, j)}") for i in range(3) for j in range(3)}
    for x in inc.data:
        r = x.a
        for (i, j), nm in names.items():
            r = _A.subst(r, nm, E.data[i * 3 + j].a)
        out.append(Dual(r))
    return Arr(out, inc.shape)


def variants(repo):
    from optilint.selftest import Variant, sub, sub_in_func, alpha_rename, reformat
    V = "optimism/material/HyperViscoelastic.py"
    MB = "optimism/material/MultiBranchHyperViscoelastic.py"
    return [
        Variant("dissipation not multiplied by dt", V, sub_in_func("_energy_density", "    return W_eq + W_neq + dt * Psi", "    return W_eq + W_neq + Psi"), "D3/T8-dimensional-homogeneity"),
        Variant("viscosity without relaxation time", V, sub_in_func("_dissipation_potential", "    eta   = G_neq * tau", "    eta   = G_neq"), "D3/T8-dimensional-homogeneity"),
        Variant("rate divided by dt twice", V, sub_in_func("_energy_density", "    Dv = delta_Ev / dt", "    Dv = delta_Ev / dt / dt"), "D3/T8-dimensional-homogeneity"),
        Variant("increment not deviatoric", V, sub_in_func("_compute_state_increment", "    Ee_dev = TensorMath.dev(elasticStrain)", "    Ee_dev = elasticStrain"), "D1/T9-traceless-increment"),
        Variant("factor 1/(1+tau/dt)", V, sub_in_func("_compute_state_increment", "integration_factor = 1. / (1. + dt / tau)", "integration_factor = 1. / (1. + tau / dt)"), "D3/T7-update-factor"),
        Variant("dissipation with minus sign", V, sub_in_func("_dissipation_potential", "    return eta * TensorMath.norm_of_deviator_squared(Dv)", "    return -eta * TensorMath.norm_of_deviator_squared(Dv)"), "D2/T8-dissipation-nonnegative"),
        Variant("dissipated energy without dt", V, sub_in_func("_compute_dissipated_energy", "    return dt * _dissipation_potential(Dv, props)", "    return _dissipation_potential(Dv, props)"), "D2/T8-dissipation-nonnegative"),
        Variant("energy at trial strain (multi)", MB, sub_in_func("_energy_density", "_neq_strain_energy(Ee, props, _return_Gneq_id_for_branch(n))", "_neq_strain_energy(Ee_trial, props, _return_Gneq_id_for_branch(n))"), "D3/T7-energy-limits"),
        Variant("energy at trial strain (single)", V, sub_in_func("_energy_density", "    W_neq = _neq_strain_energy(Ee, props)", "    W_neq = _neq_strain_energy(Ee_trial, props)"), "D3/T7-energy-limits"),
        Variant("branch 2 reads branch 1 relaxation time", MB, sub_in_func("_compute_state_increment", "    tau   = props[prop_id + 1]", "    tau   = props[PROPS_TAU_1]"), "D3/T7-update-factor"),
        Variant("branch index map", MB, sub("    return PROPS_G_neq_1 + 2 * n", "    return PROPS_G_neq_1 + n"), "D4/T5-property-slots"),
        Variant("property order swapped", MB, sub("        properties['non equilibrium shear modulus 2'],\n        properties['relaxation time 2'],", "        properties['relaxation time 2'],\n        properties['non equilibrium shear modulus 2'],"), "D4/T5-property-slots"),
        Variant("state update uses wrong branch distortion", MB, sub_in_func("_compute_state_new", "      Fv_old = state_temp.reshape((3, 3))", "      Fv_old = _return_state_for_branch(stateOld, 0).reshape((3, 3))"), "D1/T5-distortion-update"),
        Variant("left Cauchy-Green", V, sub("TensorMath.log_sqrt_symm(Fe_trial.T @ Fe_trial)", "TensorMath.log_sqrt_symm(Fe_trial @ Fe_trial.T)"), "D1/T9-frames"),
        Variant("reformat single", V, reformat(), None),
        Variant("reformat multi", MB, reformat(), None),
        Variant("equivalent factor", V, sub_in_func("_compute_state_increment", "integration_factor = 1. / (1. + dt / tau)", "integration_factor = tau / (tau + dt)"), None),
    ]
