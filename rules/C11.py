"""C11 -- viscoelastic models: dissipation >= 0, isochoric viscous flow, limits of the time step.

The two model factories (single branch and three branches) are *called* by the abstract interpreter (optilint.tensoreval,
the library is never executed) and the closures of the public `MaterialModel` interface they return -- energy density, new
state, dissipated energy -- are interpreted on generic symbolic inputs (generic 3x3 displacement gradient, generic state
vector, positive symbols for dt and the material constants).  Only library-level primitives are abstracted, each by a generic
symbolic matrix that is memoised on its (exact) argument, so the same strain computed three times, in any order, in loops,
comprehensions or extracted helpers with any signature, is the same symbol:

     inverse of a non-diagonal matrix                 V_k      (argument recorded: which state block it inverts)
     isotropic function of a symmetric tensor         M_k      symmetric (log / sqrt / pow: the trial elastic strain)
     matrix exponential                               X_k      (argument recorded: the viscous strain increment)

Everything else (deviators, norms, the Prony sums, property look-ups, state slicing and packing, private helpers whatever
their names and signatures) is interpreted exactly.  Roles are read off the *values*:

   branch b             the b-th block of nine state entries (block count = length of the model's initial state / 9)
   increment A_b        the argument of the exponential whose product with the old distortion of block b is block b of the new state
   relaxed strain T_b   lim dt->inf A_b  (= dev of the trial strain), factor f_b = A_b / T_b (a rational function of dt)
   tau_b, G_b           the relaxation time in f_b and the modulus with the same branch suffix (public property keys)
   W_eq                 the energy with all strain symbols set to zero;  q_b = T_b : T_b

  D1  isochoric: A_b is identically traceless (T9-traceless-increment); block b of the new state is X(A_b) @ old block b and A_b is
      built from the trial strain of block b only (T5-distortion-update; a result that is provably the product with ANOTHER block, or whose
      determinant differs from det(old block) for an explicit unimodular witness, is refuted); frames of the update (T9-frames, rules/frames.py);
  D2  dissipation: reported dissipated energy = sum_b c_b q_b with c_b = G_b tau_b f_b^2/dt > 0  -- the dissipative part of the
      incremental potential, a positive multiple of a sum of squares for every branch;
  D3  limits: f_b = dt/(tau_b + dt) (0 at dt = 0, -> 1 as dt -> inf, in (0,1)); W - W_eq = sum_b G_b[(1-f_b)^2 + tau_b f_b^2/dt] q_b,
      W(dt = 0) = W_eq + sum_b G_b q_b (instantaneous response), W - W_eq -> 0 as dt -> inf (equilibrium response);
  D4  tables: every branch uses the modulus and the relaxation time of ONE branch suffix, different branches use different suffixes;
      the public index constants PROPS_* address the property they name in the vector the kernels index.
Not decided: monotone decay of the stored energy over multi-step histories (numerical).
"""
from __future__ import annotations

import ast
import itertools
import re
from fractions import Fraction

from optilint.core import Incomplete
from optilint.expr import Poly, Rat, simplify, NotPolynomial
from optilint import tensoreval as te
from optilint.tensoreval import (Interp, Dual, Arr, EvalError, Raised, Record, _A, rat_is_zero, rat_sign, rat_const, sum_d, matmul)
from . import materials as mt
from . import frames

LEVEL = "other"
RULE_TEXT = ("obligations = (model x branch: increment traceless / update factor / distortion update / dissipation coefficient / property pairing) + "
             "(model: energy form, value at dt=0, limit dt=inf, dissipated energy) + (property slot x name) + frames + eigen solver algebra")
EXPLANATION = ("Abstract interpretation of the factories of HyperViscoelastic and MultiBranchHyperViscoelastic and of the model closures they "
               "return on generic symbolic tensors (inverse, spectral functions and expm abstracted by memoised generic matrices): exact "
               "identities for tracelessness, the dissipated energy and the dt-dependence of the stored energy (value at 0 and limit at "
               "infinity of a rational function), role-based pairing of branch properties, and frame typing of the distortion update. "
               "Monotone relaxation over histories is not decided.")

MODS = [("optimism.material.HyperViscoelastic", "create_material_model_functions"),
        ("optimism.material.MultiBranchHyperViscoelastic", "create_material_model_functions")]
G_KEY, TAU_KEY = "non equilibrium shear modulus", "relaxation time"
_EXC = (EvalError, Raised, KeyError, IndexError, TypeError, AttributeError, ValueError, ZeroDivisionError, NotPolynomial, RecursionError)


def run(ctx):
    for (m, fac) in MODS:
        ctx.need_module(m)
        ctx.guard(one_model, ctx, m, fac)
    ctx.guard(frames.analyse_models, ctx, "D1/T9-frames", [(m, fac, "solid") for (m, fac) in MODS], parts=("energy", "state"))
    from . import units
    ctx.guard(units.run, ctx, "D3/T8-dimensional-homogeneity", {m for (m, _) in MODS}, min_scenarios=4)
    # the elastic trial strain is log_sqrt_symm of a symmetric tensor: the closed-form eigen solver it relies on (shared with C12)
    from . import eigenalg
    ctx.need_module("optimism.TensorMath")
    ctx.guard(eigenalg.run, ctx, "D3/T7-eigen-solver-algebra", "optimism.TensorMath:eigen_sym33_non_unit")
    ctx.trust("det expm(A) = exp(tr A); dev(A):dev(A) is a sum of squares; det(X Y) = det X det Y")
    ctx.assume("moduli, relaxation times and dt are positive")


# ------------------------------------------------------------------------------------------------ symbolic interpreter

def _generic(prefix, symmetric=False):
    if symmetric:
        return Arr([Dual(_A.atom(f"{prefix}{min(i, j)}{max(i, j)}")) for i in range(3) for j in range(3)], (3, 3))
    return Arr([Dual(_A.atom(f"{prefix}{i}{j}")) for i in range(3) for j in range(3)], (3, 3))


def _key(arr: Arr):
    return (arr.shape, tuple(repr(simplify(_A.norm(x.a))) for x in arr.data))


class ViscoInterp(Interp):
    """constant-propagating interpreter with three abstractions (inverse, spectral function, expm), each memoised on its argument"""

    def __init__(self, repo):
        super().__init__(repo, max_depth=60)
        self.inv_calls, self.spec_calls, self.expm_calls = [], [], []       # [(argument Arr, result Arr, extra)]
        self._memo = {}
        self.calls = []               # all abstractions in creation order: (kind, argument, result, extra)
        self.prop_vectors = []
        self.spec_fns = {}            # off-diagonal symbol of a spectral result -> the scalar function that was applied
        self.special["optimism.TensorMath:symmetric_matrix_function"] = lambda it, a, k: it.spectral_fn(*_bind(a, k, ("A", "func")))
        self.special["optimism.TensorMath:inv"] = lambda it, a, k: it.inverse(_bind(a, k, ("A",))[0])
        self.special["optimism.Math:safe_sqrt"] = lambda it, a, k: te.d_fun("sqrt", it.num(a[0]))

    def _abstract(self, kind, table, arg: Arr, symmetric, extra=None):
        k = (kind, extra, _key(arg))
        if k not in self._memo:
            sym = _generic(f"{kind}{len(table)}_", symmetric)
            table.append((arg, sym, extra))
            self.calls.append((kind, arg, sym, extra))
            self._memo[k] = sym
        return self._memo[k]

    def inverse(self, A_):
        A_ = self.num(A_)
        if isinstance(A_, Arr) and A_.ndim == 2 and A_.is_diagonal():
            return Interp.np_call(self, "linalg.inv", [A_], {})
        if not (isinstance(A_, Arr) and A_.shape == (3, 3)):
            raise EvalError("inverse of a value that is not a 3x3 matrix")
        return self._abstract("v", self.inv_calls, A_, False)

    def spectral_fn(self, A_, f):
        A_ = self.num(A_)
        if not (isinstance(A_, Arr) and A_.shape == (3, 3)):
            raise EvalError("spectral function of a value that is not a 3x3 matrix")
        if A_.is_diagonal():
            out = [Dual(0)] * 9
            for i in range(3):
                out[i * 3 + i] = self.num(self.call(f, [A_.data[i * 3 + i]], {}))
            return Arr(out, (3, 3))
        try:
            fk = repr(self.num(self.call(f, [Dual(_A.atom("@lambda"))], {})).a)
        except _EXC:
            fk = repr(f)
        sym = self._abstract("m", self.spec_calls, A_, True, extra=fk)
        self.spec_fns.setdefault(_single_atom(sym.data[1].a), f)
        return sym

    def call_ext(self, name, args, kwargs):
        if name == "jax.scipy.linalg.expm" or name.endswith("linalg.expm"):
            A_ = self.num(args[0])
            if isinstance(A_, Arr) and A_.shape == (3, 3) and not A_.is_diagonal():
                return self._abstract("x", self.expm_calls, A_, False)
        return super().call_ext(name, args, kwargs)

    def np_call(self, fn, args, kwargs):
        if fn == "linalg.inv" and args:
            return self.inverse(args[0])
        return super().np_call(fn, args, kwargs)

    def getitem(self, base, key):
        if isinstance(base, Arr) and base.ndim == 1 and len(base.data) >= 2 and not any(base is v for v in self.prop_vectors):
            if all(_single_atom(x.a, "prop<") for x in base.data):
                self.prop_vectors.append(base)
        return super().getitem(base, key)


def _bind(args, kwargs, names):
    vals = list(args) + [None] * (len(names) - len(args))
    for k, v in kwargs.items():
        if k in names:
            vals[names.index(k)] = v
    return vals[:len(names)]


def _single_atom(r: Rat, prefix=""):
    """the atom a if r == a exactly (and a starts with prefix)"""
    r = simplify(_A.norm(r))
    if r.d.is_const() and r.d.const_value() == 1 and len(r.n.t) == 1:
        (mono, c), = r.n.t.items()
        if c == 1 and len(mono) == 1 and mono[0][1] == 1 and mono[0][0].startswith(prefix):
            return mono[0][0]
    return None


def limit_inf(r: Rat, atom):
    """limit of a rational function as atom -> +infinity: (value Rat | 'inf' | None)"""
    r = simplify(_A.norm(r))
    n, d = r.n, r.d
    dn, dd = n.degree_in(atom), d.degree_in(atom)
    if n.is_zero() or dn < dd:
        return Rat(Poly())
    if dn > dd:
        return "inf"

    def lead(p, k):
        out = {}
        for m, c in p.t.items():
            dm = dict(m)
            if dm.get(atom, 0) == k:
                dm.pop(atom, None)
                mm = tuple(sorted(dm.items()))
                out[mm] = out.get(mm, 0) + c
        return Poly(out)
    return simplify(_A.norm(Rat(lead(n, dn), lead(d, dd))))


def _drop(r: Rat, pred) -> Rat:
    """r with every atom satisfying pred set to zero"""
    r = _A.norm(r)
    if any(pred(a) for a in r.d.atoms()):
        out = r
        for a in sorted(x for x in r.atoms() if pred(x)):
            out = _A.subst(out, a, _A.const(0))
        return simplify(out)
    return simplify(Rat(Poly({m: c for m, c in r.n.t.items() if not any(pred(a) for (a, _) in m)}), r.d))


def _frob(T: Arr) -> Dual:
    return sum_d(x * x for x in T.data)


def _det3(M: Arr) -> Dual:
    g = lambda i, j: M.data[i * 3 + j]
    return g(0, 0) * g(1, 1) * g(2, 2) + g(0, 1) * g(1, 2) * g(2, 0) + g(0, 2) * g(1, 0) * g(2, 1) \
        - g(0, 0) * g(1, 2) * g(2, 1) - g(0, 1) * g(1, 0) * g(2, 2) - g(0, 2) * g(1, 1) * g(2, 0)


def _arr_equal(X: Arr, Y: Arr):
    return X.shape == Y.shape and all(_A.equal(x.a, y.a) for x, y in zip(X.data, Y.data))


def _short(r, n=200):
    s = repr(r)
    return s if len(s) <= n else s[:n] + "..."


def _suffix(atom, key):
    """'prop<relaxation time 2>' -> ' 2' ; 'prop<relaxation time>' -> '' ; None when atom is not this key"""
    m = re.fullmatch(r"prop<" + re.escape(key) + r"( \d+)?>", atom)
    return None if m is None else (m.group(1) or "")


# ------------------------------------------------------------------------------------------------ one model

def one_model(ctx, mname, fac_name):
    mod = ctx.need_module(mname)
    short = mname.split(".")[-1]
    fac = ctx.need(f"{mname}:{fac_name}")
    I = ViscoInterp(ctx.repo)
    props_d = mt.PropDict(I, {}, set())
    dt = Dual(_A.atom("dt"))
    I.positive.add("dt")
    H = _generic("h")
    te.OPAQUE[0] = True
    try:
        try:
            model = I.call(I.module_value(mod, fac_name), [props_d], {})
            st0 = I.call(model.get("compute_initial_state"), [], {})
            st0 = st0.ravel()
            N = st0.shape[0]
            if N == 0 or N % 9 != 0:
                raise EvalError(f"the initial state has {N} entries, not a whole number of 3x3 viscous distortions")
            nb = N // 9
            state = Arr([Dual(_A.atom(f"s{k}")) for k in range(N)], (N,))
            new = I.call(model.get("compute_state_new"), [H, state, dt], {})
            W = I.num(I.call(model.get("compute_energy_density"), [H, state, dt], {}))
            qoi = model.get("compute_material_qoi")
            Dis = I.num(I.call(qoi, [H, state, dt], {})) if qoi is not None else None
        except _EXC as ex:
            ctx.undecided("D3/T7-energy-limits", fac, None, construct=f"{short}:model", detail=f"cannot interpret the model on generic tensors: {type(ex).__name__}: {ex}")
            return
    finally:
        te.OPAQUE[0] = False
    for q in I.visited:
        s_ = ctx.repo.find(q)
        if s_ is not None:
            ctx.touch(s_)
    sc_new = _scope_of_field(ctx, model, "compute_state_new", fac)
    sc_W = _scope_of_field(ctx, model, "compute_energy_density", fac)
    sc_D = _scope_of_field(ctx, model, "compute_material_qoi", fac)
    Fv = [Arr(state.data[9 * b: 9 * b + 9], (3, 3)) for b in range(nb)]
    # which state block(s) every abstract symbol descends from (through inverses, spectral functions, exponentials, in creation order)
    origin = {f"s{k}": {k // 9} for k in range(N)}
    strain_blocks = {}
    for (kind, arg, sym, _) in I.calls:
        bl = set()
        for x in arg.data:
            for a in x.a.atoms():
                bl |= origin.get(a, set())
        for x in sym.data:
            for a in x.a.atoms():
                origin[a] = bl
                if kind == "m":
                    strain_blocks[a] = bl
    is_strain = lambda a: a in strain_blocks
    # exponentials: the matrix exponential and spectral functions whose scalar function is exp
    exps = [(arg, X) for (arg, X, _) in I.expm_calls] + [(arg, X) for (arg, X, fk) in I.spec_calls if str(fk).startswith("exp[")]
    # ---- D1/T5: the state update, block by block
    rule = "D1/T5-distortion-update"
    incs = {}
    if not (isinstance(new, Arr) and new.size() == N):
        ctx.undecided(rule, sc_new, None, construct=f"{short}:state-update", detail=f"the new state is {new!r}, the old one has {N} entries")
        new_blocks = []
    else:
        new = new.ravel()
        new_blocks = [Arr(new.data[9 * b: 9 * b + 9], (3, 3)) for b in range(nb)]
    for b, nb_ in enumerate(new_blocks):
        hit = None
        for (k, (arg, X)), j in itertools.product(enumerate(exps), range(nb)):
            if _arr_equal(nb_, matmul(X, Fv[j])):
                hit = (k, j, arg)
                break
        cons = f"{short}:branch-{b}"
        if hit is not None:
            k, j, arg = hit
            src = set()
            for x in arg.data:
                for a in x.a.atoms():
                    src |= origin.get(a, set())
            incs[b] = arg
            ok = (j == b) and src == {b}
            ctx.decide(rule, ok, sc_new, None, construct=cons,
                       detail=f"Fv_new[{b}] = expm(increment of branch {b}) @ Fv_old[{b}], trial strain from Fv_old[{b}]",
                       bad_detail=f"{short}: block {b} of the new state is expm(A) @ (old distortion of block {j}) with A built from the trial strain of block(s) {sorted(src)}: "
                                  f"branch {b} must evolve from its own old distortion and its own trial strain")
            continue
        # not of the recognised form: is it at least volume preserving?  det(new) must equal det(X) det(old) identically
        try:
            dnew = _det3(nb_)
            ident = any(_A.equal(dnew.a, (_det3(X) * _det3(Fv[b])).a) for (_, X) in exps)
        except _EXC:
            ident = None
        wit = _det_witness(I, exps, nb_, nb) if not ident else None
        if wit is not None:
            ctx.refuted(rule, sc_new, None, construct=cons,
                        detail=f"{short}: block {b} of the new state is not expm(increment) @ old distortion and is not volume preserving: {wit}")
        else:
            ctx.undecided(rule, sc_new, None, construct=cons,
                          detail=f"{short}: block {b} of the new state is not recognised as expm(increment) @ old distortion of that block"
                                 + (" (its determinant is preserved)" if ident else ""))
    # ---- D1 traceless, D3 update factor per branch
    facs, Ts, taus = {}, {}, {}
    for b in range(nb):
        if b not in incs:
            continue
        Ab = incs[b]
        tr = Ab.data[0] + Ab.data[4] + Ab.data[8]
        ctx.decide("D1/T9-traceless-increment", rat_is_zero(tr.a), sc_new, None, construct=f"{short}:increment[{b}]-traceless",
                   detail="the argument of the matrix exponential (viscous strain increment) is identically traceless: det Fv is preserved",
                   bad_detail=f"{short}: the viscous strain increment of branch {b} has trace {_short(tr.a)}: viscous flow would change volume")
        rule = "D3/T7-update-factor"
        cons = f"{short}:factor[{b}]"
        try:
            lims = [limit_inf(x.a, "dt") for x in Ab.data]
        except _EXC as ex:
            ctx.undecided(rule, sc_new, None, construct=cons, detail=f"the increment is not a rational function of dt: {ex}")
            continue
        if any(l == "inf" for l in lims):
            ctx.refuted(rule, sc_new, None, construct=cons,
                        detail=f"{short}: the viscous strain increment of branch {b} grows without bound as dt -> infinity (backward Euler gives dt/(tau+dt) dev(E), which tends to dev(E))")
            continue
        if any(l is None for l in lims):
            ctx.undecided(rule, sc_new, None, construct=cons, detail="limit of the increment for dt -> infinity not computable")
            continue
        T = Arr([Dual(l) for l in lims], (3, 3))
        p = next((i for i, l in enumerate(lims) if not rat_is_zero(l)), None)
        if p is None:
            ctx.refuted(rule, sc_new, None, construct=cons,
                        detail=f"{short}: the viscous strain increment of branch {b} tends to 0 as dt -> infinity: the branch never relaxes to equilibrium")
            continue
        # both are linear in the strain symbols: the ratio of the coefficients of one of them is the factor
        a1 = next((a for a in sorted(lims[p].atoms()) if is_strain(a)), None)
        c_inc, c_lim = _coeffk(Ab.data[p].a, a1, 1), _coeffk(lims[p], a1, 1)
        if a1 is None or c_inc is None or c_lim is None or rat_is_zero(c_lim):
            ctx.undecided(rule, sc_new, None, construct=cons, detail="the relaxed increment does not depend on the trial strain")
            continue
        f = simplify(_A.norm(c_inc / c_lim))
        prop = all(_A.equal(x.a, _A.norm(f * l)) for x, l in zip(Ab.data, lims))
        if not prop or any(is_strain(a) for a in f.atoms()):
            ctx.undecided(rule, sc_new, None, construct=cons, detail="the increment is not (a function of dt) x (a dt-independent tensor)")
            continue
        tau_atoms = sorted(a for a in f.atoms() if _suffix(a, TAU_KEY) is not None)
        l0 = None
        try:
            l0 = _A.subst(f, "dt", _A.const(0))
        except (ZeroDivisionError, NotPolynomial):
            pass
        s_f, s_1f = rat_sign(f, I.positive), rat_sign(_A.norm(_A.const(1) - f), I.positive)
        if l0 is None or not rat_is_zero(l0) or s_f == -1 or s_1f == -1:
            ctx.refuted(rule, sc_new, None, construct=cons,
                        detail=f"{short}: increment factor of branch {b} is {_short(f)}: value at dt = 0 is {('undefined' if l0 is None else _short(l0))}, "
                               f"sign of f: {s_f}, sign of 1 - f: {s_1f}; backward Euler gives dt/(tau+dt) (0 at dt = 0, in (0,1), limit 1 at infinity)")
            continue
        okf = len(tau_atoms) == 1 and _A.equal(f, _A.norm(_A.atom("dt") / (_A.atom(tau_atoms[0]) + _A.atom("dt"))))
        ori = _orientation(I, H, Fv, T, b, is_strain)
        if ori == -1:
            ctx.refuted(rule, sc_new, None, construct=cons,
                        detail=f"{short}: the viscous strain increment of branch {b} is a NEGATIVE multiple of the deviatoric trial elastic strain (an increasing function of "
                               f"the elastic Cauchy-Green tensor F Fv^-1): the update moves the viscous distortion away from equilibrium, the stored energy grows at fixed deformation")
            continue
        if not okf:
            # backward Euler with some time constant X:  f = dt/(X + dt)  <=>  X = dt (1 - f)/f  is free of dt
            try:
                X = simplify(_A.norm(_A.atom("dt") * (_A.const(1) - f) / f))
            except (ZeroDivisionError, NotPolynomial):
                X = None
            xa = _single_atom(X, "prop<") if X is not None and "dt" not in X.atoms() else None
            if xa is not None and _suffix(xa, TAU_KEY) is None:
                ctx.refuted("D4/T5-property-slots", fac, None, construct=f"{short}:branch-{b}-slots",
                            detail=f"{short}: branch {b} relaxes with the time constant {xa}, which is not a relaxation time: the property vector and the "
                                   f"indices the branch reads disagree")
        ctx.decide(rule, True if (okf and s_f == 1 and s_1f == 1 and ori == 1) else None, sc_new, None, construct=cons,
                   detail="increment = +[dt/(tau+dt)] dev(E), E increasing in the elastic Cauchy-Green tensor: 0 at dt=0, in (0,1), -> 1 as dt -> inf",
                   bad_detail=(f"{short}: increment factor of branch {b} is {_short(f)}: the limits are right but it is not the backward Euler factor dt/(tau+dt) of one relaxation time"
                               if not okf else f"{short}: the relaxed increment of branch {b} is not recognised as a positive multiple of dev(g(C_e)) with g increasing and "
                                               f"C_e the elastic Cauchy-Green tensor of this branch: its direction is not established"))
        if okf:
            facs[b], Ts[b], taus[b] = f, T, tau_atoms[0]
    # ---- energy: equilibrium part, non-equilibrium coefficients
    try:
        Weq = _drop(W.a, is_strain)
        Wneq = simplify(_A.norm(W.a - Weq))
    except _EXC as ex:
        ctx.undecided("D3/T7-energy-limits", sc_W, None, construct=f"{short}:energy", detail=f"{type(ex).__name__}: {ex}")
        return
    if "dt" in Weq.atoms():
        ctx.undecided("D3/T7-energy-limits", sc_W, None, construct=f"{short}:energy", detail="the strain-free part of the energy depends on dt")
        return
    if len(facs) < nb:
        ctx.undecided("D3/T7-energy-limits", sc_W, None, construct=f"{short}:energy-form",
                      detail=f"increment factor of {nb - len(facs)} branch(es) not established: the expected energy cannot be written down")
        return
    q = {b: _frob(Ts[b]) for b in range(nb)}
    # ---- D4: pairing of modulus and relaxation time per branch (roles from the values)
    rule = "D4/T5-property-slots"
    try:
        W0n = simplify(_A.norm(_A.subst(_A.norm(W.a), "dt", _A.const(0)) - Weq))
    except (ZeroDivisionError, NotPolynomial):
        W0n = None
    G_used = {}
    for b in range(nb):
        # coefficient of q_b in W(dt = 0) - W_eq: compare one monomial that occurs in q_b only
        g = None
        if W0n is not None:
            probe = next((a for x in Ts[b].data for a in sorted(x.a.atoms()) if is_strain(a)), None)
            if probe is not None:
                cq = _coeff2(q[b].a, probe)
                cw = _coeff2(W0n, probe)
                if cq is not None and cw is not None and not rat_is_zero(cq):
                    g = simplify(_A.norm(cw / cq))
        G_used[b] = g
        sfx = _suffix(taus[b], TAU_KEY)
        want = f"prop<{G_KEY}{sfx}>"
        got = _single_atom(g) if g is not None else None
        dup = [c for c in range(b) if taus.get(c) == taus[b]]
        ctx.decide(rule, None if g is None else (got == want and not dup), fac, None, construct=f"{short}:branch-{b}-slots",
                   detail=f"branch {b} stores energy with '{G_KEY}{sfx}' and relaxes with '{TAU_KEY}{sfx}'",
                   bad_detail=f"{short}: branch {b} relaxes with {taus[b]} but its instantaneous stiffness is {_short(g) if g is not None else '?'} (expected {want})"
                              + (f"; branch(es) {dup} use the same relaxation time" if dup else ""))
    Gs = {b: Dual(_A.atom(f"prop<{G_KEY}{_suffix(taus[b], TAU_KEY)}>")) for b in range(nb)}
    # ---- D2: dissipated energy
    rule = "D2/T8-dissipation-nonnegative"
    Dexp = Dual(0)
    Wexp = Dual(Weq)
    W0 = Dual(Weq)
    for b in range(nb):
        f, tau = Dual(facs[b]), Dual(_A.atom(taus[b]))
        Dexp = Dexp + Gs[b] * tau * f * f / dt * q[b]
        Wexp = Wexp + Gs[b] * ((Dual(1) - f) * (Dual(1) - f) + tau * f * f / dt) * q[b]
        W0 = W0 + Gs[b] * q[b]
    if Dis is None or not isinstance(Dis, Dual):
        ctx.undecided(rule, sc_D, None, construct=f"{short}:dissipated-energy", detail="the model reports no scalar dissipated energy (compute_material_qoi)")
    else:
        for b in range(nb):
            probe = next((a for x in Ts[b].data for a in sorted(x.a.atoms()) if is_strain(a)), None)
            cq, cd = _coeff2(q[b].a, probe), _coeff2(_A.norm(Dis.a), probe)
            c = simplify(_A.norm(cd / cq)) if cq is not None and cd is not None and not rat_is_zero(cq) else None
            want = simplify(_A.norm((Gs[b] * Dual(_A.atom(taus[b])) * Dual(facs[b]) * Dual(facs[b]) / dt).a))
            sgn = rat_sign(c, I.positive) if c is not None else None
            ok = None if c is None else (_A.equal(c, want) and sgn == 1)
            if c is not None and sgn in (-1, 0):
                ok = False
            ctx.decide(rule, ok, sc_D, None, construct=f"{short}:potential[{b}]=G*tau*|dev D|^2",
                       detail="dissipation of the branch = dt * G tau |dev(increment/dt)|^2: a positive multiple of a sum of squares",
                       bad_detail=f"{short}: the dissipated energy of branch {b} is ({_short(c) if c is not None else '?'}) * |dev E|^2 (sign {sgn}); "
                                  f"the dissipative part of the incremental potential is G*tau*(dt/(tau+dt))^2/dt * |dev E|^2 > 0")
        okd = _A.equal(Dis.a, Dexp.a)
        ctx.decide(rule, okd, sc_D, None, construct=f"{short}:dissipated-energy",
                   detail="dissipated energy = sum_b G_b tau_b f_b^2/dt |dev E_b|^2 >= 0 (each factor positive)",
                   bad_detail=f"{short}: reported dissipated energy is {_short(Dis.a)}; expected sum over branches of G*tau*(dt/(tau+dt))^2/dt*|dev E|^2")
    # ---- D3: energy form and limits
    rule = "D3/T7-energy-limits"
    oke = _A.equal(W.a, Wexp.a)
    ctx.decide(rule, oke, sc_W, None, construct=f"{short}:energy-form",
               detail="W = W_eq + sum_b G_b[(1-f_b)^2 + tau_b f_b^2/dt]|dev E_b|^2 with the same increment in stored energy and dissipation",
               bad_detail=f"{short}: energy is not W_eq + sum_b G_b[(1-f_b)^2 + tau_b f_b^2/dt]|dev E_b|^2 (difference {_short(simplify(_A.norm(W.a - Wexp.a)))}): stored energy, "
                          f"increment and dissipation do not use the same updated strain")
    if W0n is None:
        ctx.refuted(rule, sc_W, None, construct=f"{short}:dt->0-instantaneous", detail=f"{short}: the energy has no finite value at dt = 0")
    else:
        ok0 = _A.equal(_A.norm(W0n + Weq), W0.a)
        ctx.decide(rule, ok0, sc_W, None, construct=f"{short}:dt->0-instantaneous",
                   detail="W(dt = 0) = W_eq + sum_b G_b |dev E_b|^2 (all branches elastic)",
                   bad_detail=f"{short}: at dt = 0 the non-equilibrium energy is {_short(W0n)}, not the instantaneous value sum_b G_b|dev E_b|^2")
    try:
        li = limit_inf(Wneq, "dt")
    except _EXC:
        li = None
    oki = True if (isinstance(li, Rat) and rat_is_zero(li)) else (None if li is None else False)
    ctx.decide(rule, oki, sc_W, None, construct=f"{short}:dt->inf-equilibrium",
               detail="W - W_eq -> 0 as dt -> infinity",
               bad_detail=f"{short}: as dt -> infinity the non-equilibrium part of the energy tends to {li if li == 'inf' else _short(li)}, not 0")
    # ---- D4: public index constants against the property vector the kernels index
    slot_table(ctx, I, mod, short)


def _coeff2(r: Rat, atom):
    return _coeffk(r, atom, 2)


def _coeffk(r: Rat, atom, k):
    """coefficient of atom^k in r (a polynomial in atom; None if atom occurs in the denominator)"""
    r = _A.norm(r)
    if atom is None or atom in r.d.atoms():
        return None
    out = {}
    for m, c in r.n.t.items():
        dm = dict(m)
        if dm.get(atom, 0) == k:
            dm.pop(atom)
            mm = tuple(sorted(dm.items()))
            out[mm] = out.get(mm, 0) + c
    return simplify(Rat(Poly(out), r.d))


def _inv3(M):
    """exact inverse of a 3x3 matrix of Fractions (list of rows)"""
    c = lambda i, j: M[(i + 1) % 3][(j + 1) % 3] * M[(i + 2) % 3][(j + 2) % 3] - M[(i + 1) % 3][(j + 2) % 3] * M[(i + 2) % 3][(j + 1) % 3]
    d = sum(M[0][j] * c(0, j) for j in range(3))
    if d == 0:
        return None
    return [[c(j, i) / d for j in range(3)] for i in range(3)]


def _det_witness(I, exps, block: Arr, nb):
    """explicit admissible data for which det(new block) != det(old block) = 1, or None.
    The old distortions are unimodular; then either (a) the block is built from exponentials X and old distortions only -- every
    symmetric positive unimodular X is the exponential of some traceless increment, X = diag(2, 1/2, 1) -- or (b) it contains no
    exponential and does not read the displacement gradient directly: the trial strain (any symmetric tensor is the trial strain of
    some deformation), dt and the material constants are free."""
    atoms = set()
    for x in block.data:
        atoms |= set(x.a.atoms())
    xs = {a for (_, X) in exps for e in X.data for a in e.a.atoms()}
    ms = {a for (_, X, _) in I.spec_calls for e in X.data for a in e.a.atoms()} - xs
    has_x, has_m, has_h = bool(atoms & xs), bool(atoms & ms), any(a.startswith("h") and len(a) == 3 for a in atoms)
    if (has_x and (has_m or has_h)) or (has_m and has_h):
        return None
    sub = {}
    for k in range(9 * nb):
        i, j = divmod(k % 9, 3)
        sub[f"s{k}"] = Fraction(1 if (i == j or (i, j) == (0, 1)) else 0)
    sub["dt"] = Fraction(1, 2)

    def value(r):
        r = _A.norm(r)
        for a in sorted(r.atoms()):
            if a in sub:
                r = _A.subst(r, a, _A.const(sub[a]))
            elif a.startswith("prop<"):
                r = _A.subst(r, a, _A.const(1))
        return rat_const(r)
    shown = []
    for (kind, arg, sym, extra) in I.calls:
        names = [_single_atom(e.a) for e in sym.data]
        if kind == "x" or (kind == "m" and str(extra).startswith("exp[")):
            vals = [2, 0, 0, 0, Fraction(1, 2), 0, 0, 0, 1]
        elif kind == "m":
            vals = [Fraction(3, 10), Fraction(1, 10), 0, Fraction(1, 10), Fraction(-1, 10), Fraction(1, 20), 0, Fraction(1, 20), Fraction(-1, 5)]
        else:
            try:
                M = [[value(arg.data[i * 3 + j].a) for j in range(3)] for i in range(3)]
            except _EXC:
                M = None
            if M is None or any(v is None for row in M for v in row):
                continue
            Mi = _inv3(M)
            if Mi is None:
                continue
            vals = [Mi[i][j] for i in range(3) for j in range(3)]
        for nm, v in zip(names, vals):
            if nm:
                sub[nm] = Fraction(v)
    try:
        vals = [value(x.a) for x in block.data]
        if any(v is None for v in vals):
            return None
        d = rat_const(_det3(Arr([Dual(v) for v in vals], (3, 3))).a)
    except _EXC:
        return None
    if d is None or d == 1:
        return None
    if has_x:
        return (f"for expm(increment) = diag(2, 1/2, 1) (traceless increment) and the unimodular old distortion [[1,1,0],[0,1,0],[0,0,1]] "
                f"the new distortion has determinant {d}, not 1")
    return (f"for the unimodular old distortion [[1,1,0],[0,1,0],[0,0,1]], the trial strain [[3/10,1/10,0],[1/10,-1/10,1/20],[0,1/20,-1/5]], dt = 1/2 and unit "
            f"material constants the new distortion has determinant {d}, not 1 (no matrix exponential of a traceless increment is applied)")


def _orientation(I, H, Fv, T: Arr, b, is_strain):
    """+1 / -1 / None: is the relaxed increment T_b a positive multiple of dev(E_b), E_b an *increasing* isotropic function of the elastic
    Cauchy-Green tensor of branch b (F Fv_b^-1)?  (An increment of the opposite sign drives the branch away from equilibrium.)"""
    F = H.zip(Arr([Dual(1 if i == j else 0) for i in range(3) for j in range(3)], (3, 3)), lambda x, y: x + y)
    by_sym = {}
    for (arg, sym, fk) in I.spec_calls:
        by_sym[_single_atom(sym.data[1].a)] = (arg, sym, fk)

    def slope(fk_fn):
        """sign of g'(1) of the scalar function of a spectral call"""
        te.OPAQUE[0] = False
        try:
            r = I.num(I.call(fk_fn, [Dual(1, 1)], {}))
            c = rat_const(r.b)
            return None if c is None or c == 0 else (1 if c > 0 else -1)
        except _EXC:
            return None

    def affine_in_one_symbol(X: Arr):
        """X == c * M + c0 * 1 (or c * dev(M) + c0 1) for one spectral symbol M: (c, key of M)"""
        a01 = [a for a in X.data[1].a.atoms() if is_strain(a)]
        if len(a01) != 1 or a01[0] not in by_sym:
            return None
        c = _coeffk(X.data[1].a, a01[0], 1)
        if c is None or rat_is_zero(c):
            return None
        _, M, _ = by_sym[a01[0]]
        # off-diagonal entries must be c * M_ij
        for (i, j) in ((0, 1), (0, 2), (1, 2), (1, 0), (2, 0), (2, 1)):
            if not _A.equal(X.data[i * 3 + j].a, _A.norm(c * M.data[i * 3 + j].a)):
                return None
        # differences of diagonal entries as well (a multiple of the identity may be added or removed)
        for (i, j) in ((0, 1), (1, 2)):
            if not _A.equal(_A.norm(X.data[i * 4].a - X.data[j * 4].a), _A.norm(c * (M.data[i * 4].a - M.data[j * 4].a))):
                return None
        return c, a01[0]

    def orient(X: Arr, depth=0):
        if depth > 4:
            return None
        for (varg, V, _) in I.inv_calls:
            if _arr_equal(varg, Fv[b]):
                Fe = matmul(F, V)
                if _arr_equal(X, matmul(Fe.T(), Fe)) or _arr_equal(X, matmul(Fe, Fe.T())):
                    return 1
        hit = affine_in_one_symbol(X)
        if hit is None:
            return None
        c, key = hit
        sg = rat_sign(c, I.positive)
        arg, _, _ = by_sym[key]
        fn = I.spec_fns.get(key)
        sl = slope(fn) if fn is not None else None
        o = orient(arg, depth + 1)
        if sg in (1, -1) and sl is not None and o is not None:
            return sg * sl * o
        return None
    try:
        return orient(T)
    except _EXC:
        return None
    finally:
        te.OPAQUE[0] = False


def _scope_of_field(ctx, model, field, default):
    try:
        f = model.get(field)
    except (ValueError, KeyError):
        return default
    sc = getattr(f, "scope", None)
    if sc is None:
        return default
    while sc is not None and sc.kind not in ("function",):
        sc = sc.parent
    return sc or default


PROP_NAMES = {"PROPS_K_eq": "equilibrium bulk modulus", "PROPS_G_eq": "equilibrium shear modulus", "PROPS_G_neq": G_KEY, "PROPS_TAU": TAU_KEY}


def slot_table(ctx, I, mod, short):
    """module constants PROPS_<NAME>[_k] (public) must address '<key>[ k]' in the vector of material constants the kernels index"""
    rule = "D4/T5-property-slots"
    if len(I.prop_vectors) != 1:
        ctx.undecided(rule, mod.scope, None, construct=f"{short}:property-vector",
                      detail=f"{len(I.prop_vectors)} vectors of material constants are indexed by the kernels (one expected)")
        return
    vec = I.prop_vectors[0]
    n = 0
    for name in sorted(mod.scope.bindings):
        m = re.fullmatch(r"(PROPS_[A-Za-z]+(?:_[A-Za-z]+)*?)(?:_(\d+))?", name)
        if m is None or m.group(1) not in PROP_NAMES:
            continue
        key = PROP_NAMES[m.group(1)] + (f" {m.group(2)}" if m.group(2) else "")
        try:
            idx = I.as_int(I.module_value(mod, name))
            got = vec.data[idx].a
            ok = _A.equal(got, _A.atom(f"prop<{key}>"))
        except _EXC as ex:
            ctx.undecided(rule, mod.scope, None, construct=f"{short}:{name}", detail=str(ex))
            continue
        n += 1
        ctx.decide(rule, ok, mod.scope, None, construct=f"{short}:{name}", detail=f"props[{name}={idx}] is '{key}'",
                   bad_detail=f"{short}: props[{name}={idx}] holds {got!r}, not '{key}' (index constant and order of the property vector disagree)")


_UPDATE_FN = ("def _compute_state_new(dispGrad, stateOld, dt, props):\n    Ee_trial = _compute_elastic_logarithmic_strain(dispGrad, stateOld)\n"
              "    delta_Ev = _compute_state_increment(Ee_trial, dt, props)\n\n    Fv_old = stateOld.reshape((3, 3))\n"
              "    Fv_new = linalg.expm(delta_Ev)@Fv_old\n    return Fv_new.ravel()\n")
_UPDATE_CLASS = ("class _Step:\n    def __init__(self, dispGrad, stateOld, dt, props):\n        self.Fv_old = stateOld.reshape((3, 3))\n"
                 "        Ee_trial = _compute_elastic_logarithmic_strain(dispGrad, stateOld)\n"
                 "        self.delta_Ev = _compute_state_increment(Ee_trial, dt, props)\n\n    @property\n    def Fv_new(self):\n"
                 "        return linalg.expm(@SIGN@self.delta_Ev)@self.Fv_old\n\n    def packed(self):\n        return self.Fv_new.ravel()\n\n"
                 "def _compute_state_new(dispGrad, stateOld, dt, props):\n    return _Step(dispGrad, stateOld, dt, props).packed()\n")


def variants(repo):
    from optilint.selftest import Variant, sub, sub_in_func, alpha_rename, reformat
    V = "optimism/material/HyperViscoelastic.py"
    MB = "optimism/material/MultiBranchHyperViscoelastic.py"
    return [
        Variant("dissipation not multiplied by dt", V, sub_in_func("_energy_density", "    return W_eq + W_neq + dt * Psi", "    return W_eq + W_neq + Psi"), "D3/T8-dimensional-homogeneity"),
        Variant("viscosity without relaxation time", V, sub_in_func("_dissipation_potential", "    eta   = G_neq * tau", "    eta   = G_neq"), "D3/T8-dimensional-homogeneity"),
        Variant("rate divided by dt twice", V, sub_in_func("_energy_density", "    Dv = delta_Ev / dt", "    Dv = delta_Ev / dt / dt"), "D3/T8-dimensional-homogeneity"),
        Variant("increment not deviatoric", V, sub_in_func("_compute_state_increment", "    Ee_dev = TensorMath.dev(elasticStrain)", "    Ee_dev = elasticStrain"), "D1/T9-traceless-increment"),
        Variant("factor 1/(1+tau/dt)", V, sub_in_func("_compute_state_increment", "integration_factor = 1. / (1. + dt / tau)", "integration_factor = 1. / (1. + tau / dt)"), "D3/T7-update-factor"),
        Variant("dissipation with minus sign", V, sub_in_func("_dissipation_potential", "    return eta * TensorMath.norm_of_deviator_squared(Dv)", "    return -eta * TensorMath.norm_of_deviator_squared(Dv)"), "D2/T8-dissipation-nonnegative"),
        Variant("dissipated energy without dt", V, sub_in_func("_compute_dissipated_energy", "    return dt * _dissipation_potential(Dv, props)", "    return _dissipation_potential(Dv, props)"), "D2/T8-dissipation-nonnegative"),
        Variant("energy at trial strain (multi)", MB, sub_in_func("_energy_density", "_neq_strain_energy(Ee, props, _return_Gneq_id_for_branch(n))", "_neq_strain_energy(Ee_trial, props, _return_Gneq_id_for_branch(n))"), "D3/T7-energy-limits"),
        Variant("energy at trial strain (single)", V, sub_in_func("_energy_density", "    W_neq = _neq_strain_energy(Ee, props)", "    W_neq = _neq_strain_energy(Ee_trial, props)"), "D3/T7-energy-limits"),
        Variant("branch 2 reads branch 1 relaxation time", MB, sub_in_func("_compute_state_increment", "    tau   = props[prop_id + 1]", "    tau   = props[PROPS_TAU_1]"), "D4/T5-property-slots"),
        Variant("branch index map", MB, sub("    return PROPS_G_neq_1 + 2 * n", "    return PROPS_G_neq_1 + n"), "D4/T5-property-slots"),
        Variant("property order swapped", MB, sub("        properties['non equilibrium shear modulus 2'],\n        properties['relaxation time 2'],", "        properties['relaxation time 2'],\n        properties['non equilibrium shear modulus 2'],"), "D4/T5-property-slots"),
        Variant("state update uses wrong branch distortion", MB, sub_in_func("_compute_state_new", "      Fv_old = state_temp.reshape((3, 3))", "      Fv_old = _return_state_for_branch(stateOld, 0).reshape((3, 3))"), "D1/T5-distortion-update"),
        Variant("state update symmetrised", V, sub_in_func("_compute_state_new", "    Fv_new = linalg.expm(delta_Ev)@Fv_old", "    Fv_new = TensorMath.sym(linalg.expm(delta_Ev)@Fv_old)"), "D1/T5-distortion-update"),
        Variant("trial strain of branch 0 everywhere in the update", MB, sub_in_func("_compute_state_new", "      Ee_trial = _compute_elastic_logarithmic_strain(dispGrad, state_temp)", "      Ee_trial = _compute_elastic_logarithmic_strain(dispGrad, _return_state_for_branch(stateOld, 0))"), "D1/T5-distortion-update"),
        Variant("increment factor squared", V, sub_in_func("_compute_state_increment", "    return dt * integration_factor * Ee_dev / tau", "    return dt * integration_factor * integration_factor * Ee_dev / tau"), "D3/T7-update-factor"),
        Variant("stored energy with the wrong branch modulus", MB, sub_in_func("_neq_strain_energy", "    G_neq = props[prop_id]", "    G_neq = props[PROPS_G_neq_1]"), "D4/T5-property-slots"),
        Variant("left Cauchy-Green", V, sub("TensorMath.log_sqrt_symm(Fe_trial.T @ Fe_trial)", "TensorMath.log_sqrt_symm(Fe_trial @ Fe_trial.T)"), "D1/T9-frames"),
        Variant("reformat single", V, reformat(), None),
        Variant("reformat multi", MB, reformat(), None),
        Variant("equivalent factor", V, sub_in_func("_compute_state_increment", "integration_factor = 1. / (1. + dt / tau)", "integration_factor = tau / (tau + dt)"), None),
        Variant("increment written as dt/(tau+dt)", V, sub_in_func("_compute_state_increment", "    return dt * integration_factor * Ee_dev / tau", "    return (dt / (tau + dt)) * Ee_dev"), None),
        Variant("strain via log_symm", V, sub("TensorMath.log_sqrt_symm(Fe_trial.T @ Fe_trial)", "0.5 * TensorMath.log_symm(Fe_trial.T @ Fe_trial)"), None),
        Variant("inverse via TensorMath", MB, sub("Fe_trial = F @ np.linalg.inv(Fv_old)", "Fe_trial = F @ TensorMath.inv(Fv_old)"), None),
        Variant("strain as log of the square root", V, sub("TensorMath.log_sqrt_symm(Fe_trial.T @ Fe_trial)", "TensorMath.log_symm(TensorMath.sqrt_symm(Fe_trial.T @ Fe_trial))"), None),
        Variant("symmetric exponential in the update", MB, sub_in_func("_compute_state_new", "linalg.expm(delta_Ev)@Fv_old", "TensorMath.exp_symm(delta_Ev)@Fv_old"), None),
        Variant("branch state by np.split", MB, sub("    return state.at[n * VISCOUS_DISTORTION_SIZE : (n + 1) * VISCOUS_DISTORTION_SIZE].get()", "    return np.split(state, NUM_PRONY_TERMS)[n]"), None),
        Variant("property vector from a comprehension", MB, sub("    props = np.array([\n        properties['equilibrium bulk modulus'],\n        properties['equilibrium shear modulus'],\n        properties['non equilibrium shear modulus 1'],\n        properties['relaxation time 1'],\n        properties['non equilibrium shear modulus 2'],\n        properties['relaxation time 2'],\n        properties['non equilibrium shear modulus 3'],\n        properties['relaxation time 3']\n    ])\n",
                "    branch = [properties[f'{key} {n + 1}'] for n in range(NUM_PRONY_TERMS) for key in ('non equilibrium shear modulus', 'relaxation time')]\n    props = np.array([properties['equilibrium bulk modulus'], properties['equilibrium shear modulus']] + branch)\n"), None),
        Variant("exponential of the wrong sign", V, sub_in_func("_compute_state_new", "linalg.expm(delta_Ev)@Fv_old", "linalg.expm(-delta_Ev)@Fv_old"), "D3/T7-update-factor"),
        Variant("update without the exponential map", V, sub_in_func("_compute_state_new", "linalg.expm(delta_Ev)@Fv_old", "(np.identity(3) + delta_Ev)@Fv_old"), "D1/T5-distortion-update"),
        Variant("state update in a private helper class", V, sub(_UPDATE_FN, _UPDATE_CLASS.replace("@SIGN@", "")), None),
        Variant("helper class: exponential of the wrong sign in a property", V, sub(_UPDATE_FN, _UPDATE_CLASS.replace("@SIGN@", "-")), "D3/T7-update-factor"),
        Variant("optional deformation gradient threaded through the strain helper", MB, sub(
                "def _compute_elastic_logarithmic_strain(dispGrad, stateOld):\n    F = dispGrad + np.identity(3)\n",
                "def _compute_elastic_logarithmic_strain(dispGrad, stateOld, F=None):\n    if F is None:\n        F = dispGrad + np.identity(3)\n"), None),
        Variant("branch loop unrolled into a comprehension", MB, sub_in_func("_compute_dissipated_energy",
                "    Psi = 0.0\n    for n in range(NUM_PRONY_TERMS):\n      state_temp = _return_state_for_branch(state, n)\n      Ee_trial = _compute_elastic_logarithmic_strain(dispGrad, state_temp)\n      delta_Ev = _compute_state_increment(Ee_trial, dt, props, _return_Gneq_id_for_branch(n))\n      Dv = delta_Ev / dt\n      Psi = Psi + dt * _dissipation_potential(Dv, props, _return_Gneq_id_for_branch(n))\n\n    return Psi",
                "    def one(n):\n      Ee_trial = _compute_elastic_logarithmic_strain(dispGrad, _return_state_for_branch(state, n))\n      pid = _return_Gneq_id_for_branch(n)\n      return dt * _dissipation_potential(_compute_state_increment(Ee_trial, dt, props, pid) / dt, props, pid)\n    return sum([one(n) for n in range(NUM_PRONY_TERMS)])"), None),
    ]
