"""Symbolic execution of small numerical drivers with decision-tree merges (engine used by the C05 rules).

A function body is executed on *terms*:

  * numbers are exact polynomials (optilint.expr.Poly) over atoms; an atom is any non-polynomial term (an input symbol,
    an opaque call `f(args)`, a quotient, `min`/`max`, a box projection `clamp(v, lo, hi)`, a dot product, a loop
    variable ...).  Terms are hash-consed: two values are the same term iff their keys are equal, whatever local
    names, temporaries, helper functions, keyword/positional call style or def/lambda spelling produced them;
  * repository functions, nested defs and lambdas are *inlined* (closures see the enclosing frame's current
    variables, like Python's late binding; default values `lambda d, x=x: ...` and `functools.partial(f, a, b)` freeze their
    values where the function value is made); callees in the `opaque` set, parameters used as functions and external
    functions stay opaque call terms -- the application of a deliberately opaque repository function (a sub-solver) is ONE
    unknown, its argument trees are not pushed outside; a call that could not be inlined because of a limit of this executor
    (unbindable arguments, recursion, depth) is an application of `unk`: a value that is NOT understood;
  * records (namedtuples, `_replace`, a NamedTuple read as a tuple), tuples with constant indices / slices, dict displays
    used for dispatch (`{True: f, False: g}[flag]`, `.get`), `(a, b)[flag]`, plain classes (instances are objects with
    attribute cells; methods and `__call__` are inlined with `self` bound), `setattr` / `getattr` with literal names,
    `np.where` as min / max / clamp, `np.clip` (also `x.clip`, `*bounds.T`, constant limits = scalar cap), `.T` /
    `[..., k]` columns, `sum(v*v)` as `v@v`, bracketing root finders (`brentq` ...: some scalar of the bracket) are modelled;
    methods of array values without a model are `unk` applications;
  * `if` merges build `ite(cond, a, b)` decision trees (a negated test swaps the branches, an early `return`/`raise`
    simply adds the test to the path condition of what follows), arithmetic distributes over the trees, the
    path condition of every event is recorded;
  * loops are solved by induction: the value of a loop-carried variable at the loop head is generalised from its
    initial value and its back-edge value to (i) the same term, (ii) K + phiF where phiF is "some point of the box"
    when every case is K + a convex combination of box points, (iii) a relational invariant `init[u := head(u)]`
    (e.g. o == objective.value(x)) that is then verified inductively, or (iv) an opaque per-iteration unknown phi.
    The body is re-executed until the head values are stable; only the events of the last pass are kept (plus, per loop, the
    events of the first pass, which ran on the exact initial values).  A carried variable that holds a record / tuple is carried
    component by component (virtual variables `state.z`, `carry[0]`, also as assign events).  After the loop the normal exit
    (for a `for` loop with breaks under the unknown condition `exhausted`; the `else:` block runs only there) is merged with the
    `break` exits.
  * `understood(t)`: no part of t is a value without a model (`unk`, external library results, comprehensions, in-place
    updates, globals ...).  The rules may call something REFUTED only on understood terms without loop-carried unknowns.

Nothing of the analysed library is imported or run; the executor only rewrites syntax trees into terms.
"""
from __future__ import annotations

import ast
from fractions import Fraction

from optilint.expr import Poly
from optilint.model import dotted, FuncVal, ExtVal, ModVal, NamedTupleVal, ClassVal, walk_local, norm_src

INF = float("inf")


# ====================================================================== terms

class T:
    __slots__ = ("k", "a", "key")

    def __init__(self, k, a, key):
        self.k, self.a, self.key = k, a, key

    def __repr__(self):
        return show(self)


_REG = {}        # signature -> T
_BYKEY = {}      # key -> T


def _sig(x):
    if isinstance(x, T):
        return x.key
    if isinstance(x, Poly):
        return "P" + repr(sorted(x.t.items()))
    if isinstance(x, (tuple, list)):
        return "(" + ",".join(_sig(y) for y in x) + ")"
    return repr(x)


def mk(k, *a):
    sig = k + "|" + "|".join(_sig(x) for x in a)
    t = _REG.get(sig)
    if t is None:
        t = T(k, tuple(a), f"{k}#{len(_REG)}")
        _REG[sig] = t
        _BYKEY[t.key] = t
    return t


BOOL_KINDS = ("cmp", "not", "and", "or", "truth", "bt")
F_KINDS = ("clamp", "phiF", "feas")


def num(p: Poly) -> T:
    """Polynomial -> term; a bare atom stays that atom."""
    if len(p.t) == 1:
        (m, c), = p.t.items()
        if c == 1 and len(m) == 1 and m[0][1] == 1:
            return _BYKEY[m[0][0]]
    return mk("num", p)


def const(v) -> T:
    if isinstance(v, bool) or v is None or isinstance(v, str) or v is Ellipsis:
        return mk("const", v)
    if isinstance(v, int):
        return mk("num", Poly.const(v))
    if isinstance(v, float):
        if v != v or v in (INF, -INF):
            return mk("const", repr(v))
        return mk("num", Poly.const(Fraction(repr(v))))
    if isinstance(v, Fraction):
        return mk("num", Poly.const(v))
    return mk("const", repr(v))


TRUE, FALSE, NONE = const(True), const(False), const(None)
UNBOUND = mk("unbound")


def is_num(t):
    return t.k == "num" or t.k not in ("const", "tup", "fn", "rec", "ntctor", "ite", "unbound", "list", "slice", "partial", "dict", "cls", "obj", "bound") + BOOL_KINDS


def poly(t) -> Poly:
    if t.k == "num":
        return t.a[0]
    return Poly.atom(t.key)


def const_of(t):
    """Fraction value of a constant number, else None."""
    if t.k == "num" and t.a[0].is_const():
        return t.a[0].const_value()
    if t.k == "const" and isinstance(t.a[0], bool):
        return Fraction(int(t.a[0]))
    return None


def atoms_of(t, acc=None, deep=True):
    """Keys of all atoms (recursively through arguments) occurring in t."""
    acc = set() if acc is None else acc
    if t.key in acc:
        return acc
    if t.k == "num":
        for k in t.a[0].atoms():
            atoms_of(_BYKEY[k], acc, deep)
        return acc
    acc.add(t.key)
    if deep:
        for x in t.a:
            _atoms_arg(x, acc)
    return acc


def _atoms_arg(x, acc):
    if isinstance(x, T):
        atoms_of(x, acc)
    elif isinstance(x, (tuple, list)):
        for y in x:
            _atoms_arg(y, acc)


def mentions(t, pred) -> bool:
    return any(pred(_BYKEY[k]) for k in atoms_of(t))


def term(key) -> T:
    return _BYKEY[key]


# ---------------------------------------------------------------------- decision trees

def leaves(v, conds=()):
    """[(conds, leaf)] of an ite tree; conds = ((cond term, polarity), ...)."""
    if v.k != "ite":
        return [(conds, v)]
    c, a, b = v.a
    return leaves(a, conds + ((c, True),)) + leaves(b, conds + ((c, False),))


def n_leaves(v):
    return 1 if v.k != "ite" else n_leaves(v.a[1]) + n_leaves(v.a[2])


def restrict(v, c, pol):
    """v under the knowledge that condition c evaluates to pol."""
    if v.k != "ite":
        return v
    if c.k == "not":
        return restrict(v, c.a[0], not pol)
    if c.k == "ite":
        c = mk("bt", c)
    v = _restrict1(v, c.key, pol)
    if c.k == "and" and pol:
        for x in c.a[0]:
            v = restrict(v, x, True)
    elif c.k == "or" and not pol:
        for x in c.a[0]:
            v = restrict(v, x, False)
    return v


def _restrict1(v, ckey, pol):
    if v.k != "ite":
        return v
    c, a, b = v.a
    if c.key == ckey:
        return _restrict1(a if pol else b, ckey, pol)
    a2, b2 = _restrict1(a, ckey, pol), _restrict1(b, ckey, pol)
    if a2 is a and b2 is b:
        return v
    return ite(c, a2, b2)


MAX_LEAVES = 128


def ite(c, a, b):
    if c.k == "const":
        return a if c.a[0] else b
    cv = const_of(c)
    if cv is not None:
        return a if cv != 0 else b
    if c.k == "not":
        return ite(c.a[0], b, a)
    if c.k == "ite":
        c = mk("bt", c)          # a tree-valued condition is kept as one atomic test (opened again by flatten / pc_scenarios)
    a = restrict(a, c, True)
    b = restrict(b, c, False)
    if a.key == b.key:
        return a
    if a is TRUE and b is FALSE and c.k in BOOL_KINDS:
        return c
    if a is FALSE and b is TRUE and c.k in BOOL_KINDS:
        return not_(c)
    r = mk("ite", c, a, b)
    if n_leaves(r) > MAX_LEAVES:
        return mk("unk", "too many cases", r.key)
    return r


def lift(f, *vs):
    """Apply f to the leaves of the decision trees vs (shared conditions are split once)."""
    for i, v in enumerate(vs):
        if v.k == "ite":
            c, a, b = v.a
            va = [restrict(x, c, True) for x in vs]
            vb = [restrict(x, c, False) for x in vs]
            va[i], vb[i] = a, b
            return ite(c, lift(f, *va), lift(f, *vb))
    return f(*vs)


def same(u, v) -> bool:
    if u.key == v.key:
        return True
    if u.k != "ite" and v.k != "ite":
        return False
    r = lift(lambda x, y: TRUE if x.key == y.key else FALSE, u, v)
    return r is TRUE


# ---------------------------------------------------------------------- arithmetic

def _arith(op, x, y):
    if not (is_num(x) and is_num(y)):
        cx, cy = x, y
        if op == "add" and cx.k == "const" and cy.k == "const" and isinstance(cx.a[0], str) and isinstance(cy.a[0], str):
            return const(cx.a[0] + cy.a[0])
        return mk("bin", op, x, y)
    if op == "add":
        return num(poly(x) + poly(y))
    if op == "sub":
        return num(poly(x) - poly(y))
    if op == "mul":
        return num(poly(x) * poly(y))
    raise ValueError(op)


def add(x, y):
    return lift(lambda a, b: _arith("add", a, b), x, y)


def sub(x, y):
    return lift(lambda a, b: _arith("sub", a, b), x, y)


def mul(x, y):
    return lift(lambda a, b: _arith("mul", a, b), x, y)


def neg(x):
    return sub(const(0), x)


def div(x, y):
    def f(a, b):
        cb = const_of(b)
        if cb is not None and cb != 0 and is_num(a):
            return num(poly(a) * Poly.const(1 / cb))
        if a.key == b.key:
            return mk("div", a, b)      # 0/0, NaN: not simplified
        return mk("div", a, b)
    return lift(f, x, y)


def power(x, y):
    def f(a, b):
        cb = const_of(b)
        if cb is not None and cb.denominator == 1 and 0 <= cb <= 6 and is_num(a):
            return num(poly(a).pow(int(cb)))
        if cb is not None and cb == Fraction(1, 2):
            return sqrt_(a)
        return mk("pow", a, b)
    return lift(f, x, y)


def dot(x, y):
    def f(a, b):
        # pull rational factors out of single-monomial operands; order the operands canonically (vector inner product)
        fac = Fraction(1)
        out = []
        if (a.k == "num" and a.a[0].is_zero()) or (b.k == "num" and b.a[0].is_zero()):
            return const(0)          # the zero vector
        for v in (a, b):
            if v.k == "num" and len(v.a[0].t) == 1:
                (m, c), = v.a[0].t.items()
                if m:
                    fac *= c
                    v = num(Poly({m: Fraction(1)}))
            out.append(v)
        u, w = sorted(out, key=lambda t: t.key)
        if u.key == w.key:
            u = w = _abs_sign(u)
        elif is_num(u) and is_num(w) and (poly(u) + poly(w)).is_zero():
            u = w = _abs_sign(u)
            fac = -fac
        return mul(const(fac), mk("dot", u, w)) if fac != 1 else mk("dot", u, w)
    return lift(f, x, y)


def min_(x, y):
    def f(a, b):
        ca, cb = const_of(a), const_of(b)
        if ca is not None and cb is not None:
            return a if ca <= cb else b
        if a.key == b.key:
            return a
        return mk("min", tuple(sorted((a, b), key=lambda t: t.key)))
    return lift(f, x, y)


def max_(x, y):
    def f(a, b):
        ca, cb = const_of(a), const_of(b)
        if ca is not None and cb is not None:
            return a if ca >= cb else b
        if a.key == b.key:
            return a
        # max(lo, min(v, hi)) == clamp(v, lo, hi)
        for (p, q) in ((a, b), (b, a)):
            if q.k == "min":
                m1, m2 = q.a[0]
                lo = p
                cands = []
                for (v, hi) in ((m1, m2), (m2, m1)):
                    cands.append((v, hi))
                pick = _pick_clamp(lo, cands)
                if pick is not None:
                    return mk("clamp", pick[0], lo, pick[1])
        return mk("max", tuple(sorted((a, b), key=lambda t: t.key)))
    return lift(f, x, y)


def _bound_like(t, other=None):
    """Does t look like a bound of a box (a column / row / attribute of some container, or an input that is not the clamped value)?"""
    return t.k in ("col", "sub", "item", "attr")


def _pick_clamp(fixed, cands):
    """Among (value, bound) assignments of the inner min/max pick the one whose bound is taken from the same container as `fixed`."""
    def root(t):
        return t.a[0].key if t.k in ("col", "sub", "item", "attr") and isinstance(t.a[0], T) else None
    good = [(v, b) for (v, b) in cands if root(b) is not None and root(b) == root(fixed)]
    if len(good) == 1:
        return good[0]
    if len(good) == 2:
        # both operands of the inner min come from the bounds container: ambiguous
        return None
    good = [(v, b) for (v, b) in cands if _bound_like(b) and not _bound_like(v)]
    if len(good) == 1:
        return good[0]
    return None


def min_of_max(x, y):
    """min(hi, max(v, lo)) == clamp(v, lo, hi) when lo <= hi (property assumption)."""
    def f(a, b):
        for (p, q) in ((a, b), (b, a)):
            if q.k == "max":
                m1, m2 = q.a[0]
                pick = _pick_clamp(p, [(m1, m2), (m2, m1)])
                if pick is not None:
                    return mk("clamp", pick[0], pick[1], p)
        return None
    return f(x, y)


def minimum(x, y):
    def f(a, b):
        if a.k != "ite" and b.k != "ite":
            r = min_of_max(a, b)
            if r is not None:
                return r
        return min_(a, b)
    return lift(f, x, y)


def clamp(v, lo, hi):
    return lift(lambda a, b, c: mk("clamp", a, b, c), v, lo, hi)


def inf_sign(t):
    """+1 / -1 when t is +inf / -inf (numpy.inf, math.inf, float('inf'), their negatives), else None"""
    if t.k == "const" and t.a[0] in ("inf", "+inf", "Infinity"):
        return 1
    if t.k == "const" and t.a[0] in ("-inf", "-Infinity"):
        return -1
    if t.k == "ext" and t.a[0].split(".")[-1] in ("inf", "Inf", "infty", "Infinity", "PINF"):
        return 1
    if t.k == "ext" and t.a[0].split(".")[-1] == "NINF":
        return -1
    if t.k == "num" and len(t.a[0].t) == 1:
        (m, c), = t.a[0].t.items()
        if len(m) == 1 and m[0][1] == 1 and c in (1, -1):
            s0 = inf_sign(_BYKEY[m[0][0]])
            return None if s0 is None else s0 * int(c)
    return None


def _free_bound(t):
    """an absent or constant limit of a clip (None, a number, +-inf): the clip is then a scalar cap, not a projection onto a box of the program"""
    return t is NONE or const_of(t) is not None or inf_sign(t) is not None


def clip_(v, lo, hi):
    """numpy.clip: a box projection clamp(v, lo, hi); with an absent / constant limit a cap min / max"""
    def f(a, l, h):
        if _free_bound(l) or _free_bound(h):
            r = a
            if h is not NONE and inf_sign(h) != 1:
                r = min_(r, h)
            if l is not NONE and inf_sign(l) != -1:
                r = max_(l, r)
            return r
        return mk("clamp", a, l, h)
    return lift(f, v, lo, hi)


def sqrt_(x):
    def f(a):
        if a.k == "dot" and a.a[0].key == a.a[1].key:
            return mk("norm", _abs_sign(a.a[0]))
        return mk("sqrt", a)
    return lift(f, x)


def _abs_sign(a):
    """canonical representative of {a, -a}: the first monomial (in key order) gets a positive coefficient"""
    if a.k == "num" and a.a[0].t:
        m0 = sorted(a.a[0].t.items(), key=lambda x: repr(x[0]))[0]
        if m0[1] < 0:
            return num(-a.a[0])
    return a


def norm_(x):
    return lift(lambda a: mk("norm", _abs_sign(a)), x)


def col(base, k):
    def f(b):
        if b.k == "colstack" and isinstance(k, int) and 0 <= k < len(b.a[0]):
            return b.a[0][k]
        if b.k == "transposed" and b.a[0].k == "rowstack" and isinstance(k, int) and 0 <= k < len(b.a[0].a[0]):
            return b.a[0].a[0][k]
        return mk("col", b, k)
    return lift(f, base)


def item(base, i):
    def f(b):
        if b.k in ("tup", "list") and isinstance(i, int) and -len(b.a[0]) <= i < len(b.a[0]):
            return b.a[0][i]
        if b.k == "rec" and isinstance(i, int) and -len(b.a[1]) <= i < len(b.a[1]):
            return b.a[1][i][1]             # a NamedTuple is a tuple of its fields
        if b.k == "transposed" and isinstance(i, int):
            return col(b.a[0], i)           # row i of A.T is column i of A
        if b.k == "rowstack" and isinstance(i, int) and 0 <= i < len(b.a[0]):
            return b.a[0][i]
        return mk("item", b, i)
    return lift(f, base)


# ---------------------------------------------------------------------- booleans

def truth(v):
    def f(a):
        if a.k in BOOL_KINDS:
            return a
        if a.k == "const":
            return TRUE if a.a[0] else FALSE
        c = const_of(a)
        if c is not None:
            return TRUE if c != 0 else FALSE
        if a.k in ("tup", "list"):
            return TRUE if a.a[0] else FALSE
        if a.k in ("fn", "partial", "cls", "bound"):
            return TRUE
        return mk("truth", a)
    return lift(f, v)


def _boolish(v):
    return all(l.k in BOOL_KINDS or (l.k == "const" and isinstance(l.a[0], bool)) for (_, l) in leaves(v))


def _negated(c):
    """a negation, or a decision tree all of whose cases are negations"""
    if c.k == "not":
        return True
    if c.k == "ite":
        ls = [l for (_, l) in leaves(c)]
        return all(l.k in ("not", "const") for l in ls) and any(l.k == "not" for l in ls)
    return False


def _atomic(c):
    return mk("bt", c) if c.k == "ite" else c


def _operands(cs):
    """Tree-valued operands of a connective are distributed (shared conditions are split once) while that stays small,
    otherwise kept as atomic tests."""
    conds = set()
    for c in cs:
        for (cc, _) in leaves(c):
            conds.update(x.key for (x, _) in cc)
    if len(conds) <= 5:
        return cs
    return [_atomic(c) for c in cs]


def not_(c):
    def f(a):
        if a is TRUE:
            return FALSE
        if a is FALSE:
            return TRUE
        if a.k == "not":
            return a.a[0]
        return mk("not", a)
    return lift(f, truth(c))


def and_(cs):
    def f(*xs):
        out = []
        for x in xs:
            if x is FALSE:
                return FALSE
            if x is TRUE:
                continue
            if x.k == "and":
                out.extend(x.a[0])
            else:
                out.append(x)
        seen, res = set(), []
        for x in out:
            if x.key not in seen:
                seen.add(x.key)
                res.append(x)
        if not res:
            return TRUE
        if len(res) == 1:
            return res[0]
        return mk("and", tuple(res))
    cs = _operands([truth(c) for c in cs])
    return lift(f, *cs) if cs else TRUE


def or_(cs):
    def f(*xs):
        out = []
        for x in xs:
            if x is TRUE:
                return TRUE
            if x is FALSE:
                continue
            if x.k == "or":
                out.extend(x.a[0])
            else:
                out.append(x)
        seen, res = set(), []
        for x in out:
            if x.key not in seen:
                seen.add(x.key)
                res.append(x)
        if not res:
            return FALSE
        if len(res) == 1:
            return res[0]
        return mk("or", tuple(res))
    cs = _operands([truth(c) for c in cs])
    return lift(f, *cs) if cs else FALSE


_CMP = {ast.Lt: "lt", ast.LtE: "le", ast.Gt: "gt", ast.GtE: "ge", ast.Eq: "eq", ast.NotEq: "ne", ast.Is: "is", ast.IsNot: "isnot",
        ast.In: "in", ast.NotIn: "notin"}


def cmp_(op, x, y):
    def f(a, b):
        o = op
        if o == "gt":
            o, a, b = "lt", b, a
        elif o == "ge":
            o, a, b = "le", b, a
        ca, cb = const_of(a), const_of(b)
        if ca is not None and cb is not None and a.k == "num" and b.k == "num":
            return const({"lt": ca < cb, "le": ca <= cb, "eq": ca == cb, "ne": ca != cb}.get(o, False)) if o in ("lt", "le", "eq", "ne") else mk("cmp", o, a, b)
        if a.k == "const" and b.k == "const" and o in ("eq", "ne", "is", "isnot"):
            r = a.a[0] == b.a[0]
            return const(r if o in ("eq", "is") else not r)
        if o in ("eq", "ne") and (a is NONE or b is NONE):
            o = "is" if o == "eq" else "isnot"
        if o == "isnot":
            return not_(mk("cmp", "is", *sorted((a, b), key=lambda t: t.key)))
        if o == "ne":
            return not_(mk("cmp", "eq", *sorted((a, b), key=lambda t: t.key)))
        if o in ("eq", "is"):
            a, b = sorted((a, b), key=lambda t: t.key)
        return mk("cmp", o, a, b)
    return lift(f, x, y)


def flatten(c, pol=True):
    """[(atomic condition, polarity)] that all hold when c evaluates to pol (and-true / or-false / not are opened)."""
    if c.k == "not":
        return flatten(c.a[0], not pol)
    if c.k == "and" and pol:
        return [x for v in c.a[0] for x in flatten(v, True)]
    if c.k == "or" and not pol:
        return [x for v in c.a[0] for x in flatten(v, False)]
    return [(c, pol)]


def _consistent(lits):
    seen = {}
    for (a, p) in lits:
        if seen.get(a.key, p) != p:
            return False
        seen[a.key] = p
    return True


def alternatives(c, pol=True, limit=64):
    """Ways in which condition c can evaluate to pol: a list of literal lists [(atomic condition, polarity)], tree-valued parts opened,
    and-true / or-false / not opened; a disjunction that must hold stays one literal."""
    if c.k == "const":
        return [[]] if bool(c.a[0]) == pol else []
    if c.k == "not":
        return alternatives(c.a[0], not pol, limit)
    if c.k == "bt" or c.k == "ite":
        tree = c.a[0] if c.k == "bt" else c
        out = []
        # the tree-valued test itself is a literal of every scenario it opens into (values that were split on it are then
        # restricted by it)
        own = [(mk("bt", tree), pol)]
        for (conds, leaf) in leaves(tree):
            pre = [list(own)]
            for (cc, pp) in conds:
                pre = [x + y for x in pre for y in alternatives(cc, pp, limit)]
            for x in pre:
                for y in alternatives(truth(leaf), pol, limit):
                    if _consistent(x + y):
                        out.append(x + y)
        return out[:limit]
    if (c.k == "and" and pol) or (c.k == "or" and not pol):
        out = [[]]
        for v in c.a[0]:
            out = [x + y for x in out for y in alternatives(v, pol, limit) if _consistent(x + y)][:limit]
        return out
    return [[(c, pol)]]


def pc_scenarios(pc, limit=64):
    """Expand a path condition into scenarios: [literal list], each literal = (atomic condition, polarity)."""
    scen = [[]]
    for (c, pol) in pc:
        scen = [x + y for x in scen for y in alternatives(c, pol, limit) if _consistent(x + y)][:limit]
    return scen


# ---------------------------------------------------------------------- substitution

def subst(t, mapping, memo=None):
    """Replace every occurrence of a term whose key is in `mapping` (key -> T) and renormalise."""
    memo = {} if memo is None else memo
    if t.key in mapping:
        return mapping[t.key]
    if t.key in memo:
        return memo[t.key]
    if t.k == "num":
        res = const(0)
        for m, c in t.a[0].t.items():
            term_ = const(c)
            for k, e in m:
                f = subst(_BYKEY[k], mapping, memo)
                for _ in range(e):
                    term_ = mul(term_, f)
            res = add(res, term_)
        memo[t.key] = res
        return res
    if not any(isinstance(x, (T, tuple)) for x in t.a):
        memo[t.key] = t
        return t

    def sa(x):
        if isinstance(x, T):
            return subst(x, mapping, memo)
        if isinstance(x, tuple):
            return tuple(sa(y) for y in x)
        return x
    args = [sa(x) for x in t.a]
    res = rebuild(t.k, args)
    memo[t.key] = res
    return res


def rebuild(k, a):
    if k == "ite":
        return ite(a[0], a[1], a[2])
    if k == "not":
        return not_(a[0])
    if k == "and":
        return and_(list(a[0]))
    if k == "or":
        return or_(list(a[0]))
    if k == "cmp":
        return cmp_(a[0], a[1], a[2])
    if k == "truth":
        return truth(a[0])
    if k == "min":
        return minimum(a[0][0], a[0][1])
    if k == "max":
        return max_(a[0][0], a[0][1])
    if k == "clamp":
        return clamp(a[0], a[1], a[2])
    if k == "div":
        return div(a[0], a[1])
    if k == "dot":
        return dot(a[0], a[1])
    if k == "pow":
        return power(a[0], a[1])
    if k == "sqrt":
        return sqrt_(a[0])
    if k == "norm":
        return norm_(a[0])
    if k == "col":
        return col(a[0], a[1])
    if k == "item":
        return item(a[0], a[1])
    if k in ("tup", "list", "colstack"):
        return mk(k, tuple(a[0]))
    if k == "call":
        return lift_call(a[0], list(a[1]), list(a[2]))
    if k == "attr":
        return lift(lambda b: mk("attr", b, a[1]), a[0])
    return mk(k, *a)


def lift_call(f, args, kws):
    """Opaque call term with decision trees in callee / arguments pushed outside.  The application of a repository function that
    is deliberately kept opaque (a sub-solver) is ONE unknown whatever cases its arguments have: its argument trees stay inside
    (nothing downstream is then split on how the arguments were obtained)."""
    if f.k == "fn":
        return mk("call", f, tuple(args), tuple(kws))
    vals = [f] + list(args) + [v for (_, v) in kws]

    def g(*xs):
        return mk("call", xs[0], tuple(xs[1:1 + len(args)]), tuple((n, x) for (n, _), x in zip(kws, xs[1 + len(args):])))
    return lift(g, *vals)


# ---------------------------------------------------------------------- intervals and convexity

def interval(t, assume_nonneg=None, facts=()):
    """(lo, hi) enclosure of a scalar term.  assume_nonneg: a list that receives the atoms whose unknown lower bound was
    replaced by 0 (assumption `step lengths are non-negative`).  facts: ((condition, polarity), ...) known on this path; an
    ordered comparison that mentions the term itself bounds it by the other side (`if a > 1: a = 1` caps a in the else branch;
    NaN is not considered)."""
    lo, hi = _interval0(t, assume_nonneg, facts)
    for (c0, p0) in open_facts(facts):
        for (c, pol) in flatten(c0, p0) if c0.k != "ite" else ():
            if c.k != "cmp" or c.a[0] not in ("lt", "le"):
                continue
            u, v = (c.a[1], c.a[2]) if pol else (c.a[2], c.a[1])       # u <= v holds
            if t.key == u.key:
                hi = min(hi, _interval0(v, None, ())[1])
            if t.key == v.key:
                lo = max(lo, _interval0(u, None, ())[0])
    return lo, hi


def open_facts(facts):
    """Path facts with tree-valued tests (`bt`) replaced by the case selected by the other facts, where that is determined."""
    out = []
    for (c, p) in facts:
        if c.k == "bt":
            tree = c.a[0]
            for (c2, p2) in facts:
                if c2.key != c.key:
                    tree = restrict(tree, c2, p2)
            if tree.k != "ite":
                out.append((truth(tree), p))
                continue
        out.append((c, p))
    return out


def _interval0(t, assume_nonneg=None, facts=()):
    k = t.k
    if k == "num":
        lo = hi = Fraction(0)
        for m, c in t.a[0].t.items():
            l, h = c, c
            for a, e in m:
                al, ah = interval(_BYKEY[a], assume_nonneg, facts)
                for _ in range(e):
                    cands = [_mulx(l, al), _mulx(l, ah), _mulx(h, al), _mulx(h, ah)]
                    l, h = min(cands), max(cands)
            lo, hi = lo + l, hi + h
        return lo, hi
    if inf_sign(t) is not None and k != "num":
        return (INF, INF) if inf_sign(t) > 0 else (-INF, -INF)
    if k == "const":
        if isinstance(t.a[0], bool):
            return Fraction(int(t.a[0])), Fraction(int(t.a[0]))
        if t.a[0] == "inf":
            return INF, INF
        if t.a[0] == "-inf":
            return -INF, -INF
        return -INF, INF
    if k == "min":
        (al, ah), (bl, bh) = interval(t.a[0][0], assume_nonneg, facts), interval(t.a[0][1], assume_nonneg, facts)
        return min(al, bl), min(ah, bh)
    if k == "max":
        (al, ah), (bl, bh) = interval(t.a[0][0], assume_nonneg, facts), interval(t.a[0][1], assume_nonneg, facts)
        return max(al, bl), max(ah, bh)
    if k == "clamp":
        (ll, lh), (hl, hh) = interval(t.a[1], assume_nonneg, facts), interval(t.a[2], assume_nonneg, facts)
        return ll, hh
    if k == "ite":
        (al, ah) = interval(t.a[1], assume_nonneg, tuple(facts) + ((t.a[0], True),))
        (bl, bh) = interval(t.a[2], assume_nonneg, tuple(facts) + ((t.a[0], False),))
        return min(al, bl), max(ah, bh)
    if k in ("norm", "sqrt", "abs"):
        return Fraction(0), INF
    if k == "root":
        (al, ah), (bl, bh) = interval(t.a[1], None, facts), interval(t.a[2], None, facts)
        return min(al, bl), max(ah, bh)
    if k == "dot" and t.a[0].key == t.a[1].key:
        return Fraction(0), INF
    if assume_nonneg is not None:
        assume_nonneg.append(t)
        return Fraction(0), INF
    return -INF, INF


def _mulx(a, b):
    if a == 0 or b == 0:
        return Fraction(0)
    return a * b


def box_of(atom):
    """(lo, hi) terms of a box-point atom."""
    if atom.k == "clamp":
        return atom.a[1], atom.a[2]
    if atom.k in ("phiF", "feas"):
        return atom.a[-2], atom.a[-1]
    return None


def has_unk(t):
    return mentions(t, lambda a: a.k == "unk")


def _not_understood(a):
    """atoms the executor has no model for (results of external library calls, comprehensions, in-place updates, applications of
    repository functions that could not be inlined, methods of array values ...)"""
    if a.k in ("unk", "opq", "bin", "un", "upd", "sub", "glob", "mod", "slice", "transposed", "pow"):
        return a.k != "pow" or const_of(a.a[1]) is None
    return a.k == "call" and a.a[0].k in ("ext", "glob", "unk", "mod", "dict", "partial", "const", "tup", "list")


def understood(*ts):
    """No part of these terms is a value the executor has no model for.  (Applications of function-valued parameters, of methods of
    parameter objects and of repository functions deliberately kept opaque ARE understood: they are unknowns of the analysed code,
    not gaps of the analysis.)"""
    return not any(t is not None and mentions(t, _not_understood) for t in ts)


def no_carried_unknown(*ts):
    """No loop-carried unknown (a variable for which the induction over a loop found no invariant) occurs in these terms."""
    return not any(t is not None and mentions(t, lambda a: a.k == "phi") for t in ts)


def _carried_unknown(a):
    """a loop-carried unknown, or a component (field / item) of one"""
    while a.k in ("attr", "item", "sub", "col") and isinstance(a.a[0], T):
        a = a.a[0]
    return a.k == "phi"


class Convexity:
    """Result of `convex(leaf)`: ok, box (lo, hi) | None, reason, weights {F atom key: Poly}, assumed (atoms taken >= 0), loose (monomials
    without a box point), unknown (the leaf contains an unanalysed value)."""

    def __init__(self):
        self.ok = False
        self.box = None
        self.why = ""
        self.weights = {}
        self.assumed = []
        self.loose = []
        self.unknown = False


def convex(t, extra_feasible=(), facts=()) -> Convexity:
    """Is the polynomial leaf t a convex combination of box points (of one box)?"""
    r = Convexity()
    if t.k == "ite":
        r.why = "not a single case"
        return r
    if not is_num(t):
        r.why = f"`{show(t)}` is not a number/array"
        return r
    if has_unk(t):
        r.unknown = True
    p = poly(t)
    boxes = {}
    for m, c in p.t.items():
        fs = [(a, e) for (a, e) in m if _BYKEY[a].k in F_KINDS or a in extra_feasible]
        if len(fs) != 1 or fs[0][1] != 1:
            r.loose.append(num(Poly({m: c})))
            continue
        fa = fs[0][0]
        rest = tuple((a, e) for (a, e) in m if a != fa)
        r.weights[fa] = r.weights.get(fa, Poly()) + Poly({rest: c})
        b = box_of(_BYKEY[fa])
        if b is not None:
            boxes[(b[0].key, b[1].key)] = b
    if r.loose:
        if any(mentions(x, _not_understood) for x in r.loose):
            r.unknown = True        # a component without a model may hide anything (also a projection)
        carried = [x for x in r.loose if mentions(x, lambda a: a.k == "phi")]
        # a loop-carried unknown (a variable for which the induction found no invariant) as a factor of a component: what the
        # component is has not been derived, only that this analysis could not describe it
        if any(_carried_unknown(_BYKEY[a]) for x in r.loose for a in poly(x).atoms()):
            r.unknown = True
        r.why = "component(s) " + ", ".join(f"`{brief(x, 70, 2)}`" for x in r.loose[:2]) + (" ..." if len(r.loose) > 2 else "") + \
            " are not box projections" + (" (a loop-carried value for which no box invariant holds)" if carried else "")
        return r
    if not r.weights:
        r.why = "no box point"
        return r
    if len(boxes) > 1:
        r.why = "points of different boxes are combined"
        return r
    r.box = next(iter(boxes.values())) if boxes else None
    tot = Poly()
    for w in r.weights.values():
        tot = tot + w
    if not (tot - Poly.const(1)).is_zero():
        r.why = f"the weights of the box points sum to `{brief(num(tot), 80, 2)}`, not 1"
        return r
    for fa, w in r.weights.items():
        lo, hi = interval(num(w), r.assumed, facts)
        if (lo < 0 or hi > 1) and mentions(num(w), lambda a: _not_understood(a) or a.k == "phi"):
            r.unknown = True
        if lo < 0 or hi > 1:
            r.why = f"the weight `{brief(num(w), 100, 2)}` of the box point `{brief(_BYKEY[fa], 60, 2)}` ranges over [{_fmt(lo)}, {_fmt(hi)}], not within [0, 1]"
            return r
    r.ok = True
    return r


def _fmt(x):
    if x in (INF, -INF):
        return "inf" if x > 0 else "-inf"
    return str(x)


# ---------------------------------------------------------------------- printing

def show(t, depth=0) -> str:
    if depth > 7:
        return "..."
    k, a = t.k, t.a
    S = lambda x: show(x, depth + 1)
    if k == "num":
        parts = []
        for m, c in sorted(a[0].t.items(), key=lambda x: (len(x[0]), x[0])):
            mon = "*".join((S(_BYKEY[kk]) if e == 1 else f"{S(_BYKEY[kk])}**{e}") for kk, e in m)
            cs = str(c)
            parts.append(cs if not mon else (mon if c == 1 else ("-" + mon if c == -1 else f"{cs}*{mon}")))
        return "(" + " + ".join(parts) + ")" if len(parts) > 1 else (parts[0] if parts else "0")
    if k == "sym":
        return str(a[0])
    if k == "glob":
        return str(a[0])
    if k == "const":
        return repr(a[0])
    if k == "attr":
        return f"{S(a[0])}.{a[1]}"
    if k == "call":
        return f"{S(a[0])}({', '.join([S(x) for x in a[1]] + [f'{n}={S(v)}' for n, v in a[2]])})"
    if k == "ext":
        return a[0].split(".")[-1]
    if k == "fn":
        return a[0].split(":")[-1]
    if k in ("min", "max"):
        return f"{k}({S(a[0][0])}, {S(a[0][1])})"
    if k == "clamp":
        return f"clamp({S(a[0])}, {S(a[1])}, {S(a[2])})"
    if k == "div":
        return f"({S(a[0])})/({S(a[1])})"
    if k == "dot":
        return f"{S(a[0])}@{S(a[1])}"
    if k in ("norm", "sqrt", "abs"):
        return f"{k}({S(a[0])})"
    if k == "pow":
        return f"{S(a[0])}**{S(a[1])}"
    if k == "col":
        return f"{S(a[0])}[:,{a[1]}]"
    if k == "item":
        return f"{S(a[0])}[{a[1] if not isinstance(a[1], T) else S(a[1])}]"
    if k in ("tup", "list", "colstack"):
        return f"{'' if k == 'tup' else k}({', '.join(S(x) for x in a[0])})"
    if k == "ite":
        return f"({S(a[1])} if {S(a[0])} else {S(a[2])})"
    if k == "cmp":
        ops = {"lt": "<", "le": "<=", "eq": "==", "is": "is", "in": "in", "notin": "not in"}
        return f"{S(a[1])} {ops.get(a[0], a[0])} {S(a[2])}"
    if k == "not":
        return f"not ({S(a[0])})"
    if k in ("and", "or"):
        return "(" + f" {k} ".join(S(x) for x in a[0]) + ")"
    if k == "truth":
        return S(a[0])
    if k in ("phi", "phiF"):
        if isinstance(a[0], tuple) and a[0] and a[0][0] == "J":
            return f"<some box point ({a[1]} after a merge)>"
        return f"<{'box point ' if k == 'phiF' else ''}{a[1]} at the head of loop {a[0][1] if isinstance(a[0], tuple) and len(a[0]) > 1 else a[0]}>"
    if k == "feas":
        return str(a[0])
    if k == "root":
        return f"<root of {S(a[0])} in [{S(a[1])}, {S(a[2])}]>"
    if k == "iter":
        return "<loop index>"
    if k == "unk":
        return f"<unknown: {a[0]}>"
    if k == "rec":
        return f"{a[0]}(...)"
    return f"{k}({', '.join(S(x) if isinstance(x, T) else str(x) for x in a)})"


# ====================================================================== executor

def shape_of(v):
    """('rec', constructor, field names, n) / ('tup', n) when every case of v is a record of one constructor / a tuple of one length
    (a *structured* value whose components are tracked separately through loops), else None."""
    if v is None or v is UNBOUND:
        return None
    ls = [l for (_, l) in leaves(v)]
    if all(l.k == "rec" for l in ls) and len({(l.a[0], tuple(f for f, _ in l.a[1])) for l in ls}) == 1 and ls[0].a[1]:
        return ("rec", ls[0].a[0], tuple(f for f, _ in ls[0].a[1]), ls[0].a[2])
    if all(l.k == "tup" for l in ls) and len({len(l.a[0]) for l in ls}) == 1 and ls[0].a[0]:
        return ("tup", len(ls[0].a[0]))
    return None


def components(name, sh):
    """[(virtual variable name, selector)] of a structured variable: `state.z` for a record field, `state[1]` for a tuple item."""
    if sh[0] == "rec":
        return [(f"{name}.{f}", f) for f in sh[2]]
    return [(f"{name}[{i}]", i) for i in range(sh[1])]


def component(v, sel):
    """field / item `sel` of the structured value v (cases pushed outside)."""
    if isinstance(sel, int):
        return item(v, sel)

    def f(b):
        if b.k == "rec":
            for (fn, x) in b.a[1]:
                if fn == sel:
                    return x
        return mk("attr", b, sel)
    return lift(f, v)


def var_value(vars_, name):
    """value of a variable of an environment by (possibly virtual) name: `x`, `state.x`, `carry[0]`."""
    v = vars_.get(name)
    if v is not None or not isinstance(name, str):
        return v
    if name.endswith("]") and "[" in name:
        base, _, idx = name[:-1].rpartition("[")
        b = var_value(vars_, base)
        return None if b is None or not idx.lstrip("-").isdigit() else component(b, int(idx))
    if "." in name:
        base, _, f = name.rpartition(".")
        b = var_value(vars_, base)
        return None if b is None else component(b, f)
    return None


class Env:
    __slots__ = ("vars", "pc", "log")

    def __init__(self, vars=None, pc=(), log=None):
        self.vars = vars if vars is not None else {}      # name -> T ; (base key, attr) -> T for attribute cells
        self.pc = pc                                      # ((cond, polarity), ...)
        self.log = log if log is not None else {}         # fact tuple -> guard T   (things that certainly happened on this path)

    def copy(self, extra_pc=()):
        return Env(dict(self.vars), self.pc + tuple(extra_pc), dict(self.log))


class Frame:
    def __init__(self, scope, fid, depth, outer, ctxkey):
        self.scope, self.id, self.depth, self.outer, self.ctxkey = scope, fid, depth, outer, ctxkey
        self.cur = None
        self.returns = []           # (value, Env)
        self.loops = []             # active _LoopCtx
        self.fell_through = None


class _LoopCtx:
    def __init__(self):
        self.breaks, self.continues = [], []


class LoopRec:
    """What the induction over one loop found: per carried variable its initial value, head value, back-edge value and status
    ('same' | 'box' | 'relational' | 'opaque' | 'relational-failed'), plus the mismatch of a failed relational invariant."""

    def __init__(self, key, scope, node):
        self.key, self.scope, self.node = key, scope, node
        self.init, self.head, self.back, self.status, self.mismatch = {}, {}, {}, {}, {}
        self.first_events = []
        self.back_pc = ()


class Interp:
    def __init__(self, ctx, opaque=(), max_depth=7, inline=None):
        self.ctx = ctx
        self.repo = ctx.repo
        self.opaque = {id(s) for s in opaque}
        self.inline = inline          # predicate on scopes: which repository functions may be inlined (None = all)
        self.compact_above = 4
        self.touch = None             # module whose inlined functions count as analysed (None = all)
        self.max_depth = max_depth
        self.events = []
        self.stack = []
        self.loops = {}
        self.closures = {}          # fn term key -> (scope, defining Frame | None)
        self._fid = 0
        self._modconst = {}
        self.notes = []
        self.classes = {}           # key of a class term -> class Scope (plain classes: instances are objects with attribute cells)
        self.compacted = {}         # key of a value abstracted at a merge (K + `some box point`) -> the cases it abstracts
        self.notes_soft = []        # calls that could not be inlined (their results are `unk` applications)

    # ------------------------------------------------------------------ entry points
    def fn_term(self, scope, frame=None, env=None):
        """Function value.  The default values of a nested def / lambda are evaluated where it is created (`lambda d, x=x: ...` freezes
        x) and are part of the value."""
        defaults = ()
        if frame is not None and env is not None and scope.kind in ("function", "lambda"):
            ds = []
            for p in scope.params() + scope.kwonly():
                d = scope.default_of(p)
                if d is not None:
                    ds.append((p, self.eval(d, env, frame)))
            defaults = tuple(ds)
        t = mk("fn", scope.qualname, frame.id if frame is not None else 0, defaults) if defaults else \
            mk("fn", scope.qualname, frame.id if frame is not None else 0)
        self.closures[t.key] = (scope, frame)
        return t

    def run(self, scope, args: dict, env0=None):
        """Execute function `scope` with parameters bound to the terms in `args` (missing ones become input symbols).
        Returns (result term, Frame)."""
        bound = {}
        for p in scope.params() + scope.kwonly():
            bound[p] = args[p] if p in args else mk("sym", p)
        return self._call_scope(scope, bound, None, ("top", scope.qualname), env0)

    # ------------------------------------------------------------------ calling a repository function
    def _call_scope(self, scope, bound, defframe, site, env0=None):
        self._fid += 1
        if scope.kind == "function" and not getattr(scope.module, "is_test", False) and (self.touch is None or scope.module.name == self.touch):
            self.ctx.touch(scope)
        parent_ctx = self.stack[-1].ctxkey if self.stack else ()
        fr = Frame(scope, self._fid, len(self.stack), defframe, parent_ctx + (site,))
        env = Env(dict(bound)) if env0 is None else Env(dict(env0.vars, **bound), env0.pc, dict(env0.log))
        if self.stack and env0 is None:
            cur = self.stack[-1].cur
            env.pc = cur.pc
            env.log = dict(cur.log)
            # attribute cells (heap) are global state
            for k, v in cur.vars.items():
                if isinstance(k, tuple):
                    env.vars[k] = v
        fr.cur = env
        self.stack.append(fr)
        try:
            if isinstance(scope.node, ast.Lambda):
                v = self.eval(scope.node.body, env, fr)
                fr.returns.append((v, env))
                out = None
            else:
                out = self.block(scope.node.body, env, fr)
        finally:
            self.stack.pop()
        fr.fell_through = out
        ends = list(fr.returns)
        if out is not None:
            ends.append((NONE, out))
        if not ends:
            res = mk("unk", "no return", scope.qualname)
            final = None
        else:
            base = env.pc if env0 is None else env0.pc
            final = self.join([e for (_, e) in ends], base, extra=[("$ret", [v for (v, _) in ends])], label=fr.ctxkey + ("ret",))
            res = final.vars.pop("$ret")
        # propagate heap cells and the log to the caller
        if self.stack and final is not None:
            cur = self.stack[-1].cur
            for k, v in final.vars.items():
                if isinstance(k, tuple):
                    cur.vars[k] = v
            cur.log = final.log
        return res, fr

    def bind(self, scope, args, kws, frame, env, frozen=()):
        """param -> term for a call of `scope`; None when the call cannot be bound statically.  frozen: default values evaluated
        when the function value was created."""
        ps = scope.params()
        frozen = dict(frozen)
        if len(args) > len(ps) or scope.has_varargs() or scope.has_kwargs():
            return None
        m = dict(zip(ps, args))
        for (n, v) in kws:
            if n is None or n in m or n not in ps + scope.kwonly():
                return None
            m[n] = v
        for p in ps + scope.kwonly():
            if p not in m:
                if p in frozen:
                    m[p] = frozen[p]
                    continue
                d = scope.default_of(p)
                if d is None:
                    return None
                m[p] = self._eval_in_scope(d, scope.parent)
        return m

    def _class_of(self, obj):
        for k, sc in self.classes.items():
            if sc.qualname == obj.a[0]:
                return sc
        return None

    def _eval_in_scope(self, expr, scope):
        """Evaluate an expression that lives in `scope` outside any running frame (defaults, module constants)."""
        fr = Frame(scope, 0, 0, None, ())
        fr.cur = Env()
        try:
            return self.eval(expr, fr.cur, fr)
        except RecursionError:
            raise
        except Exception as e:   # unreadable: opaque
            return mk("unk", "default", norm_src(expr))

    # ------------------------------------------------------------------ joins
    def compact(self, v, label, name):
        """A merged value with many cases that are all K + (convex combination of points of one box) is abstracted to K + `some point
        of that box` (sound for every question about feasibility; which case it was is forgotten)."""
        if v.k == "tup":
            return mk("tup", tuple(self.compact(x, label, f"{name}[{i}]") for i, x in enumerate(v.a[0])))
        if n_leaves(v) <= self.compact_above:
            return v
        cl = leaves(v)
        cases = [lf for (_, lf) in cl]
        if all(c.k == "tup" and len(c.a[0]) == len(cases[0].a[0]) for c in cases):
            # a tree of tuples -> a tuple of trees
            return mk("tup", tuple(self.compact(item(v, i), label, f"{name}[{i}]") for i in range(len(cases[0].a[0]))))
        r = _box_generalize(cases, ("J",) + tuple(label), name, None, [cs for (cs, _) in cl])
        if r is not None:
            self.compacted[r.key] = list(cases)
        return r if r is not None else v

    def join(self, envs, base_pc, extra=(), label=("?",)):
        """Decision-list merge of path-disjoint environments; `extra` = [(name, [value per env])] merged alongside."""
        envs = list(envs)
        if len(envs) == 1:
            e = envs[0]
            out = Env(dict(e.vars), e.pc, dict(e.log))
            for (n, vals) in extra:
                out.vars[n] = self.compact(vals[0], label, n)
            return out
        # common prefix of the path conditions
        def prefix(idx, n):
            while all(len(envs[i].pc) > n for i in idx) and len({(envs[i].pc[n][0].key, envs[i].pc[n][1]) for i in idx}) == 1:
                n += 1
            return n
        allidx = list(range(len(envs)))
        n = prefix(allidx, 0)
        conds = []
        for e in envs:
            conds.append(and_([c if pol else not_(c) for (c, pol) in e.pc[n:]]))

        def shape(idx, n):
            """Nested decision structure of the environments: ('leaf', i) | ('ite', cond, shape, shape) | None (not tree-shaped)."""
            if len(idx) == 1:
                return ("leaf", idx[0])
            n = prefix(idx, n)
            if not all(len(envs[i].pc) > n for i in idx):
                return None
            c = envs[idx[0]].pc[n][0]
            tg = [i for i in idx if envs[i].pc[n][0].key == c.key and envs[i].pc[n][1]]
            fg = [i for i in idx if envs[i].pc[n][0].key == c.key and not envs[i].pc[n][1]]
            if len(tg) + len(fg) != len(idx) or not tg or not fg:
                return None
            a, b = shape(tg, n + 1), shape(fg, n + 1)
            if a is None or b is None:
                return None
            return ("ite", c, a, b)
        sh = shape(allidx, n)
        keys = []
        for e in envs:
            for k in e.vars:
                if k not in keys:
                    keys.append(k)
        out = Env({}, envs[0].pc[:n], {})

        def build(sh, vals):
            if sh[0] == "leaf":
                return vals[sh[1]]
            return ite(sh[1], build(sh[2], vals), build(sh[3], vals))

        def merge(vals):
            if sh is not None:
                return build(sh, vals)
            v = vals[-1]
            for c, x in zip(reversed(conds[:-1]), reversed(vals[:-1])):
                v = ite(c, x, v)
            return v
        for k in keys:
            vals = [e.vars.get(k, self._cell_default(k)) for e in envs]
            k0 = vals[0].key
            out.vars[k] = vals[0] if all(v.key == k0 for v in vals) else self.compact(merge(vals), label, _kname(k))
        for (nm, vals) in extra:
            out.vars[nm] = self.compact(merge(list(vals)), label, nm)
        facts = []
        for e in envs:
            for f in e.log:
                if f not in facts:
                    facts.append(f)
        for f in facts:
            # the guard of a fact (`it certainly happened when ...`) is merged like a boolean variable that is False where absent
            vals = [e.log.get(f, FALSE) for e in envs]
            out.log[f] = vals[0] if all(v.key == vals[0].key for v in vals) else merge(vals)
        return out

    @staticmethod
    def _cell_default(k):
        if isinstance(k, tuple):
            return mk("attr", _BYKEY[k[0]], k[1])
        return UNBOUND

    # ------------------------------------------------------------------ statements
    def block(self, stmts, env, fr):
        for st in stmts:
            if env is None:
                return None
            fr.cur = env
            env = self.stmt(st, env, fr)
        return env

    def event(self, kind, fr, node, env, **kw):
        ev = dict(kind=kind, frame=fr.id, depth=fr.depth, scope=fr.scope, node=node, pc=env.pc, log=dict(env.log), ctx=fr.ctxkey)
        if kind == "call":
            ev["cells"] = {k: v for k, v in env.vars.items() if isinstance(k, tuple)}
        ev.update(kw)
        self.events.append(ev)
        return ev

    def assign(self, target, value, env, fr, st):
        if isinstance(target, ast.Name):
            old = env.vars.get(target.id, UNBOUND)
            env.vars[target.id] = value
            self.event("assign", fr, st, env, name=target.id, value=value, old=old)
            sh = shape_of(value)
            if sh is not None:
                # the components of a record / tuple held by one variable are variables of their own (`state.z`, `carry[0]`)
                osh = shape_of(old)
                for (vn, sel) in components(target.id, sh):
                    self.event("assign", fr, st, env, name=vn, value=component(value, sel),
                               old=component(old, sel) if osh == sh else UNBOUND, virtual=True)
        elif isinstance(target, (ast.Tuple, ast.List)):
            for i, e in enumerate(target.elts):
                if isinstance(e, ast.Starred):
                    self.assign(e.value, mk("unk", "starred", i), env, fr, st)
                else:
                    self.assign(e, item(value, i), env, fr, st)
        elif isinstance(target, ast.Attribute):
            base = self.eval(target.value, env, fr)
            if base.k == "ite":
                base = mk("unk", "conditional object")
            env.vars[(base.key, target.attr)] = value
            self.event("setattr", fr, st, env, base=base, attr=target.attr, value=value)
        elif isinstance(target, ast.Subscript):
            if isinstance(target.value, ast.Name):
                old = self.load(target.value.id, env, fr)
                idx = self.eval(target.slice, env, fr)
                env.vars[target.value.id] = mk("upd", old, idx, value)
        elif isinstance(target, ast.Starred):
            self.assign(target.value, value, env, fr, st)

    def stmt(self, st, env, fr):
        if isinstance(st, ast.Assign):
            v = self.eval(st.value, env, fr)
            for t in st.targets:
                self.assign(t, v, env, fr, st)
            return env
        if isinstance(st, ast.AnnAssign):
            if st.value is not None:
                self.assign(st.target, self.eval(st.value, env, fr), env, fr, st)
            return env
        if isinstance(st, ast.AugAssign):
            load = ast.copy_location(_as_load(st.target), st.target)
            old = self.eval(load, env, fr)
            v = self.binop(st.op, old, self.eval(st.value, env, fr))
            self.assign(st.target, v, env, fr, st)
            return env
        if isinstance(st, ast.Expr):
            v = self.eval(st.value, env, fr)
            c = st.value
            # a method call on a local container may mutate it: the variable no longer denotes the old value
            if isinstance(c, ast.Call) and isinstance(c.func, ast.Attribute) and isinstance(c.func.value, ast.Name):
                nm = c.func.value.id
                old = env.vars.get(nm)
                if old is not None and old.k not in ("sym", "fn", "rec", "feas") and c.func.attr in _MUTATORS:
                    env.vars[nm] = mk("upd", old, c.func.attr, v)
            return env
        if isinstance(st, ast.Return):
            v = self.eval(st.value, env, fr) if st.value is not None else NONE
            fr.returns.append((v, env))
            self.event("return", fr, st, env, value=v, renv=env)
            return None
        if isinstance(st, ast.Raise):
            self.event("raise", fr, st, env)
            return None
        if isinstance(st, ast.If):
            c = truth(self.eval(st.test, env, fr))
            c = self.under(c, env)
            body, orelse = st.body, st.orelse
            if _negated(c):
                # `if not t: A else: B` is `if t: B else: A`
                c, body, orelse = not_(c), orelse, body
            c = _atomic(c)
            if c is TRUE:
                return self.block(body, env, fr)
            if c is FALSE:
                return self.block(orelse, env, fr)
            e1 = self.block(body, env.copy([(c, True)]), fr)
            e2 = self.block(orelse, env.copy([(c, False)]), fr)
            if e1 is None:
                return e2
            if e2 is None:
                return e1
            return self.join([e1, e2], env.pc, label=fr.ctxkey + (getattr(st, "lineno", 0), getattr(st, "col_offset", 0)))
        if isinstance(st, (ast.While, ast.For)):
            return self.loop(st, env, fr)
        if isinstance(st, (ast.FunctionDef, ast.AsyncFunctionDef)):
            sc = self.repo.scope_of(st)
            env.vars[st.name] = self.fn_term(sc, fr, env) if sc is not None else mk("unk", "def", st.name)
            return env
        if isinstance(st, ast.Break):
            if fr.loops:
                fr.loops[-1].breaks.append(env)
            return None
        if isinstance(st, ast.Continue):
            if fr.loops:
                fr.loops[-1].continues.append(env)
            return None
        if isinstance(st, (ast.With, ast.AsyncWith)):
            for it in st.items:
                v = self.eval(it.context_expr, env, fr)
                if it.optional_vars is not None:
                    self.assign(it.optional_vars, v, env, fr, st)
            return self.block(st.body, env, fr)
        if isinstance(st, ast.Try) or st.__class__.__name__ == "TryStar":
            e = self.block(st.body, env.copy(), fr)
            ends = [x for x in [e] if x is not None]
            for h in st.handlers:
                he = env.copy([(mk("unk", "exception", getattr(h, "lineno", 0)), True)])
                for n in _assigned_names(st.body):
                    he.vars[n] = mk("unk", "after exception", n)
                x = self.block(h.body, he, fr)
                if x is not None:
                    ends.append(x)
            if not ends:
                return None
            out = self.join(ends, env.pc, label=fr.ctxkey + (getattr(st, "lineno", 0), "try")) if len(ends) > 1 else ends[0]
            if st.orelse and e is not None and len(ends) == 1:
                out = self.block(st.orelse, out, fr)
            if st.finalbody and out is not None:
                out = self.block(st.finalbody, out, fr)
            return out
        if isinstance(st, ast.Assert):
            return env
        if isinstance(st, ast.Delete):
            for t in st.targets:
                if isinstance(t, ast.Name):
                    env.vars.pop(t.id, None)
            return env
        if isinstance(st, ast.ClassDef):
            env.vars[st.name] = mk("unk", "class", st.name)
            return env
        return env   # pass, import, global, nonlocal ...

    def under(self, v, env):
        for (c, pol) in env.pc:
            if v.k != "ite":
                break
            v = restrict(v, c, pol)
        # a condition already decided on this path
        if v.k in BOOL_KINDS:
            for (c, pol) in env.pc:
                for (a, p) in flatten(c, pol) if c.k != "ite" else []:
                    if a.key == v.key:
                        return TRUE if p else FALSE
                    if v.k == "not" and v.a[0].key == a.key:
                        return FALSE if p else TRUE
        return v

    # ------------------------------------------------------------------ loops
    def loop(self, st, env, fr):
        key = (fr.ctxkey, f"{fr.scope.qualname}:{getattr(st, 'lineno', 0)}")
        label = ("L", getattr(st, "lineno", 0), _crc(repr(key)))
        rec = LoopRec(key, fr.scope, st)
        rec.entry_pc, rec.frame, rec.depth, rec.back_log = env.pc, fr.id, fr.depth, {}
        names = list(_assigned_names(st.body))
        if isinstance(st, ast.For):
            names += [n for n in _target_names(st.target) if n not in names]
        init_env = env
        # a carried variable that holds a record / tuple is carried component by component (virtual variables `state.z`, `carry[0]`)
        virt, shapes = {}, {}
        keys = []
        for k in names:
            sh = shape_of(env.vars.get(k))
            if sh is not None:
                shapes[k] = sh
                for (vn, sel) in components(k, sh):
                    virt[vn] = (k, sel)
                    keys.append(vn)
            else:
                keys.append(k)

        def value_of(vars_, k, default=UNBOUND):
            if k in virt:
                b = vars_.get(virt[k][0])
                return component(b, virt[k][1]) if b is not None and b is not UNBOUND else UNBOUND
            return vars_.get(k, default)

        def assemble(b, vals):
            sh = shapes[b]
            if sh[0] == "rec":
                return mk("rec", sh[1], tuple((f, vals[f"{b}.{f}"]) for f in sh[2]), sh[3])
            return mk("tup", tuple(vals[f"{b}[{i}]"] for i in range(sh[1])))
        head = {}
        status = {}
        relcand = {}
        links = None
        for k in keys:
            head[k] = value_of(env.vars, k)
            status[k] = "same"
        final = None
        rnd = -1
        budget = 10
        while budget > 0:
            budget -= 1
            rnd += 1
            force = rnd >= 7
            mark_e, mark_r = len(self.events), len(fr.returns)
            e = env.copy()
            for k, v in head.items():
                if k in virt:
                    continue
                if v is not UNBOUND:
                    e.vars[k] = v
                else:
                    e.vars.pop(k, None)
            for b in shapes:
                e.vars[b] = assemble(b, head)
            exit_env = e
            if isinstance(st, ast.For):
                itv = self.eval(st.iter, e, fr)
                self.assign(st.target, mk("iter", label, itv), e, fr, st)
                body_env = e.copy()
                exit_env = e
            else:
                c = _atomic(self.under(truth(self.eval(st.test, e, fr)), e))
                if c is FALSE:
                    final = e
                    break
                body_env = e.copy([(c, True)] if c is not TRUE else [])
                exit_env = e.copy([(c, False)]) if c is not TRUE else None
            L = _LoopCtx()
            fr.loops.append(L)
            try:
                out = self.block(st.body, body_env, fr)
            finally:
                fr.loops.pop()
            if rnd == 0:
                rec.first_events = list(self.events[mark_e:])      # the first iteration, executed on the exact initial values
            backs = [x for x in [out] + L.continues if x is not None]
            if backs:
                back_env = self.join(backs, e.pc, label=fr.ctxkey + (getattr(st, "lineno", 0), "back"))
                lost = [b for b in shapes if shape_of(back_env.vars.get(b)) != shapes[b]]
                if lost:
                    # the variable does not keep its structure over an iteration: carry it as one value, start again
                    for b in lost:
                        for (vn, _) in components(b, shapes[b]):
                            virt.pop(vn, None)
                            head.pop(vn, None)
                            status.pop(vn, None)
                            keys.remove(vn)
                        del shapes[b]
                        keys.append(b)
                        head[b] = env.vars.get(b, UNBOUND)
                        status[b] = "same"
                    del self.events[mark_e:]
                    del fr.returns[mark_r:]
                    rnd, links, relcand = -1, None, {}
                    continue
                # cells first assigned inside the body are carried too
                for k in back_env.vars:
                    if isinstance(k, tuple) and k not in head and back_env.vars[k].key != env.vars.get(k, self._cell_default(k)).key:
                        head[k] = env.vars.get(k, self._cell_default(k))
                        status[k] = "same"
                        keys.append(k)
                newhead, newstatus = {}, {}
                init = {k: value_of(init_env.vars, k, self._cell_default(k) if isinstance(k, tuple) else UNBOUND) for k in keys}
                back = {k: (value_of(back_env.vars, k, init[k]) if k not in virt else value_of(back_env.vars, k)) for k in keys}
                # carried variables that differ by a loop-invariant amount (xNew == x + z) are generalised together
                def numeric(k):
                    return init[k] is not UNBOUND and all(is_num(l) and l.k not in ("unk", "unbound") for (_, l) in leaves(init[k]) + leaves(back[k]))
                if links is None:
                    links, reps = {}, []
                    for k in keys:
                        if not numeric(k) or same(back[k], init[k]):
                            continue
                        for r in reps:
                            E = sub(init[k], init[r])
                            if E.k != "ite" and is_num(E) and same(sub(back[k], back[r]), E):
                                links[k] = (r, E)
                                break
                        else:
                            reps.append(k)
                else:
                    for k, (r, E) in list(links.items()):
                        if not (numeric(k) and numeric(r) and same(sub(back[k], back[r]), E)):
                            del links[k]
                for k in keys:
                    newhead[k], newstatus[k] = self.generalize(label, k, init[k], back[k], force, rec)
                for k, (r, E) in links.items():
                    newhead[k], newstatus[k] = add(newhead[r], E), "linked"
                # relational invariants for the variables that would otherwise be opaque: the initial value re-expressed in the
                # *base* carried variables (those whose own initial value does not contain another carried variable's)
                atomic = [u for u in keys if init[u] is not UNBOUND and init[u].k not in ("num", "const", "ite", "tup", "list", "fn")
                          and newhead[u].key != init[u].key]
                base = [u for u in atomic
                        if not any(w != u and init[w].key != init[u].key and init[w].key in atoms_of(init[u]) for w in atomic)]
                for k in keys:
                    if newstatus[k] != "opaque" or status.get(k) == "relational-failed" or init[k] is UNBOUND or k in base or k in links:
                        continue
                    mp_head, mp_back = {}, {}
                    for u in base:
                        if u == k:
                            continue
                        mp_head[init[u].key] = newhead[u]
                        mp_back[init[u].key] = back[u]
                    if not mp_head:
                        continue
                    cand = subst(init[k], mp_head)
                    if cand.key == init[k].key:
                        continue
                    want = subst(init[k], mp_back)
                    if relcand.get(k) is not None and relcand[k].key == cand.key and status.get(k) == "relational":
                        # second look: the body was executed with the candidate at the head; is it preserved?
                        if same(back[k], want):
                            newhead[k], newstatus[k] = cand, "relational"
                        else:
                            newstatus[k] = "relational-failed"
                            rec.mismatch[k] = dict(candidate=cand, back=back[k], want=want)
                    else:
                        relcand[k] = cand
                        newhead[k], newstatus[k] = cand, "relational"
                for k in keys:
                    if status.get(k) == "relational-failed":
                        newstatus[k] = "relational-failed"
                        newhead[k] = mk("phi", label, _kname(k))
                stable = all(newhead[k].key == head[k].key for k in keys) and all(
                    newstatus[k] != "relational" or status.get(k) == "relational" for k in keys)
                rec.init, rec.back, rec.back_pc, rec.back_log = dict(init), dict(back), back_env.pc, dict(back_env.log)
            else:
                stable = True
                newhead, newstatus = dict(head), dict(status)
            if stable:
                rec.head, rec.status = dict(head), dict(newstatus if backs else status)
                for b in shapes:
                    rec.head[b], rec.status[b] = assemble(b, head), "structured"
                final = self._loop_exit(st, env, fr, exit_env, L, label)
                break
            head, status = newhead, newstatus
            del self.events[mark_e:]
            del fr.returns[mark_r:]
        else:
            self.notes.append(f"loop at {fr.scope.qualname}:{getattr(st, 'lineno', 0)} did not stabilise")
            final = self._loop_exit(st, env, fr, exit_env, L, label)
        self.loops[key] = rec
        rec.label = label
        return final

    def _loop_exit(self, st, env, fr, exit_env, L, label):
        """State after the loop: the normal exit (iterator exhausted / test false; the `else:` block runs only there) merged with the
        `break` exits.  The exhaustion of a `for` loop is an unknown condition of its own when there are breaks."""
        if exit_env is not None and isinstance(st, ast.For) and L.breaks:
            exit_env = exit_env.copy([(mk("truth", mk("exhausted", label)), True)])
        if exit_env is not None and st.orelse:
            exit_env = self.block(st.orelse, exit_env, fr)
        after = [x for x in [exit_env] + L.breaks if x is not None]
        return self.join(after, env.pc, label=fr.ctxkey + (getattr(st, "lineno", 0), "exit")) if after else None

    def generalize(self, label, k, init, back, force, rec):
        """Head value of a carried variable from its initial and back-edge values -> (term, status)."""
        name = _kname(k)
        phi = mk("phi", label, name)
        ccases = [] if init is UNBOUND else leaves(init)
        ccases += leaves(back)
        ccases = [(cs, c) for (cs, c) in ccases if c is not UNBOUND]
        cases = [c for (_, c) in ccases]
        if init is not UNBOUND and (all(c.key == init.key for c in cases) or same(init, back)):
            return init, "same"
        if force:
            return phi, "opaque"
        own = lambda t: mentions(t, lambda a: a.k in ("phi", "phiF", "iter") and a.a[0] == label and not (a.k == "phiF" and a.a[1] == name))
        r = _box_generalize(cases, label, name, own, [cs for (cs, _) in ccases])
        if r is not None:
            return r, "box"
        return phi, "opaque"

    # ------------------------------------------------------------------ expressions
    def load(self, name, env, fr):
        v = env.vars.get(name)
        if v is not None:
            return self.under(v, env)
        f = fr
        # lexically enclosing frames (closures read the enclosing function's current variables)
        sc = fr.scope
        outer = fr.outer
        while outer is not None:
            v = outer.cur.vars.get(name) if outer.cur is not None else None
            if v is not None:
                return v
            outer = outer.outer
        return self.global_value(name, fr.scope)

    def global_value(self, name, scope):
        key = (scope.module.name, name)
        if key in self._modconst:
            return self._modconst[key]
        res = None
        try:
            vals = self.repo.resolve(ast.Name(id=name, ctx=ast.Load()), scope)
        except Exception:
            vals = set()
        vals = [v for v in vals]
        fvs = [v for v in vals if isinstance(v, FuncVal)]
        if len(vals) == 1 and fvs and not fvs[0].bound and not fvs[0].wrappers:
            res = self.fn_term(fvs[0].scope)
        elif len(vals) == 1 and isinstance(vals[0], ExtVal):
            res = mk("ext", vals[0].name)
        elif len(vals) == 1 and isinstance(vals[0], ModVal):
            res = mk("mod", vals[0].module.name)
        elif len(vals) == 1 and isinstance(vals[0], NamedTupleVal):
            res = mk("ntctor", vals[0].name, tuple(vals[0].fields))
        elif len(vals) == 1 and isinstance(vals[0], ClassVal) and _plain_class(vals[0].scope):
            res = mk("cls", vals[0].scope.qualname)
            self.classes[res.key] = vals[0].scope
        else:
            # module-level constant?
            s, bs = self.repo.lookup(name, scope)
            if s is None:
                s, bs = self.repo.star_lookup(name, scope.module)
            if s is not None and s.kind == "module" and len(bs) == 1 and bs[0].kind == "assign" and bs[0].value is not None and bs[0].index is None:
                self._modconst[key] = mk("glob", name)       # recursion guard
                res = self._eval_in_scope(bs[0].value, s)
                if res.k == "unk":
                    res = mk("glob", name)
            else:
                res = mk("glob", name)
        self._modconst[key] = res
        return res

    def binop(self, op, a, b):
        if isinstance(op, ast.Add):
            return add(a, b)
        if isinstance(op, ast.Sub):
            return sub(a, b)
        if isinstance(op, ast.Mult):
            return mul(a, b)
        if isinstance(op, ast.Div):
            return div(a, b)
        if isinstance(op, ast.Pow):
            return power(a, b)
        if isinstance(op, ast.MatMult):
            return dot(a, b)
        if isinstance(op, (ast.BitOr, ast.BitAnd)) and _boolish(a) and _boolish(b):
            return or_([a, b]) if isinstance(op, ast.BitOr) else and_([a, b])
        return lift(lambda x, y: mk("bin", type(op).__name__, x, y), a, b)

    def eval(self, e, env, fr):
        if isinstance(e, ast.Constant):
            return const(e.value)
        if isinstance(e, ast.Name):
            return self.load(e.id, env, fr)
        if isinstance(e, ast.BinOp):
            return self.binop(e.op, self.eval(e.left, env, fr), self.eval(e.right, env, fr))
        if isinstance(e, ast.UnaryOp):
            v = self.eval(e.operand, env, fr)
            if isinstance(e.op, ast.USub):
                return neg(v)
            if isinstance(e.op, ast.Not):
                return not_(v)
            if isinstance(e.op, ast.UAdd):
                return v
            if isinstance(e.op, ast.Invert) and _boolish(v):
                return not_(v)
            return lift(lambda x: mk("un", type(e.op).__name__, x), v)
        if isinstance(e, ast.BoolOp):
            vs = [self.eval(x, env, fr) for x in e.values]
            return and_(vs) if isinstance(e.op, ast.And) else or_(vs)
        if isinstance(e, ast.Compare):
            left = self.eval(e.left, env, fr)
            out = []
            for op, c in zip(e.ops, e.comparators):
                right = self.eval(c, env, fr)
                out.append(cmp_(_CMP.get(type(op), "?"), left, right))
                left = right
            return out[0] if len(out) == 1 else and_(out)
        if isinstance(e, ast.IfExp):
            c = _atomic(self.under(truth(self.eval(e.test, env, fr)), env))
            if c is TRUE:
                return self.eval(e.body, env, fr)
            if c is FALSE:
                return self.eval(e.orelse, env, fr)
            # the branches are pure expressions here: evaluate both, remember the path condition for nested calls
            a = self._eval_under(e.body, env, fr, (c, True))
            b = self._eval_under(e.orelse, env, fr, (c, False))
            return ite(c, a, b)
        if isinstance(e, ast.Call):
            return self.call(e, env, fr)
        if isinstance(e, ast.Attribute):
            base = self.eval(e.value, env, fr)
            return self.attr(base, e.attr, env)
        if isinstance(e, ast.Subscript):
            base = self.eval(e.value, env, fr)
            s = e.slice
            if isinstance(s, ast.Tuple) and len(s.elts) == 2 and (
                    (isinstance(s.elts[0], ast.Slice) and s.elts[0].lower is None and s.elts[0].upper is None and s.elts[0].step is None)
                    or (isinstance(s.elts[0], ast.Constant) and s.elts[0].value is Ellipsis)):
                k = self.eval(s.elts[1], env, fr)
                ck = const_of(k)
                return col(base, int(ck) if ck is not None and ck.denominator == 1 else k)
            idx = self.eval(s, env, fr)
            if base.k == "dict":
                return dict_lookup(base, idx, None)
            if idx.k == "slice":
                # a constant slice of a tuple / list display
                parts = [None if x is NONE else const_of(x) for x in idx.a[0]]
                if all(x is NONE or (const_of(x) is not None and const_of(x).denominator == 1) for x in idx.a[0]):
                    sl = slice(*[None if q is None else int(q) for q in parts])
                    if all(l.k in ("tup", "list") for (_, l) in leaves(base)):
                        return lift(lambda b: mk(b.k, tuple(b.a[0][sl])), base)
            ci = const_of(idx)
            if ci is not None and ci.denominator == 1 and not (idx.k == "const" and isinstance(idx.a[0], bool)):
                return item(base, int(ci))
            if base.k in ("tup", "list") and len(base.a[0]) == 2 and _boolish(idx):
                # (a, b)[flag]: a boolean index selects item 1 when true
                return ite(_atomic(truth(idx)), base.a[0][1], base.a[0][0])
            return lift(lambda b, i: mk("sub", b, i), base, idx)
        if isinstance(e, ast.Slice):
            parts = [self.eval(x, env, fr) if x is not None else NONE for x in (e.lower, e.upper, e.step)]
            return mk("slice", tuple(parts))
        if isinstance(e, (ast.Tuple, ast.List)):
            vals = [self.eval(x, env, fr) for x in e.elts if not isinstance(x, ast.Starred)]
            if len(vals) != len(e.elts):
                return mk("unk", "starred display")
            return mk("tup" if isinstance(e, ast.Tuple) else "list", tuple(vals))
        if isinstance(e, ast.Dict) and e.keys and all(k is not None for k in e.keys):
            return mk("dict", tuple((self.eval(k, env, fr), self.eval(v, env, fr)) for k, v in zip(e.keys, e.values)))
        if isinstance(e, ast.Lambda):
            sc = self.repo.scope_of(e)
            return self.fn_term(sc, fr, env) if sc is not None else mk("unk", "lambda")
        if isinstance(e, ast.NamedExpr):
            v = self.eval(e.value, env, fr)
            self.assign(e.target, v, env, fr, e)
            return v
        if isinstance(e, ast.JoinedStr):
            return mk("opq", "fstring")
        # comprehensions, dict displays, ...: an opaque value determined by the values of its free variables
        free = sorted({n.id for n in ast.walk(e) if isinstance(n, ast.Name) and isinstance(n.ctx, ast.Load)})
        vals = []
        for n in free:
            v = env.vars.get(n)
            if v is not None:
                vals.append(v)
        return mk("opq", type(e).__name__, f"{fr.scope.qualname}", _shape(e), tuple(vals))

    def _eval_under(self, e, env, fr, lit):
        sub_env = env.copy([lit])
        saved = fr.cur
        fr.cur = sub_env
        try:
            return self.eval(e, sub_env, fr)
        finally:
            fr.cur = saved
            # attribute cells written by calls inside a conditional expression are not tracked
            pass

    def attr(self, base, name, env):
        def f(b):
            cell = env.vars.get((b.key, name))
            if cell is not None:
                return cell
            if b.k == "rec":
                for (fn, v) in b.a[1]:
                    if fn == name:
                        return v
            if b.k == "obj":
                csc = self._class_of(b)
                msc = _method(csc, name) if csc is not None else None
                if msc is not None:
                    return mk("bound", b, self.fn_term(msc))
                if csc is not None:
                    bs = csc.bindings.get(name) or []
                    if len(bs) == 1 and bs[0].kind == "assign" and bs[0].value is not None and bs[0].index is None:
                        return self._eval_in_scope(bs[0].value, csc)
                return mk("unk", "attribute of an object that was never assigned", name)
            if b.k == "rowstack" and name == "T":
                return mk("colstack", b.a[0])
            if name == "T" and b.k == "transposed":
                return b.a[0]
            if name == "T" and is_num(b) and b.k != "num":
                return mk("transposed", b)
            if b.k == "ext":
                return mk("ext", b.a[0] + "." + name)
            if b.k == "mod":
                m = self.repo.modules.get(b.a[0])
                if m is not None:
                    return self.global_value(name, m.scope)
            return mk("attr", b, name)
        return lift(f, base)

    # ------------------------------------------------------------------ calls
    def call(self, e, env, fr):
        fv = self.eval(e.func, env, fr)
        args, kws = [], []
        bad = False
        for a in e.args:
            if isinstance(a, ast.Starred):
                sv = self.eval(a.value, env, fr)
                if sv.k in ("tup", "list"):
                    args.extend(sv.a[0])
                elif sv.k == "rec":
                    args.extend(v for (_, v) in sv.a[1])
                elif sv.k in ("transposed", "rowstack") and fv.k == "ext" and fv.a[0].split(".")[-1] == "clip" and len(e.args) == 2 and not e.keywords:
                    args.extend([item(sv, 0), item(sv, 1)])     # clip(x, *bounds.T): the two rows are the limits
                else:
                    bad = True
                continue
            args.append(self.eval(a, env, fr))
        for k in e.keywords:
            if k.arg is None:
                bad = True
                continue
            kws.append((k.arg, self.eval(k.value, env, fr)))
        if bad:
            return mk("unk", "star arguments", norm_src(e.func))
        return self.apply(fv, args, kws, e, env, fr)

    def apply(self, fv, args, kws, node, env, fr):
        if fv.k == "ite":
            # a conditional callee: each alternative runs under its own condition (effects -- attribute cells, the must-log of
            # calls -- are merged with that condition as guard)
            c, a, b = fv.a
            ea, eb = env.copy([(c, True)]), env.copy([(c, False)])
            saved = fr.cur
            fr.cur = ea
            ra = self.apply(a, args, kws, node, ea, fr)
            fr.cur = eb
            rb = self.apply(b, args, kws, node, eb, fr)
            fr.cur = saved
            j = self.join([ea, eb], env.pc, label=fr.ctxkey + (getattr(node, "lineno", 0), getattr(node, "col_offset", 0), "callee"))
            env.vars.clear()
            env.vars.update(j.vars)
            env.log.clear()
            env.log.update(j.log)
            return ite(c, ra, rb)
        if fv.k == "fn":
            scope, defframe = self.closures[fv.key]
            m = self.bind(scope, args, kws, fr, env, fv.a[2] if len(fv.a) > 2 else ())
            active = any(f.scope is scope for f in self.stack)
            deliberate = id(scope) in self.opaque or (self.inline is not None and not self.inline(scope))
            if m is None or deliberate or len(self.stack) >= self.max_depth or active:
                ordered = tuple(m[p] for p in scope.params() + scope.kwonly()) if m is not None else tuple(args)
                if deliberate and m is not None:
                    res = lift_call(fv, list(ordered), [])
                else:
                    # a limit of this executor (call that cannot be bound, recursion, inlining depth): the result is not understood
                    why = "arguments not bound" if m is None else ("recursive call" if active else "inlining depth")
                    self.notes_soft.append(f"{scope.qualname} not inlined at {fr.scope.qualname}:{getattr(node, 'lineno', 0)} ({why})")
                    res = mk("call", mk("unk", "not inlined: " + why, scope.qualname), tuple(ordered), tuple(kws if m is None else ()))
                self.event("call", fr, node, env, callee=fv, callee_scope=scope, args=args, kws=kws, bound=m, result=res, inlined=False)
                self._log_call(env, fv, ordered)
                return res
            fr.cur = env
            site = (getattr(node, "lineno", 0), getattr(node, "col_offset", 0))
            res, sub_fr = self._call_scope(scope, m, defframe, site)
            self.event("call", fr, node, env, callee=fv, callee_scope=scope, args=args, kws=kws, bound=m, result=res, inlined=True, subframe=sub_fr.id)
            return res
        if fv.k == "cls":
            # instance of a plain repository class: a fresh object (identified by the creation site); __init__ runs on it
            csc = self.classes[fv.key]
            site = (getattr(node, "lineno", 0), getattr(node, "col_offset", 0))
            obj = mk("obj", csc.qualname, fr.ctxkey + (site,))
            init = _method(csc, "__init__")
            if init is not None:
                r = self.apply(self.fn_term(init), [obj] + list(args), kws, node, env, fr)
                if r.k == "call":
                    return mk("unk", "constructor not executed", csc.qualname)
            elif args or kws:
                return mk("unk", "constructor arguments without __init__", csc.qualname)
            return obj
        if fv.k == "bound":
            return self.apply(fv.a[1], [fv.a[0]] + list(args), kws, node, env, fr)
        if fv.k == "obj":
            call = _method(self._class_of(fv), "__call__") if self._class_of(fv) is not None else None
            if call is not None:
                return self.apply(self.fn_term(call), [fv] + list(args), kws, node, env, fr)
        if fv.k == "partial":
            # functools.partial: the frozen arguments were evaluated where the partial object was made (early binding)
            f0, pa, pk = fv.a
            merged = dict(pk)
            merged.update(dict(kws))
            return self.apply(f0, list(pa) + list(args), list(merged.items()), node, env, fr)
        if fv.k == "ntctor":
            fields = list(fv.a[1])
            m = dict(zip(fields, args))
            for (n, v) in kws:
                m[n] = v
            return mk("rec", fv.a[0], tuple((f, m.get(f, mk("unk", "missing field", f))) for f in fields), len(args) + len(kws))
        if fv.k == "attr" and fv.a[1] == "_replace" and fv.a[0].k == "rec" and not args:
            base = fv.a[0]
            upd = dict(kws)
            return mk("rec", base.a[0], tuple((f, upd.get(f, v)) for (f, v) in base.a[1]), base.a[2])
        if fv.k == "ext":
            r = self.external(fv.a[0], args, kws, node, env, fr)
            if r is not None:
                return r
        if fv.k == "attr" and fv.a[1] in _ARRAY_METHODS and fv.a[0].k not in ("ext", "mod", "dict", "rec"):
            # a method of an array value: the function of the same name applied to it, or a value this executor has no model for
            # (never `some opaque function of the program`)
            r = self.external("numpy." + fv.a[1], [fv.a[0]] + list(args), kws, node, env, fr) if fv.a[1] in _ARRAY_METHODS_AS_FUNCTIONS else None
            if r is not None:
                return r
            res = lift_call(mk("unk", "array method", fv.a[1]), [fv.a[0]] + list(args), kws)
            self.event("call", fr, node, env, callee=fv, callee_scope=None, args=args, kws=kws, bound=None, result=res, inlined=False)
            return res
        if fv.k == "attr" and fv.a[1] == "get" and fv.a[0].k == "dict" and 1 <= len(args) <= 2 and not kws:
            return dict_lookup(fv.a[0], args[0], args[1] if len(args) == 2 else NONE)
        res = lift_call(fv, args, kws)
        self.event("call", fr, node, env, callee=fv, callee_scope=None, args=args, kws=kws, bound=None, result=res, inlined=False)
        self._log_call(env, fv, tuple(args))
        return res

    def _root_finder_event(self, name, args, kw, node, env, fr, result):
        """The call `finder(f, a, b, args=...)` as an event `rootfind`, with the callable evaluated at both bracket ends.  The
        evaluation runs on a private copy of the state and leaves no events / effects behind; an end value is None when the callable
        could not be applied (then nothing is known about its sign there)."""
        more = kw.get("args")
        more = [] if more is None else (list(more.a[0]) if more.k in ("tup", "list") else None)
        vals = []
        for end in (args[1], args[2]):
            v = None
            if more is not None and args[0].k in ("fn", "partial", "bound", "obj", "ite"):
                saved = (self.events, list(self.notes_soft), fr.cur)
                self.events = []
                try:
                    e2 = env.copy()
                    fr.cur = e2
                    v = self.apply(args[0], [end] + more, [], node, e2, fr)
                finally:
                    self.events, self.notes_soft, fr.cur = saved
            vals.append(v)
        self.event("rootfind", fr, node, env, finder=name, f=args[0], a=args[1], b=args[2], fa=vals[0], fb=vals[1], result=result)

    def _log_call(self, env, fv, args):
        if fv.k != "ite":
            env.log[("called", fv.key) + tuple(a.key for a in args)] = TRUE

    def external(self, name, args, kws, node, env, fr):
        last = name.split(".")[-1]
        n = len(args)
        kw = dict(kws)
        if last == "partial" and n >= 1 and name.split(".")[0] in ("functools", "partial"):
            return lift(lambda f0: mk("partial", f0, tuple(args[1:]), tuple(kws)), args[0])
        if last == "clip" and n >= 1 and n + len(kw) == 3:
            lo = args[1] if n > 1 else kw.get("a_min", kw.get("min"))
            hi = args[2] if n > 2 else kw.get("a_max", kw.get("max"))
            if lo is not None and hi is not None:
                return clip_(args[0], lo, hi)
        if last == "stack" and n == 1 and set(kw) == {"axis"} and args[0].k in ("tup", "list"):
            ax = const_of(kw["axis"])
            if ax in (1, -1):
                return mk("colstack", args[0].a[0])
            if ax == 0:
                return mk("rowstack", args[0].a[0])
        if last == "bool" and n == 1 and not kws:
            return truth(args[0])
        if last in _ROOT_FINDERS and n == 3 and set(kw) <= {"args", "full_output", "xtol", "rtol", "maxiter", "disp"}:
            # a bracketing root finder: some scalar of the bracket [a, b] (what it is a root of is not decided here)
            fo = kw.get("full_output", FALSE)
            if fo.k == "const":
                extra = tuple((k, v) for (k, v) in kws if k != "full_output")
                r = lift(lambda f0, a0, b0: mk("root", f0, a0, b0, extra), args[0], args[1], args[2])
                self._root_finder_event(name, args, kw, node, env, fr, r)
                return mk("tup", (r, mk("opq", "root finder report", r.key))) if fo.a[0] else r
        if last == "setattr" and n == 3 and not kws and args[1].k == "const" and isinstance(args[1].a[0], str) and args[0].k != "ite":
            env.vars[(args[0].key, args[1].a[0])] = args[2]
            self.event("setattr", fr, node, env, base=args[0], attr=args[1].a[0], value=args[2])
            return NONE
        if last == "getattr" and n in (2, 3) and not kws and args[1].k == "const" and isinstance(args[1].a[0], str):
            return self.attr(args[0], args[1].a[0], env)
        if last in ("logical_or", "logical_and") and n == 2 and not kws:
            return or_(args) if last == "logical_or" else and_(args)
        if last == "logical_not" and n == 1 and not kws:
            return not_(args[0])
        if last == "cond" and n >= 3 and not kws and name.split(".")[0] in ("jax", "lax"):
            # jax.lax.cond(pred, true_fun, false_fun, *operands)
            c = _atomic(truth(args[0]))
            ops = list(args[3:])
            return ite(c, self.apply(args[1], ops, [], node, env.copy([(c, True)]), fr), self.apply(args[2], ops, [], node, env.copy([(c, False)]), fr))
        if last in ("where", "select") and n == 3 and not kws:
            # elementwise selection: every component is a component of one of the two operands (exact for scalars; for box
            # membership a componentwise mixture of two box points is a box point)
            def sel(c, a, b):
                r = _where_minmax(truth(c), a, b)
                return r if r is not None else ite(_atomic(truth(c)), a, b)
            return lift(sel, args[0], args[1], args[2])
        if kws and last not in ("norm",):
            return None
        if last in ("minimum", "min") and n == 2:
            return minimum(args[0], args[1])
        if last in ("maximum", "max") and n == 2:
            return max_(args[0], args[1])
        if last == "clip" and n == 3:
            return clip_(args[0], args[1], args[2])
        if last == "norm" and n == 1 and not kws:
            return norm_(args[0])
        if last == "norm" and ((n == 2 and not kws and const_of(args[1]) == 2) or
                               (n == 1 and len(kws) == 1 and kws[0][0] == "ord" and (const_of(kws[0][1]) == 2 or kws[0][1] is NONE))):
            return norm_(args[0])
        if last == "sqrt" and n == 1:
            return sqrt_(args[0])
        if last in ("abs", "absolute", "fabs") and n == 1:
            return lift(lambda a: mk("abs", a), args[0])
        if last in ("dot", "vdot", "inner") and n == 2:
            return dot(args[0], args[1])
        if last == "square" and n == 1:
            return power(args[0], const(2))
        if last == "sum" and n == 1 and not kws:
            # sum(v*v) == v@v  (the summand is the elementwise square of one vector)
            def ssum(x):
                r = _square_root_poly(x) if is_num(x) and x.k == "num" else None
                return dot(r, r) if r is not None else mk("call", mk("ext", name), (x,), ())
            return lift(ssum, args[0])
        if last in ("vstack", "row_stack") and n == 1 and args[0].k in ("tup", "list"):
            return mk("rowstack", args[0].a[0])
        if last in ("array", "asarray") and n == 1 and args[0].k == "list" and len(args[0].a[0]) == 2:
            return mk("rowstack", args[0].a[0])
        if last == "transpose" and n == 1 and args[0].k == "rowstack":
            return mk("colstack", args[0].a[0])
        if last == "transpose" and n == 1 and not kws:
            return self.attr(args[0], "T", env)
        if last in ("copy", "astype") and n >= 1:
            return args[0]
        if last == "column_stack" and n == 1:
            return lift(lambda a: mk("colstack", a.a[0]) if a.k in ("tup", "list") else mk("call", mk("ext", name), (a,), ()), args[0])
        if last in ("array", "asarray", "float", "float64", "float_") and n == 1:
            return args[0]
        if last == "print":
            return NONE
        if last in ("isinstance", "callable", "len", "range", "deque", "exit", "RuntimeError", "ValueError"):
            return None
        return None


def _where_minmax(c, a, b):
    """Elementwise selections that are a minimum / maximum (operands are single cases):
         where(v > B, B, v) == minimum(v, B)          where(v < B, B, v) == maximum(v, B)          (and the mirrored tests / swapped branches)
         where(v < lo, lo, minimum(v, hi)) == maximum(lo, minimum(v, hi))   (lo <= hi assumed), likewise for the upper side;
    maximum(lo, minimum(v, hi)) is then recognised as clamp(v, lo, hi) by max_ / minimum."""
    if c.k == "not":
        c, a, b = c.a[0], b, a
    if c.k != "cmp" or c.a[0] not in ("lt", "le"):
        return None
    l, r = c.a[1], c.a[2]                       # l < r  (or <=): when true the result is a
    for (v, B, v_is_small) in ((l, r, True), (r, l, False)):
        # v_is_small: the test says v is below B
        if a.key == B.key and b.key == v.key:
            return max_(v, B) if v_is_small else minimum(v, B)        # below the bound -> the bound : maximum
        if a.key == v.key and b.key == B.key:
            return minimum(v, B) if v_is_small else max_(v, B)        # below the bound -> v itself : minimum
        for (bound_branch, other, test_true) in ((a, b, True), (b, a, False)):
            if bound_branch.key != B.key or other.k not in ("min", "max"):
                continue
            if v.key not in (other.a[0][0].key, other.a[0][1].key):
                continue
            below = v_is_small == test_true     # the bound is chosen when v is below it
            if below and other.k == "min":
                return max_(B, other)
            if not below and other.k == "max":
                return minimum(B, other)
    return None


def _square_root_poly(x):
    """x == L*L for a polynomial L that is linear in its atoms -> the term L, else None"""
    from math import isqrt
    p = poly(x)
    lin = {}
    for m, c in p.t.items():
        if len(m) == 1 and m[0][1] == 2:
            if c <= 0:
                return None
            c = Fraction(c)
            rn, rd = isqrt(c.numerator), isqrt(c.denominator)
            if rn * rn != c.numerator or rd * rd != c.denominator:
                return None
            lin[m[0][0]] = Fraction(rn, rd)
    if not lin:
        return None
    keys = sorted(lin)
    # signs relative to the first atom from the cross terms
    first = keys[0]
    for k in keys[1:]:
        m = tuple(sorted(((first, 1), (k, 1))))
        c = p.t.get(m, 0)
        if c < 0:
            lin[k] = -lin[k]
    L = Poly()
    for k, c in lin.items():
        L = L + Poly({((k, 1),): c})
    if not (L * L - p).is_zero():
        return None
    return num(L)


def dict_lookup(d, key, default):
    """d[key] / d.get(key, default) of a dict display: a decision list over the keys (boolean keys: on the truth value of the key
    expression; other constant keys: on equality).  A key that may be missing without a default gives an unknown."""
    def f(k):
        entries = list(d.a[0])
        miss = default if default is not None else mk("unk", "key not in dict", k.key)
        ck = k.a[0] if k.k == "const" else const_of(k)
        res = miss
        if all(kk is TRUE or kk is FALSE for (kk, _) in entries):
            if k.k in BOOL_KINDS or (k.k == "const" and isinstance(k.a[0], bool)):
                t = next((v for (kk, v) in entries if kk is TRUE), miss)
                e = next((v for (kk, v) in entries if kk is FALSE), miss)
                return ite(k, t, e)
            return mk("unk", "dict with boolean keys indexed by a non-boolean", k.key)
        for (kk, v) in reversed(entries):
            c = cmp_("eq", k, kk)
            res = ite(c, v, res) if c.k in BOOL_KINDS + ("const",) else mk("unk", "dict key comparison", k.key)
        return res
    return lift(f, key)


def _plain_class(csc):
    """A class this executor can instantiate: no base classes (other than object), no decorators, no metaclass; its methods are plain
    functions (no decorators: no properties, static or class methods)."""
    n = csc.node
    if not isinstance(n, ast.ClassDef) or n.decorator_list or n.keywords:
        return False
    if any(not (isinstance(b, ast.Name) and b.id == "object") for b in n.bases):
        return False
    for ch in csc.children:
        if ch.kind == "function" and getattr(ch.node, "decorator_list", None):
            return False
    return True


def _method(csc, name):
    for ch in csc.children:
        if ch.kind == "function" and ch.name == name:
            return ch
    return None


def _crc(x):
    import zlib
    return zlib.crc32(x.encode()) % 100000


def _box_generalize(cases, label, name, own=None, conds=None):
    """K + phiF(label, name) when every case is K + a convex combination of points of one box (K common to all cases: the terms
    without a box point and bare box points with a negative coefficient), else None."""
    own = own or (lambda t: False)
    if not cases or not all(is_num(c) and c.k != "unk" for c in cases):
        return None
    # candidate offsets K: nothing; the part common to all cases that carries no box point (or a bare box point with a negative
    # coefficient); minus one box point X (the cases are then steps away from X: X + case must be convex)
    cands = [Poly()]
    first = poly(cases[0])
    common = Poly()
    for m, c in first.t.items():
        fs = [a for (a, e) in m if _BYKEY[a].k in F_KINDS]
        bare_neg = len(m) == 1 and m[0][1] == 1 and c < 0
        if (not fs or bare_neg) and all(poly(x).t.get(m) == c for x in cases):
            common = common + Poly({m: c})
    if not common.is_zero():
        cands.append(common)
    anchors = []
    for x in cases:
        for m, c in poly(x).t.items():
            if len(m) == 1 and m[0][1] == 1 and c < 0 and _BYKEY[m[0][0]].k in F_KINDS and m[0][0] not in anchors:
                anchors.append(m[0][0])
    for a in anchors:
        k = Poly({((a, 1),): Fraction(-1)})
        if not any(k == c for c in cands):
            cands.append(k)
    for K in cands:
        if not K.is_zero() and own(num(K)):
            continue
        boxes = set()
        ok = True
        for i, x in enumerate(cases):
            r = convex(num(poly(x) - K), facts=conds[i] if conds else ())
            if not r.ok or r.box is None:
                ok = False
                break
            boxes.add((r.box[0].key, r.box[1].key))
        if ok and len(boxes) == 1:
            lo, hi = (term(b) for b in next(iter(boxes)))
            if own(lo) or own(hi):
                continue
            return num(K + poly(mk("phiF", label, name, lo, hi)))
    return None


_ROOT_FINDERS = {"brentq", "brenth", "bisect", "ridder", "toms748"}
_ARRAY_METHODS_AS_FUNCTIONS = {"clip", "dot", "transpose", "copy", "astype"}
_ARRAY_METHODS = _ARRAY_METHODS_AS_FUNCTIONS | {
    "sum", "prod", "mean", "min", "max", "argmin", "argmax", "reshape", "ravel", "flatten", "squeeze", "take", "item", "tolist", "fill",
    "cumsum", "cumprod", "round", "conj", "real", "imag", "all", "any", "nonzero", "repeat", "swapaxes", "set", "add", "multiply",
    "at", "block_until_ready", "view", "sort", "argsort", "std", "var", "ptp", "trace", "diagonal", "compress", "put", "searchsorted"}
_MUTATORS = {"append", "appendleft", "extend", "update", "pop", "popleft", "popitem", "clear", "insert", "remove", "setdefault", "sort",
             "reverse", "add", "discard"}


def _as_load(t):
    import copy
    t2 = copy.deepcopy(t)
    for n in ast.walk(t2):
        if hasattr(n, "ctx"):
            n.ctx = ast.Load()
    return t2


def _target_names(t):
    out = []
    for n in ast.walk(t):
        if isinstance(n, ast.Name):
            out.append(n.id)
    return out


def _assigned_names(stmts):
    """Plain names (re)bound by the statements (nested function bodies excluded, their names included)."""
    out = []

    def add_(n):
        if n not in out:
            out.append(n)
    for n in walk_local(list(stmts)):
        if isinstance(n, ast.Name) and isinstance(n.ctx, ast.Store):
            add_(n.id)
        elif isinstance(n, (ast.FunctionDef, ast.AsyncFunctionDef, ast.ClassDef)):
            add_(n.name)
        elif isinstance(n, ast.Expr) and isinstance(n.value, ast.Call) and isinstance(n.value.func, ast.Attribute) \
                and isinstance(n.value.func.value, ast.Name) and n.value.func.attr in _MUTATORS:
            add_(n.value.func.value.id)
    return out


def _kname(k):
    return k if isinstance(k, str) else f"{show(_BYKEY[k[0]])}.{k[1]}"


def _shape(e):
    """Name-free shape of an expression (names replaced by a placeholder)."""
    import copy
    e2 = copy.deepcopy(e)
    for n in ast.walk(e2):
        if isinstance(n, ast.Name):
            n.id = "_"
        elif isinstance(n, ast.arg):
            n.arg = "_"
    try:
        return ast.unparse(e2)
    except Exception:
        return type(e).__name__


def brief(t, n=110, depth=4) -> str:
    """Short rendering for messages."""
    x = show(t, 7 - depth)
    return x if len(x) <= n else x[:n - 3] + "..."
