"""C20_np -- NumPy shape semantics on symbolic shapes (used by rules/C20_eval.py).

Every function takes the interpreter `I` first (for sign decisions on polynomials: `I.same(p, q)` -> True / False / None).
A shape is a tuple of optilint.expr.Poly.  Mismatching *constant* extents are a ProgramError (NumPy raises); mismatching symbolic
extents are a ProgramError only if all symbols involved are independent size symbols of the situation (then an instance exists for
which NumPy raises), otherwise Undecidable.
"""
from __future__ import annotations

from optilint.expr import Poly, poly_div_exact
from .C20_interp import (Int, Scalar, Arr, ListV, Undecidable, ProgramError, PC, ZERO, ONE, pconst, const_of, Opaque, RangeV, SliceV)


def prod(shape):
    r = ONE
    for d in shape:
        r = r * d
    return r


def shape_of(I, v):
    """shape of an array-like value"""
    if isinstance(v, Arr):
        return v.shape
    if isinstance(v, (Int, Scalar, bool, float)):
        return ()
    if isinstance(v, tuple) or (isinstance(v, ListV) and v.items is not None):
        items = v if isinstance(v, tuple) else v.items
        if not items:
            return (ZERO,)
        shapes = [shape_of(I, x) for x in items]
        s0 = shapes[0]
        for s in shapes[1:]:
            if len(s) != len(s0):
                raise ProgramError(f"array from a ragged nested sequence (entries of {len(s0)} and {len(s)} dimensions)")
            for a, b in zip(s0, s):
                require_equal(I, a, b, "array from a ragged nested sequence")
        return (PC(len(items)),) + tuple(s0)
    if isinstance(v, ListV):
        shapes = [tuple(shape_of(I, e)) for (e, _c, _k) in v.segs]
        for s in shapes[1:]:
            if len(s) != len(shapes[0]):
                raise ProgramError("array from a ragged nested sequence")
            for a, b in zip(shapes[0], s):
                require_equal(I, a, b, "array from a ragged nested sequence")
        return (v.length(),) + (shapes[0] if shapes else ())
    if isinstance(v, RangeV):
        return (v.stop.p - v.start.p,)
    raise Undecidable(f"not an array-like value: {v!r}")


def require_equal(I, a, b, what):
    r = I.same(a, b)
    if r is True:
        return
    if r is False:
        raise ProgramError(f"{what}: extents {I.show(a)} and {I.show(b)} differ")
    if I.independent(a - b):
        raise ProgramError(f"{what}: extents {I.show(a)} and {I.show(b)} differ (they are independent sizes)")
    raise Undecidable(f"{what}: cannot compare the extents {I.show(a)} and {I.show(b)}")


def dims_of(I, v, what="shape"):
    """a shape argument: Int | tuple/list of Int -> tuple of Poly; -1 entries are returned as None"""
    if isinstance(v, Int):
        v = (v,)
    if isinstance(v, ListV) and v.items is not None:
        v = tuple(v.items)
    if not isinstance(v, tuple):
        raise Undecidable(f"{what} argument is not a tuple of integers: {v!r}")
    out = []
    for d in v:
        if not isinstance(d, Int):
            raise Undecidable(f"{what} entry is not an integer: {d!r}")
        out.append(None if pconst(d.p) == -1 else d.p)
    return tuple(out)


def as_arr(I, v, copy=True):
    if isinstance(v, Arr) and not copy:
        return v
    fill = v if isinstance(v, Int) else (v.fill if isinstance(v, Arr) else None)
    return Arr(shape_of(I, v), fill=fill)


def np_full(I, shape, value=None):
    dims = dims_of(I, shape)
    if any(d is None for d in dims):
        raise ProgramError("negative dimension in an array shape")
    return Arr(dims, fill=value if isinstance(value, Int) else None)


def atleast(I, v, nd):
    a = v if isinstance(v, Arr) else as_arr(I, v)
    s = a.shape
    if len(s) >= nd:
        return a
    if nd == 1:
        new = (ONE,)
    elif nd == 2:
        new = (ONE, ONE) if len(s) == 0 else (ONE, s[0])
    else:
        new = (ONE, ONE, ONE) if len(s) == 0 else (ONE, s[0], ONE) if len(s) == 1 else (s[0], s[1], ONE)
    return Arr(new, base=a if isinstance(v, Arr) else None, fill=a.fill)


class Times:
    """`count` consecutive blocks that all look like `value` (a stretch of a list of unknown length handed to a stacking function)"""
    def __init__(self, value, count):
        self.value, self.count = value, count


def seq_items(I, parts, what):
    if isinstance(parts, ListV) and parts.items is not None:
        parts = tuple(parts.items)
    if isinstance(parts, ListV):
        out = []
        for (e, c, _k) in parts.segs:
            s = I.sign(c)
            if s == "zero":
                continue
            if s not in ("pos", "nonneg"):
                raise Undecidable(f"{what}: number of blocks not decided")
            out.append(e if pconst(I.norm(c)) == 1 else Times(e, c))
        parts = tuple(out)
        if not parts:
            raise Undecidable(f"{what} of a possibly empty sequence")
        if all(isinstance(p, Times) and I.sign(p.count) != "pos" for p in parts):
            raise Undecidable(f"{what} of a possibly empty sequence")
        return parts
    if not isinstance(parts, tuple):
        raise Undecidable(f"{what}: the blocks are not given as a tuple / list")
    if not parts:
        raise ProgramError(f"{what} of an empty sequence")
    return parts


def _map_part(p, f):
    return Times(f(p.value), p.count) if isinstance(p, Times) else f(p)


def concat(I, parts, axis, what="concatenate"):
    counts = [p.count if isinstance(p, Times) else ONE for p in parts]
    parts = [p.value if isinstance(p, Times) else p for p in parts]
    arrs = [p if isinstance(p, Arr) else as_arr(I, p) for p in parts]
    nd = len(arrs[0].shape)
    if nd == 0:
        raise ProgramError(f"{what}: zero-dimensional arrays cannot be concatenated")
    for a in arrs[1:]:
        if len(a.shape) != nd:
            raise ProgramError(f"{what}: blocks of {nd} and {len(a.shape)} dimensions")
    if axis < 0:
        axis += nd
    if not 0 <= axis < nd:
        raise ProgramError(f"{what}: axis {axis} out of bounds for {nd} dimensions")
    out = list(arrs[0].shape)
    out[axis] = out[axis] * counts[0]
    for a, c in zip(arrs[1:], counts[1:]):
        for k in range(nd):
            if k == axis:
                out[k] = out[k] + a.shape[k] * c
            else:
                require_equal(I, arrs[0].shape[k], a.shape[k], f"{what}: extent along axis {k}")
    res = Arr(out)
    # column structure of an axis-1 concatenation of 2-D blocks (kept for the connectivity record check)
    if nd == 2 and axis == 1 and all(pconst(c) == 1 for c in counts):
        cols = []
        for a in arrs:
            cols.extend(getattr(a, "cols", None) or [(a.shape[1], a.fill)])
        res.cols = cols
    elif all(a.fill is not None for a in arrs) and all(I.same(a.fill.p, arrs[0].fill.p) is True for a in arrs):
        res.fill = arrs[0].fill
    return res


def np_vstack(I, parts):
    parts = seq_items(I, parts, "vstack")
    return concat(I, [_map_part(p, lambda v: atleast(I, v, 2)) for p in parts], 0, "vstack")


def np_hstack(I, parts):
    parts = seq_items(I, parts, "hstack")
    arrs = [_map_part(p, lambda v: atleast(I, v, 1)) for p in parts]
    first = arrs[0].value if isinstance(arrs[0], Times) else arrs[0]
    return concat(I, arrs, 0 if len(first.shape) == 1 else 1, "hstack")


def np_column_stack(I, parts):
    parts = seq_items(I, parts, "column_stack")
    if any(isinstance(p, Times) for p in parts):
        raise Undecidable("column_stack of a list of unknown length")
    arrs = []
    for p in parts:
        a = p if isinstance(p, Arr) else as_arr(I, p)
        if len(a.shape) < 2:
            a1 = atleast(I, a, 1)
            a = Arr((a1.shape[0], ONE), fill=a1.fill)
        arrs.append(a)
    return concat(I, arrs, 1, "column_stack")


def np_stack(I, parts, axis=0):
    parts = seq_items(I, parts, "stack")
    if any(isinstance(p, Times) for p in parts):
        raise Undecidable("stack of a list of unknown length")
    arrs = [p if isinstance(p, Arr) else as_arr(I, p) for p in parts]
    s0 = arrs[0].shape
    for a in arrs[1:]:
        if len(a.shape) != len(s0):
            raise ProgramError("stack: blocks of different dimensions")
        for x, y in zip(s0, a.shape):
            require_equal(I, x, y, "stack")
    nd = len(s0) + 1
    if axis < 0:
        axis += nd
    if not 0 <= axis < nd:
        raise ProgramError(f"stack: axis out of bounds for {nd} dimensions")
    out = list(s0)
    out.insert(axis, PC(len(arrs)))
    return Arr(out)


def np_tile(I, a, reps):
    arr = a if isinstance(a, Arr) else as_arr(I, a)
    r = dims_of(I, reps, "tile reps")
    if any(x is None for x in r):
        raise Undecidable("tile with negative reps")
    s = list(arr.shape)
    d = max(len(s), len(r))
    s = [ONE] * (d - len(s)) + s
    r = [ONE] * (d - len(r)) + list(r)
    return Arr([x * y for x, y in zip(s, r)], fill=arr.fill if isinstance(a, Arr) else (a if isinstance(a, Int) else None))


def np_repeat(I, a, n, axis=None):
    arr = a if isinstance(a, Arr) else as_arr(I, a)
    if not isinstance(n, Int):
        raise Undecidable("repeat with a non-scalar count")
    if axis is None:
        return Arr((prod(arr.shape) * n.p,), fill=arr.fill)
    s = list(arr.shape) or [ONE]
    if axis < 0:
        axis += len(s)
    if not 0 <= axis < len(s):
        raise ProgramError("repeat: axis out of bounds")
    s[axis] = s[axis] * n.p
    return Arr(s, fill=arr.fill)


def np_reshape(I, a, newshape):
    arr = a if isinstance(a, Arr) else as_arr(I, a)
    dims = list(dims_of(I, newshape, "reshape"))
    total = prod(arr.shape)
    unknown = [k for k, d in enumerate(dims) if d is None]
    if len(unknown) > 1:
        raise ProgramError("reshape: can only specify one unknown dimension")
    if unknown:
        rest = prod([d for d in dims if d is not None])
        if rest.is_zero():
            raise Undecidable("reshape(-1) next to a zero extent")
        q = poly_div_exact(total, rest)
        if q is None:
            raise Undecidable(f"reshape: {I.show(total)} entries are not a symbolic multiple of {I.show(rest)}")
        if pconst(rest) not in (None, 1):
            # divisibility of a symbolic total by a constant: every monomial coefficient must stay integral
            if any(c.denominator != 1 for c in q.t.values()):
                raise Undecidable(f"reshape: cannot show that {I.show(total)} is divisible by {I.show(rest)}")
        dims[unknown[0]] = q
    else:
        require_equal(I, total, prod(dims), "reshape: total size")
    return Arr(dims, base=arr if isinstance(a, Arr) else None, fill=arr.fill)


def np_arange(I, args):
    if len(args) == 1 and isinstance(args[0], Int):
        return Arr((args[0].p,))
    if len(args) == 2 and all(isinstance(x, Int) for x in args):
        return Arr((args[1].p - args[0].p,))
    raise Undecidable("arange with non-integer / stepped arguments")


def broadcast(I, s1, s2, what="broadcast"):
    n = max(len(s1), len(s2))
    a = [ONE] * (n - len(s1)) + list(s1)
    b = [ONE] * (n - len(s2)) + list(s2)
    out = []
    for x, y in zip(a, b):
        if pconst(x) == 1:
            out.append(y)
        elif pconst(y) == 1:
            out.append(x)
        else:
            require_equal(I, x, y, f"{what}: operands cannot be broadcast together")
            out.append(x)
    return tuple(out)


def elementwise(I, *vals):
    """result of an elementwise operation: broadcast shape (Scalar when all operands are scalars)"""
    shapes = [shape_of(I, v) for v in vals]
    s = ()
    for t in shapes:
        s = broadcast(I, s, t)
    if not s and not any(isinstance(v, Arr) for v in vals):
        return Scalar("num")
    return Arr(s)


def slice_len(I, sl, dim):
    """length of dim[sl] for a SliceV"""
    lo, hi, st = sl.lo, sl.hi, sl.step
    if st is not None and const_of(st) != 1:
        raise Undecidable("stepped slice")
    if lo is None and hi is None:
        return dim
    lo_p = lo.p if isinstance(lo, Int) else (ZERO if lo is None else None)
    hi_p = hi.p if isinstance(hi, Int) else (dim if hi is None else None)
    if lo_p is None or hi_p is None:
        raise Undecidable("slice bound is not an integer")
    for p in (lo_p, hi_p):
        if I.sign(p) not in ("zero", "pos", "nonneg"):
            raise Undecidable("slice with a possibly negative bound")
    # within bounds?
    if I.sign(dim - hi_p) in ("zero", "pos", "nonneg") and I.sign(hi_p - lo_p) in ("zero", "pos", "nonneg"):
        return hi_p - lo_p
    raise Undecidable(f"slice [{I.show(lo_p)}:{I.show(hi_p)}] of an axis of extent {I.show(dim)}: cannot decide the clipped length")


def getitem(I, arr: Arr, key):
    """NumPy indexing on shapes.  key: value or tuple of values (SliceV for slices)."""
    keys = key if isinstance(key, tuple) else (key,)
    shape = list(arr.shape)
    # expand Ellipsis
    n_real = sum(1 for k in keys if k is not None and k is not Ellipsis)
    if any(k is Ellipsis for k in keys):
        i = [j for j, k in enumerate(keys) if k is Ellipsis][0]
        keys = keys[:i] + (SliceV(None, None, None),) * (len(shape) - n_real) + keys[i + 1:]
    if n_real > len(shape):
        raise ProgramError(f"too many indices for an array of {len(shape)} dimensions")
    out = []
    ax = 0
    adv = 0
    view = True
    for k in keys:
        if k is None:
            out.append(ONE)
            continue
        d = shape[ax]
        if _is_slice(k):
            out.append(slice_len(I, k, d))
        elif isinstance(k, (Int, Scalar)):
            pass                                    # integer index: axis dropped
        elif isinstance(k, (Arr, ListV, tuple, RangeV)):
            s = shape_of(I, k)
            adv += 1
            view = False
            if adv > 1:
                raise Undecidable("more than one index array")
            if isinstance(k, Arr) and getattr(k, "isbool", False):
                raise Undecidable("boolean mask index: number of selected entries unknown")
            out.extend(s)
        else:
            raise Undecidable(f"unsupported index {k!r}")
        ax += 1
    out.extend(shape[ax:])
    if not out and all(isinstance(k, (Int, Scalar)) for k in keys):
        return Scalar("num") if arr.fill is None else arr.fill
    return Arr(out, base=arr if view else None, fill=arr.fill)


def _is_slice(k):
    return isinstance(k, SliceV)
