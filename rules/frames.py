"""Configuration-frame typing of the finite-deformation models (objectivity / isotropy at the level of tensor
expressions), decided by *interpreting the models themselves*.

Every material factory is called (optilint.tensoreval.Interp, the library is never executed) for every option scenario that
is enumerated from its source, and the closures it returns -- the public `MaterialModel` interface
compute_energy_density / compute_state_new -- are interpreted on *frame-typed symbolic inputs*:

    displacement gradient   H = F - 1        F : [spatial S, reference R]
    internal state          a vector of opaque cells; nine consecutive cells that the model reshapes to 3x3 are a
                            stored tensor P_k : [intermediate I_k, R]  (multiplicative distortion, own intermediate
                            configuration for every slot)  or  [R, R]  (additive strain); the typing that is consistent
                            is *inferred*: a model is refuted only if no admissible typing of its state exists
    everything else         exact rational scalars over named positive symbols (material constants, dt, phase, ...)

Matrix values are non-commutative polynomials in typed letters (`NC`).  Transposes / inverses swap the frames, the
identity is the empty word (polymorphic), spectral functions / expm / inverses of sums create fresh letters of the
frames of their argument (memoised on the argument, so the same strain computed twice is the same letter).  Scalars
created from tensors are atoms: tr[w] of a closed word (cyclic + transpose canonical form), det[X], components
c!<w>[i,j] (with c[2,2] := tr - c[0,0] - c[1,1], so hand-written traces cancel), opaque functions of scalars.
Helpers, loops, comprehensions, tuples / NamedTuples, functools.partial, lax.cond / where on symbolic conditions (both
branches are interpreted and joined), `.at[].set`, hstack ... are *followed*, never matched: a refactoring that moves code
between functions, renames things or changes the idiom leaves the derived values unchanged.

Closed-form 3x3 helpers that read single components (determinant, inverse, trace, second invariant, det(A+1)-1 ...) are recognised by
their *value on a generic symbolic matrix* (`recognise_helper`), not by their names or modules; det(c 1 + W) is expanded by
Cayley-Hamilton so that expansions in H = F - 1 come back to invariants of F.  Only `TensorMath.symmetric_matrix_function` (the
spectral-function primitive) is a named transfer function.

Derived facts and verdicts (REFUTED only for a derived contradiction, PROVED only symbolically):
  * a spectral function / matrix exponential / inverse of a sum / element-wise selection is applied to a tensor that is not a tensor of
    ONE pair of frames (adjacent indices of a product in different frames, sum of different frames), or a spectral function to a
    tensor that is not an endomorphism of one frame                                           -> REFUTED at that expression;
  * scalars (energy, stored scalars): PROVED when built from invariants only.  When non-invariant atoms (tr!<w>, c!<w>[i,j], det!<p>)
    survive all cancellation, the derived expression is *evaluated at generic pseudo-random tensors before and after a rotation of
    each frame* (every letter transforms by the law its frame type asserts, `Sampler`): a change of the value, or of a quantity
    the value switches on, is an explicit witness                                              -> REFUTED (named: which quantity, which frame);
    no change                                                                                 -> UNDECIDED (cancellation not proved);
  * the tensor written to slot k of the new state: PROVED when it has the frames of the tensor read from slot k (no spatial
    index if the slot is never read as a tensor); otherwise the same evaluation decides whether it transforms like the stored
    tensor: a rotation under which it does not                                                -> REFUTED, none found -> UNDECIDED;
  * anything the interpreter does not understand                                              -> UNDECIDED (never a violation).
The stored tensors are typed [I_k, R]; only a stored tensor that is never multiplied with / inverted against another tensor (it is
merely added to strains) may alternatively be typed [R, R]; the typing with the better verdicts is reported.
A sub-computation all of whose inputs are frame invariant (root finders, hardening laws, ...) is invariant whatever it
computes (parametricity); when it cannot be interpreted it evaluates to an opaque invariant value.
Scenarios whose option *declares* geometrically linear kinematics ('kinematics': 'small deformations', 'strain measure': 'linear',
or the default that runs the same code) are outside the property ("formulated in finite deformations") and are not obligations.
"""
from __future__ import annotations

import ast
import math
from fractions import Fraction

from optilint.expr import Rat, Poly, NotPolynomial, simplify
from optilint.model import norm_src
from optilint.tensoreval import (Interp, Dual, Arr, EvalError, Raised, Closure, PyFunc, Ext, Record, Deriv, Vmapped, Env,
                                 AtProxy, AtIndexed, NamedTupleVal, _A, rat_const, rat_sign, rat_is_zero, R)
from . import materials as mt

A = _A
S, Rf, If = "S", "R", "I"
MARK = "!<"           # every atom that is NOT invariant under a rotation of a frame contains this marker
GEOM_LINEAR = {("kinematics", "small deformations"), ("strain measure", "linear")}     # options that declare geometrically linear kinematics
MAX_PATHS = 24


class FrameError(Exception):
    def __init__(self, node, msg, scope=None):
        super().__init__(msg)
        self.node, self.msg, self.scope = node, msg, scope


# ------------------------------------------------------------------------------------------------ letters and words
# a letter is (base, transposed, inverted); the table `bases` of the interpreter gives the frames of the base letter

def lname(x):
    b, t, i = x
    return b + ("^-T" if t and i else "^T" if t else "^-1" if i else "")


def wname(w):
    return ".".join(lname(x) for x in w) or "1"


class NC:
    """sum of coef * word ; word = tuple of letters, coef = exact rational normal form (Rat)."""

    def __init__(self, terms=None):
        self.t = {w: c for w, c in (terms or {}).items() if not A.is_zero(c)}

    @staticmethod
    def ident():
        return NC({(): A.const(1)})

    @staticmethod
    def letter(x):
        return NC({(x,): A.const(1)})

    def __add__(self, o):
        d = dict(self.t)
        for w, c in o.t.items():
            d[w] = simplify(A.norm(d[w] + c)) if w in d else c
        return NC(d)

    def scale(self, c: Rat):
        return NC({w: simplify(A.norm(v * c)) for w, v in self.t.items()})

    def __neg__(self):
        return self.scale(A.const(-1))

    def mul(self, o):
        d = {}
        for w1, c1 in self.t.items():
            for w2, c2 in o.t.items():
                w = _cancel(w1 + w2)
                d[w] = simplify(A.norm(d[w] + c1 * c2)) if w in d else simplify(A.norm(c1 * c2))
        return NC(d)

    def same(self, o):
        return set(self.t) == set(o.t) and all(A.equal(c, o.t[w]) for w, c in self.t.items())

    def key(self):
        return " + ".join(f"({self.t[w]!r})*{wname(w)}" for w in sorted(self.t)) or "0"

    def __repr__(self):
        return self.key()


def _cancel(w):
    out = []
    for x in w:
        if out and out[-1][0] == x[0] and out[-1][1] == x[1] and out[-1][2] != x[2]:
            out.pop()
        else:
            out.append(x)
    return tuple(out)


# ------------------------------------------------------------------------------------------------ values

class Tens:
    """a 3x3 tensor value"""
    __slots__ = ("p",)

    def __init__(self, p: NC):
        self.p = p

    def __repr__(self):
        return f"<tensor {self.p.key()[:80]}>"


class TC:
    """k-th entry (row major) of the flattened tensor t"""
    __slots__ = ("t", "k")

    def __init__(self, t, k):
        self.t, self.k = t, k


class SC:
    """k-th entry of the old internal state"""
    __slots__ = ("k",)

    def __init__(self, k):
        self.k = k


class Vec:
    """1-d array whose cells are scalars (Dual), entries of flattened tensors (TC) or entries of the old state (SC)"""

    def __init__(self, cells):
        self.cells = list(cells)

    def __len__(self):
        return len(self.cells)

    def __repr__(self):
        return f"<vector of {len(self.cells)} cells>"


class InvVal:
    """result of a computation all of whose inputs are frame invariant and that could not be interpreted"""

    def __init__(self, why=""):
        self.why = why
        self.atom = None

    def __repr__(self):
        return "<invariant value>"


class Cond:
    """a comparison the constants do not decide"""
    __slots__ = ("d",)

    def __init__(self, d: Dual):
        self.d = d

    def __bool__(self):
        raise EvalError("truth value of a symbolic condition")

    def __repr__(self):
        return f"<cond {self.d!r}>"


class Hadamard:
    """entry-wise product of two tensors: only its sum over all entries (the double contraction) is frame-typed"""
    def __init__(self, a, b):
        self.a, self.b = a, b


class Partial:
    def __init__(self, fn, args, kwargs):
        self.fn, self.args, self.kwargs = fn, list(args), dict(kwargs)


def _scalar_like(v):
    return isinstance(v, (Dual, int, float, Fraction, InvVal)) and not isinstance(v, bool)



# ------------------------------------------------------------------------------------------------ the interpreter

class FrameInterp(Interp):
    """optilint.tensoreval.Interp extended with frame-typed tensors, abstract state vectors, symbolic conditions
    (joins / path enumeration) and opaque invariant values."""

    def __init__(self, repo, state_kind="mult", positive=()):
        super().__init__(repo, positive=positive, max_depth=60)
        self.state_kind = state_kind
        self.bases = {"F": {"type": (S, Rf), "sym": False}}
        self.n_letters = 0
        self.checked = 0
        self.memo = {}                 # memoised letters: key -> Tens
        self.opaque = {}               # opaque scalar atoms: atom -> (name, [Rat args])
        self.opaque_key = {}           # key -> atom
        self.comps = {}                # component atoms: atom -> (word, i, j)
        self.state_letters = {}        # slot start -> base letter name
        self.scalar_slots = set()
        self.decisions, self.taken, self.assumed = [], [], {}
        self.cur = (None, None)
        self.fallbacks = []
        self._probing = 0
        self.n_inv = 0
        self.state_in_products = False     # a stored tensor is multiplied with / inverted against other tensors
        self.comp_where = {}
        self.bad_words = {}                # products whose adjacent indices live in different frames: word -> creation site
        self.tr_words, self.det_polys = {}, {}
        self.ravel_where, self._keep = {}, []
        self.special["optimism.TensorMath:symmetric_matrix_function"] = lambda it, a, k: it.t_spectral(*_bind(a, k, ("A", "func")))
        self.special["optimism.Math:safe_sqrt"] = lambda it, a, k: it.s_fun("sqrt", [a[0]])

    # ---- letters
    def ltype(self, x):
        r, c = self.bases[x[0]]["type"]
        return (c, r) if (x[1] ^ x[2]) else (r, c)

    def l_T(self, x):
        if self.bases[x[0]]["sym"]:
            return x
        return (x[0], 1 - x[1], x[2])

    @staticmethod
    def l_inv(x):
        return (x[0], x[1], 1 - x[2])

    def new_letter(self, ty, sym, tag, key=None):
        if key is not None and key in self.memo:
            return self.memo[key]
        self.n_letters += 1
        nm = f"{tag}{self.n_letters}"
        self.bases[nm] = {"type": tuple(ty), "sym": bool(sym) and ty[0] == ty[1]}
        t = Tens(NC.letter((nm, 0, 0)))
        if key is not None:
            self.memo[key] = t
        return t

    def state_letter(self, k):
        if k not in self.state_letters:
            nm = f"P{k}"
            ty = (f"{If}{k}", Rf) if self.state_kind == "mult" else (Rf, Rf)
            self.bases[nm] = {"type": ty, "sym": False}
            self.state_letters[k] = nm
        return Tens(NC.letter((self.state_letters[k], 0, 0)))

    def nc_T(self, p: NC):
        return NC({tuple(self.l_T(x) for x in reversed(w)): c for w, c in p.t.items()})

    def is_sym(self, p: NC):
        return p.same(self.nc_T(p))

    # ---- errors with positions
    def ferr(self, msg):
        node, env = self.cur
        sc = getattr(env, "scope", None) if env is not None else None
        return FrameError(node, msg, sc)

    # ---- typing
    def word_ok(self, w):
        """adjacent indices of the product live in the same frame"""
        for x, y in zip(w, w[1:]):
            if self.ltype(x)[1] != self.ltype(y)[0]:
                return False
        return True

    def chain_defect(self, w):
        for x, y in zip(w, w[1:]):
            if self.ltype(x)[1] != self.ltype(y)[0]:
                return f"product `{wname(w)}` chains a [{self.ltype(x)[1]}] column index with a [{self.ltype(y)[0]}] row index"
        return None

    def word_type(self, w):
        """(frame of the row index, frame of the column index); None for the identity.  Never raises: a product whose adjacent
        indices live in different frames (an expansion in H = F - 1 produces them, and they may cancel) is recorded and judged at the
        sinks: spectral functions / stored tensors need well-typed operands, scalars are judged by their transformation behaviour."""
        if not w:
            return None
        if not self.word_ok(w):
            self.bad_words.setdefault(w, self.cur)
        return (self.ltype(w[0])[0], self.ltype(w[-1])[1])

    def poly_type(self, p: NC, what):
        """common frames of all words of a tensor that is consumed as ONE typed tensor; raises FrameError when there are none"""
        self.checked += 1
        ty, has_ident = None, False
        for w in p.t:
            if w and not self.word_ok(w):
                raise self.ferr(f"{what}: {self.chain_defect(w)}")
            t = self.word_type(w)
            if t is None:
                has_ident = True
            elif ty is None:
                ty = t
            elif ty != t:
                raise self.ferr(f"{what}: sum of tensors with frames {ty} and {t}")
        if ty is None:
            return ("*", "*")
        if has_ident and ty[0] != ty[1]:
            raise self.ferr(f"{what}: the identity is added to a tensor with frames {ty} (terms in F that are not invariant do not cancel)")
        return ty

    def try_type(self, p: NC):
        """poly_type without raising: frames or None"""
        cur = self.cur
        try:
            return self.poly_type(p, "tensor")
        except FrameError:
            return None
        finally:
            self.cur = cur

    def endo(self, v, what):
        if not isinstance(v, Tens):
            raise EvalError(f"{what} of a value that is not a typed tensor")
        ty = self.poly_type(v.p, what)
        if ty[0] != ty[1]:
            raise self.ferr(f"{what} is applied to a tensor with frames {ty}; it needs an endomorphism of one frame")
        return ty

    # ---- scalar atoms
    def opq(self, name, *vals):
        rs = [simplify(A.norm(v.a if isinstance(v, Dual) else R(v))) for v in vals]
        key = f"{name}({' | '.join(repr(r) for r in rs)})"
        if key not in self.opaque_key:
            bad = any(MARK in a for r in rs for a in r.atoms())
            atom = f"{name}#{len(self.opaque_key)}" + (MARK + ">" if bad else "")
            self.opaque_key[key] = atom
            self.opaque[atom] = (name, rs)
            self.comp_where.setdefault(atom, self.cur)
        return Dual(A.atom(self.opaque_key[key]))

    def show(self, r: Rat, depth=3):
        s = repr(r)
        for _ in range(depth):
            hit = False
            for atom, (name, rs) in sorted(self.opaque.items(), key=lambda kv: -len(kv[0])):
                if atom in s:
                    s = s.replace(atom, f"{name}({', '.join(repr(x) for x in rs)})")
                    hit = True
            if not hit:
                break
        return s if len(s) < 300 else s[:297] + "..."

    def canon_cyclic(self, w):
        # cyclic cancellation, then the least of all rotations of the word and of its transpose
        w = list(w)
        while len(w) >= 2 and w[0][0] == w[-1][0] and w[0][1] == w[-1][1] and w[0][2] != w[-1][2]:
            w = w[1:-1]
        w = tuple(w)
        if not w:
            return w
        wt = tuple(self.l_T(x) for x in reversed(w))
        cands = []
        for v in (w, wt):
            for i in range(len(v)):
                cands.append(v[i:] + v[:i])
        return min(cands)

    def tr_of(self, p: NC) -> Dual:
        tot = A.const(0)
        for w, c in p.t.items():
            if not w:
                tot = tot + c * A.const(3)
                continue
            t = self.word_type(w)
            self.checked += 1
            cw = self.canon_cyclic(w)
            if not cw:
                tot = tot + c * A.const(3)
                continue
            closed_ok = self.word_ok(cw) and self.ltype(cw[0])[0] == self.ltype(cw[-1])[1]
            if closed_ok:
                atom = "tr[" + wname(cw) + "]"
            else:
                atom = "tr" + MARK + wname(cw) + ">"          # not invariant by itself; legitimate only if it cancels in the final scalar
                self.comp_where.setdefault(atom, self.cur)
            self.tr_words[atom] = cw
            tot = tot + c * A.atom(atom)
        return Dual(simplify(A.norm(tot)))

    def comp(self, p: NC, i, j) -> Dual:
        tot = A.const(0)
        for w, c in p.t.items():
            if not w:
                if i == j:
                    tot = tot + c
                continue
            self.word_type(w)
            tot = tot + c * self._comp_word(w, i, j)
        return Dual(simplify(A.norm(tot)))

    def _comp_word(self, w, i, j) -> Rat:
        wt = tuple(self.l_T(x) for x in reversed(w))
        if wt == w and i > j:
            i, j = j, i
        elif wt < w:
            w, i, j = wt, j, i
        if i == 2 and j == 2:
            return self.tr_of(NC({w: A.const(1)})).a - self._comp_word(w, 0, 0) - self._comp_word(w, 1, 1)
        atom = f"c{MARK}{wname(w)}>[{i},{j}]"
        self.comps[atom] = (w, i, j)
        self.comp_where.setdefault(atom, self.cur)
        return A.atom(atom)

    def det_word(self, w) -> Rat:
        r = A.const(1)
        for x in w:
            a = A.atom(f"det[{x[0]}]")
            r = r / a if x[2] else r * a
        return r

    # ---- tensor primitives
    def as_tens(self, v, what="tensor operand"):
        if isinstance(v, Tens):
            return v
        if isinstance(v, Arr) and v.shape == (3, 3):
            l = self.lift(v)
            if l is not None:
                return l
            raise EvalError(f"{what}: a constant matrix that is not a multiple of the identity has no frame type")
        if isinstance(v, Vec) and len(v) == 9:
            return self.vec_to_tens(v.cells)
        raise EvalError(f"{what}: {v!r} is not a 3x3 tensor")

    def lift(self, arr: Arr):
        if arr.shape != (3, 3) or not arr.is_diagonal():
            return None
        d = [arr.data[0], arr.data[4], arr.data[8]]
        if any(not rat_is_zero(x.b) for x in d) or not (A.equal(d[0].a, d[1].a) and A.equal(d[0].a, d[2].a)):
            return None
        return Tens(NC({(): d[0].a}))

    def _has_state(self, p: NC):
        st = set(self.state_letters.values())
        return any(x[0] in st for w in p.t for x in w)

    def t_matmul(self, a: Tens, b: Tens):
        if (self._has_state(a.p) and any(w for w in b.p.t)) or (self._has_state(b.p) and any(w for w in a.p.t)):
            self.state_in_products = True
        r = a.p.mul(b.p)
        for w in r.t:
            self.word_type(w)
        self.checked += 1
        return Tens(r)

    def t_det(self, v):
        if not isinstance(v, Tens):
            if isinstance(v, Arr):
                return self.np_call("linalg.det", [v], {})
            raise EvalError("det of a value that is not a tensor")
        p = v.p
        for w in p.t:
            self.word_type(w)
        if not p.t:
            return Dual(0)
        if len(p.t) == 1:
            (w, c), = p.t.items()
            return Dual(simplify(A.norm(c * c * c * self.det_word(w))))
        if len(p.t) == 2 and () in p.t:
            # det(c0 1 + c1 W) = c0^3 + c0^2 c1 tr W + c0 c1^2 I2(W) + c1^3 det W,  I2(W) = (tr(W)^2 - tr(W W))/2   (Cayley-Hamilton):
            # an expansion in H = F - 1 is brought back to invariants of F (traces that are not invariant cancel in the caller's sum)
            c0 = p.t[()]
            (w, c1), = [(w_, c_) for w_, c_ in p.t.items() if w_]
            W = NC({w: A.const(1)})
            trw = self.tr_of(W).a
            i2 = (trw * trw - self.tr_of(W.mul(W)).a) * A.const(Fraction(1, 2))
            return Dual(simplify(A.norm(c0 * c0 * c0 + c0 * c0 * c1 * trw + c0 * c1 * c1 * i2 + c1 * c1 * c1 * self.det_word(w))))
        ty = self.try_type(p)
        # det of a sum: an invariant of an endomorphism of one frame; of anything else it is not invariant by itself
        atom = f"det<{p.key()}>" if ty is not None and ty[0] == ty[1] else f"det{MARK}{p.key()}>"
        self.det_polys[atom] = p
        self.comp_where.setdefault(atom, self.cur)
        return Dual(A.atom(atom))

    def t_detpIm1(self, v):
        if not isinstance(v, Tens):
            raise EvalError("detpIm1 of a value that is not a tensor")
        return self.t_det(Tens(v.p + NC.ident())) - Dual(1)

    def t_inv(self, v):
        if not isinstance(v, Tens):
            if isinstance(v, Arr):
                return self.np_call("linalg.inv", [v], {})
            raise EvalError("inverse of a value that is not a tensor")
        p = v.p
        if self._has_state(p):
            self.state_in_products = True
        if len(p.t) == 1:
            (w, c), = p.t.items()
            self.word_type(w)
            return Tens(NC({tuple(self.l_inv(x) for x in reversed(w)): simplify(A.norm(A.const(1) / c))}))
        ty = self.endo(v, "inverse")
        return self.new_letter(ty, self.is_sym(p), "Inv", key=("inv", p.key()))

    def t_spectral(self, v, f):
        """isotropic tensor function: the scalar function f applied to the eigenvalues of a symmetric tensor"""
        if isinstance(v, Arr):
            v = self.as_tens(v, "spectral function")
        ty = self.endo(v, "spectral function")
        fk = self.fkey(f)
        if ty == ("*", "*"):
            c = Dual(next(iter(v.p.t.values()))) if v.p.t else Dual(0)
            return Tens(NC({(): self.num(self.call(f, [c], {})).a}))
        return self.new_letter(ty, True, "Sp", key=("spectral", fk, v.p.key()))

    def fkey(self, f):
        try:
            r = self.num(self.call(f, [Dual(A.atom("@lambda"))], {}))
            return repr(r.a)
        except (EvalError, Raised, KeyError, IndexError, TypeError, AttributeError):
            if isinstance(f, Closure):
                return f.scope.qualname + ":" + norm_src(f.scope.node)[:200]
            return repr(f)

    def t_expm(self, v):
        v = self.as_tens(v, "matrix exponential")
        ty = self.endo(v, "matrix exponential")
        if ty == ("*", "*"):
            c = Dual(next(iter(v.p.t.values()))) if v.p.t else Dual(0)
            return Tens(NC({(): self.s_fun("exp", [c]).a}))
        return self.new_letter(ty, self.is_sym(v.p), "Exp", key=("expm", v.p.key()))

    def t_einsum(self, spec, ops):
        """einsum of one or two second-order tensors"""
        spec = spec.replace(" ", "")
        lhs, arrow, rhs = spec.partition("->")
        ins = lhs.split(",")
        ts = [self.as_tens(o, "einsum") for o in ops]
        if len(ins) != len(ts) or any(len(i) != 2 for i in ins) or len(ts) not in (1, 2):
            raise EvalError(f"einsum {spec!r} of tensors")
        if not arrow:
            rhs = "".join(sorted(ch for ch in set(lhs) - {","} if lhs.count(ch) == 1))
        if len(ts) == 1:
            (i, j), t = ins[0], ts[0]
            if i == j and rhs == "":
                return self.tr_of(t.p)
            if i != j and rhs == i + j:
                return t
            if i != j and rhs == j + i:
                return Tens(self.nc_T(t.p))
            raise EvalError(f"einsum {spec!r}")
        (a, b), (c, d) = ins
        A_, B_ = ts
        if len({a, b}) < 2 or len({c, d}) < 2:
            raise EvalError(f"einsum {spec!r}")
        shared = {a, b} & {c, d}
        if len(shared) == 2 and rhs == "":
            return self.t_tensordot(A_, B_) if (a, b) == (c, d) else self.t_tensordot(A_, Tens(self.nc_T(B_.p)))
        if len(shared) == 1 and len(rhs) == 2:
            k = next(iter(shared))
            L = A_ if b == k else Tens(self.nc_T(A_.p))
            Rr = B_ if c == k else Tens(self.nc_T(B_.p))
            i = a if b == k else b
            j = d if c == k else c
            M = self.t_matmul(L, Rr)
            if rhs == i + j:
                return M
            if rhs == j + i:
                return Tens(self.nc_T(M.p))
        raise EvalError(f"einsum {spec!r}")

    def t_tensordot(self, a, b):
        a, b = self.as_tens(a, "tensordot"), self.as_tens(b, "tensordot")
        return self.tr_of(self.nc_T(a.p).mul(b.p))

    # ---- scalar functions of symbolic arguments: constant folding first, opaque atom otherwise
    def s_fun(self, name, args):
        vals = [self.num(a) for a in args]
        if any(not isinstance(v, Dual) for v in vals):
            raise EvalError(f"{name} of a non-scalar")
        try:
            return Interp.np_call(self, name, vals, {})
        except (EvalError, ZeroDivisionError):
            return self.opq(name, *vals)

    # ---- vectors
    def cell_value(self, c) -> Dual:
        if isinstance(c, Dual):
            return c
        if isinstance(c, SC):
            self.scalar_slots.add(c.k)
            return Dual(A.atom(f"state[{c.k}]"))
        return self.comp(c.t.p, c.k // 3, c.k % 3)

    def to_vec(self, v):
        if isinstance(v, Vec):
            return v
        if isinstance(v, Tens):
            self.ravel_where.setdefault(id(v), self.cur)
            self._keep.append(v)
            return Vec([TC(v, k) for k in range(9)])
        if isinstance(v, Arr):
            return Vec(list(v.data))
        if isinstance(v, (list, tuple)):
            out = []
            for x in v:
                out += self.to_vec(x).cells
            return Vec(out)
        if _scalar_like(v):
            return Vec([self.num(v)])
        raise EvalError(f"{v!r} is not a vector")

    def vec_to_tens(self, cells):
        if len(cells) != 9:
            raise EvalError("reshape of a vector that does not have nine entries to 3x3")
        if all(isinstance(c, TC) for c in cells):
            if all(c.t is cells[0].t and c.k == k for k, c in enumerate(cells)):
                return cells[0].t
            raise EvalError("a 3x3 tensor assembled from entries of different tensors")
        if all(isinstance(c, SC) for c in cells):
            if all(c.k == cells[0].k + k for k, c in enumerate(cells)):
                return self.state_letter(cells[0].k)
            raise EvalError("a 3x3 tensor assembled from non-contiguous state entries")
        if all(isinstance(c, Dual) for c in cells):
            return self.as_tens(Arr(list(cells), (3, 3)), "reshape")
        raise EvalError("a 3x3 tensor assembled from entries of different kinds")

    def blocks(self, v: Vec):
        """[(offset, Tens | None)]: maximal decomposition into flattened tensors and single cells"""
        out, i, cs = [], 0, v.cells
        while i < len(cs):
            c = cs[i]
            if isinstance(c, TC) and c.k == 0 and i + 9 <= len(cs) and all(isinstance(x, TC) and x.t is c.t and x.k == k for k, x in enumerate(cs[i:i + 9])):
                out.append((i, c.t))
                i += 9
            else:
                out.append((i, None))
                i += 1
        return out

    def vec_zip(self, a, b, fs, ft):
        """cell-wise / block-wise combination of two vectors (a scalar broadcasts)"""
        if not isinstance(a, Vec) and _scalar_like(a):
            a = Vec([self.num(a)] * len(self.to_vec(b)))
        if not isinstance(b, Vec) and _scalar_like(b):
            b = Vec([self.num(b)] * len(self.to_vec(a)))
        a, b = self.to_vec(a), self.to_vec(b)
        if len(a) != len(b):
            raise EvalError(f"vectors of lengths {len(a)} and {len(b)}")
        starts = {o for (o, t) in self.blocks(a) + self.blocks(b) if t is not None}
        out, i = [], 0
        while i < len(a):
            if i in starts:
                ta, tb = self.vec_to_tens(a.cells[i:i + 9]), self.vec_to_tens(b.cells[i:i + 9])
                r = ft(ta, tb)
                out += [TC(r, k) for k in range(9)]
                i += 9
            else:
                out.append(fs(self.cell_value(a.cells[i]), self.cell_value(b.cells[i])))
                i += 1
        return Vec(out)

    def vec_scale(self, v: Vec, s: Dual, div=False):
        out, cs = [], v.cells
        for (o, t) in self.blocks(v):
            if t is not None:
                r = Tens(t.p.scale(A.const(1) / s.a if div else s.a))
                out += [TC(r, k) for k in range(9)]
            else:
                x = self.cell_value(cs[o])
                out.append(x / s if div else x * s)
        return Vec(out)

    def vec_set(self, base, key, val, add=False):
        v = self.to_vec(base)
        cells = list(v.cells)
        n = len(cells)
        if isinstance(key, int):
            k = key + n if key < 0 else key
            if not 0 <= k < n:
                raise EvalError("index out of range")
            new = self.num(val)
            if not isinstance(new, Dual):
                raise EvalError("a non-scalar is stored into one cell")
            cells[k] = (self.cell_value(cells[k]) + new) if add else new
            return Vec(cells)
        if isinstance(key, slice):
            if key.step not in (None, 1):
                raise EvalError("strided store")
            idx = list(range(*key.indices(n)))
            src = Vec([self.num(val)] * len(idx)) if _scalar_like(val) else self.to_vec(val)
            if len(src) != len(idx):
                raise EvalError(".at[].set shape")
            if add:
                src = self.vec_zip(Vec(cells[idx[0]:idx[0] + len(idx)]), src, lambda x, y: x + y, lambda x, y: Tens(x.p + y.p))
            if idx:
                cells[idx[0]:idx[0] + len(idx)] = src.cells
            return Vec(cells)
        raise EvalError(f"unsupported store index {key!r}")

    # ---- joins (np.where / lax.cond on a symbolic condition)
    def select(self, c, a, b):
        if isinstance(c, bool):
            return a if c else b
        if isinstance(c, Dual) and rat_const(c.a) is not None:
            return a if rat_const(c.a) != 0 else b
        if not isinstance(c, Cond):
            raise EvalError(f"selection on {c!r}")
        if a is None and b is None:
            return None
        if isinstance(a, (tuple, list)) and isinstance(b, (tuple, list)) and len(a) == len(b):
            return type(a)(self.select(c, x, y) for x, y in zip(a, b))
        if isinstance(a, Record) and isinstance(b, Record) and a.fields == b.fields:
            return Record(a.tname, a.fields, [self.select(c, x, y) for x, y in zip(a.values, b.values)], cls=a.cls)
        if _scalar_like(a) and _scalar_like(b):
            x, y = self.num(a), self.num(b)
            if A.equal(x.a, y.a):
                return x
            return self.opq("sel", c.d, x, y)
        if isinstance(a, Tens) or isinstance(b, Tens):
            return self.join_tens(c, a, b)
        if isinstance(a, (Vec, Arr)) and isinstance(b, (Vec, Arr)):
            if isinstance(a, Arr) and isinstance(b, Arr):
                if a.shape != b.shape:
                    raise EvalError("selection between arrays of different shapes")
                return Arr([self.select(c, x, y) for x, y in zip(a.data, b.data)], a.shape)
            if (isinstance(a, Arr) and a.ndim != 1) or (isinstance(b, Arr) and b.ndim != 1):
                raise EvalError("selection between a vector and a matrix")
            return self.vec_zip(a, b, lambda x, y: self.select(c, x, y), lambda x, y: self.join_tens(c, x, y))
        raise EvalError(f"selection between {a!r} and {b!r}")

    def join_tens(self, c, a, b):
        def side(v):
            if isinstance(v, Tens):
                return v, self.poly_type(v.p, "selected tensor"), self.is_sym(v.p)
            if isinstance(v, Arr) and v.shape == (3, 3):
                l = self.lift(v)
                if l is not None:
                    return l, ("*", "*"), True
                # a constant matrix: no frame of its own, it is a tensor of whatever frame it is selected into
                return None, ("*", "*"), all(A.equal(v.data[i * 3 + j].a, v.data[j * 3 + i].a) for i in range(3) for j in range(3))
            raise EvalError(f"selection between a tensor and {v!r}")
        (ta, tya, sa), (tb, tyb, sb) = side(a), side(b)
        if ta is not None and tb is not None and ta.p.same(tb.p):
            return ta
        if tya != ("*", "*") and tyb != ("*", "*") and tya != tyb:
            raise self.ferr(f"selection between tensors with frames {tya} and {tyb}")
        ty = tya if tya != ("*", "*") else tyb
        if ty == ("*", "*"):
            if ta is not None and tb is not None:
                ca = next(iter(ta.p.t.values())) if ta.p.t else A.const(0)
                cb = next(iter(tb.p.t.values())) if tb.p.t else A.const(0)
                return Tens(NC({(): self.opq("sel", c.d, Dual(ca), Dual(cb)).a}))
            raise EvalError("selection between constant matrices")
        key = ("sel", repr(c.d), ta.p.key() if ta is not None else repr(a), tb.p.key() if tb is not None else repr(b))
        return self.new_letter(ty, sa and sb, "Sel", key=key)

    # ---- invariance
    def is_inv(self, v, depth=0, seen=None):
        seen = seen if seen is not None else set()
        if v is None or isinstance(v, (bool, int, float, Fraction, str, slice, Ext, NamedTupleVal, InvVal)):
            return True
        if isinstance(v, Dual):
            return not any(MARK in a for a in v.a.atoms()) and not any(MARK in a for a in v.b.atoms())
        if isinstance(v, Cond):
            return self.is_inv(v.d)
        if isinstance(v, Arr):
            return all(self.is_inv(x) for x in v.data)
        if isinstance(v, (Tens, Vec)):
            return False
        if id(v) in seen or depth > 6:
            return True
        seen.add(id(v))
        if isinstance(v, (tuple, list)):
            if len(v) == 2 and v[0] == "module":
                return True
            return all(self.is_inv(x, depth + 1, seen) for x in v)
        if isinstance(v, dict):
            return all(self.is_inv(x, depth + 1, seen) for x in v.values())
        if isinstance(v, Record):
            return all(self.is_inv(x, depth + 1, seen) for x in v.values)
        if isinstance(v, Partial):
            return all(self.is_inv(x, depth + 1, seen) for x in [v.fn] + v.args + list(v.kwargs.values()))
        if isinstance(v, (Deriv, Vmapped)):
            return self.is_inv(v.fn, depth + 1, seen)
        if isinstance(v, Closure):
            if self._captures_invariant(v, depth, seen):
                return True
            return self._probe(v)
        if isinstance(v, PyFunc):
            return False
        return False

    def _captures_invariant(self, f: Closure, depth, seen):
        env = f.env
        if env is None or env.parent is None:
            return True            # module level function: globals are constants and functions
        local = set(f.scope.bindings)
        for n in ast.walk(f.scope.node):
            if isinstance(n, ast.Name) and isinstance(n.ctx, ast.Load) and n.id not in local:
                e = env
                while e is not None and e.parent is not None:      # stop before the module environment
                    if n.id in e.vars:
                        if not self.is_inv(e.vars[n.id], depth + 1, seen):
                            return False
                        break
                    e = e.parent
        return True

    def _probe(self, f: Closure):
        """a function value is invariant if it maps fresh invariant scalars to invariant values"""
        if self._probing > 2:
            return False
        sc = f.scope
        need = [p for p in sc.params() if sc.default_of(p) is None]
        self._probing += 1
        try:
            args = [Dual(A.atom(f"@probe{k}")) for k in range(len(need))]
            r = self.call(f, args, {})
            return self.is_inv(r)
        except (EvalError, Raised, KeyError, IndexError, TypeError, AttributeError, ZeroDivisionError, NotPolynomial, RecursionError):
            return False
        finally:
            self._probing -= 1

    # ---- numbers / truth / comparisons
    def num(self, v):
        if isinstance(v, InvVal):
            if v.atom is None:
                self.n_inv += 1
                v.atom = Dual(A.atom(f"inv#{self.n_inv}"))
            return v.atom
        if isinstance(v, (Tens, Vec, Cond)):
            raise EvalError(f"{v!r} used as a number")
        return super().num(v)

    def compare(self, a, op, b):
        if isinstance(op, (ast.Lt, ast.LtE, ast.Gt, ast.GtE, ast.Eq, ast.NotEq)) and _scalar_like(a) and _scalar_like(b):
            x, y = self.num(a), self.num(b)
            d = simplify(A.norm(x.a - y.a))
            if rat_sign(d, self.positive) is None:
                return Cond(self.opq("cmp" + type(op).__name__, Dual(d)))
        if isinstance(op, (ast.Is, ast.IsNot)) and (a is None or b is None) and not isinstance(a, InvVal) and not isinstance(b, InvVal):
            # `x is None` / `x is not None` (optional arguments): object identity of the Python value, defined for a tensor as for anything else
            return super().compare(a, op, b)
        if isinstance(a, (Tens, Vec, Cond)) or isinstance(b, (Tens, Vec, Cond)):
            raise EvalError("comparison of tensors")
        return super().compare(a, op, b)

    def truth(self, v):
        if isinstance(v, Cond):
            if not self.is_inv(v):
                raise EvalError("control flow depends on a quantity that is not frame invariant")
            k = repr(v.d)
            if k in self.assumed:
                return self.assumed[k]
            d = self.decisions[len(self.taken)] if len(self.taken) < len(self.decisions) else True
            self.taken.append(d)
            self.assumed[k] = d
            return d
        if isinstance(v, (Tens, Vec)):
            raise EvalError("truth value of a tensor")
        if isinstance(v, InvVal):
            return self.truth(Cond(self.num(v)))
        return super().truth(v)

    # ---- expressions
    def e_BinOp(self, e, env):
        a, b = self.eval(e.left, env), self.eval(e.right, env)
        self.cur = (e, env)
        return self.binop(e.op, a, b)

    def plus(self, a, b):
        return self.binop(ast.Add(), a, b)

    def _base_binop(self, op, a, b):
        env = Env(None, None)
        env.vars["__l"], env.vars["__r"] = a, b
        return Interp.e_BinOp(self, ast.BinOp(left=ast.Name(id="__l", ctx=ast.Load()), op=op, right=ast.Name(id="__r", ctx=ast.Load())), env)

    def binop(self, op, a, b):
        if isinstance(a, InvVal):
            a = self.num(a)
        if isinstance(b, InvVal):
            b = self.num(b)
        if isinstance(a, Cond) or isinstance(b, Cond):
            if isinstance(op, (ast.BitAnd, ast.BitOr)):
                if isinstance(a, bool) or isinstance(b, bool):
                    k, c = (a, b) if isinstance(a, bool) else (b, a)
                    if isinstance(op, ast.BitAnd):
                        return c if k else False
                    return True if k else c
                if isinstance(a, Cond) and isinstance(b, Cond):
                    return Cond(self.opq("and" if isinstance(op, ast.BitAnd) else "or", a.d, b.d))
            raise EvalError("arithmetic on a symbolic condition")
        special = (Tens, Vec)
        if not isinstance(a, special) and not isinstance(b, special):
            try:
                return self._base_binop(op, a, b)
            except (EvalError, ZeroDivisionError):
                if isinstance(op, ast.Pow) and _scalar_like(a) and _scalar_like(b):
                    return self.opq("pow", self.num(a), self.num(b))
                raise
        if isinstance(op, ast.MatMult):
            if isinstance(a, Vec) and isinstance(b, Vec):
                return self.vec_dot(a, b)
            if isinstance(a, Vec) or isinstance(b, Vec):
                raise EvalError("product of a vector with a tensor")
            return self.t_matmul(self.as_tens(a, "matrix product"), self.as_tens(b, "matrix product"))
        if isinstance(op, (ast.Add, ast.Sub)):
            sub = isinstance(op, ast.Sub)
            if isinstance(a, Tens) or isinstance(b, Tens):
                if _scalar_like(a) or _scalar_like(b):
                    raise EvalError("a scalar is added to every entry of a tensor")
                x, y = self.as_tens(a, "sum"), self.as_tens(b, "sum")
                return Tens(x.p + (-y.p if sub else y.p))
            return self.vec_zip(a, b, (lambda x, y: x - y) if sub else (lambda x, y: x + y),
                                lambda x, y: Tens(x.p + (-y.p if sub else y.p)))
        if isinstance(op, (ast.Mult, ast.Div)):
            div = isinstance(op, ast.Div)
            t, s = (a, b) if isinstance(a, special) else (b, a)
            if isinstance(a, Tens) and isinstance(b, Tens) and not div:
                return Hadamard(a, b)
            if isinstance(s, special) or not _scalar_like(s) or (div and t is b):
                if isinstance(s, Arr) and s.size() == 1 and not (div and t is b):
                    s = s.data[0]
                else:
                    raise EvalError("element-wise product / quotient of tensors")
            s = self.num(s)
            if not rat_is_zero(s.b):
                raise EvalError("dual number in the frame calculus")
            if div and rat_is_zero(s.a):
                raise EvalError("division by zero")
            if isinstance(t, Tens):
                return Tens(t.p.scale(A.const(1) / s.a if div else s.a))
            return self.vec_scale(t, s, div)
        raise EvalError(f"operation {type(op).__name__} on tensors")

    def vec_dot(self, a: Vec, b: Vec):
        if len(a) != len(b):
            raise EvalError("inner product of vectors of different lengths")
        starts = {o for (o, t) in self.blocks(a) + self.blocks(b) if t is not None}
        tot, i = Dual(0), 0
        while i < len(a):
            if i in starts:
                tot = tot + self.t_tensordot(self.vec_to_tens(a.cells[i:i + 9]), self.vec_to_tens(b.cells[i:i + 9]))
                i += 9
            else:
                tot = tot + self.cell_value(a.cells[i]) * self.cell_value(b.cells[i])
                i += 1
        return tot

    def e_UnaryOp(self, e, env):
        v = self.eval(e.operand, env)
        if isinstance(v, Cond) and isinstance(e.op, (ast.Invert, ast.Not)):
            if isinstance(e.op, ast.Not):
                return not self.truth(v)
            return Cond(self.opq("not", v.d))
        if isinstance(v, (Tens, Vec, InvVal)):
            if isinstance(e.op, ast.USub):
                return self.neg(v)
            if isinstance(e.op, ast.UAdd):
                return v
            raise EvalError("unary operation on a tensor")
        if isinstance(e.op, ast.USub):
            return self.neg(v)
        if isinstance(e.op, ast.UAdd):
            return v
        if isinstance(e.op, ast.Not):
            return not self.truth(v)
        if isinstance(e.op, ast.Invert) and isinstance(v, bool):
            return not v
        raise EvalError("unary op")

    def neg(self, v):
        if isinstance(v, Tens):
            return Tens(-v.p)
        if isinstance(v, Vec):
            return self.vec_scale(v, Dual(-1))
        if isinstance(v, InvVal):
            return -self.num(v)
        return super().neg(v)

    def e_IfExp(self, e, env):
        c = self.eval(e.test, env)
        if isinstance(c, Cond):
            return self.select(c, self.eval(e.body, env), self.eval(e.orelse, env))
        return self.eval(e.body if self.truth(c) else e.orelse, env)

    def e_Subscript(self, e, env):
        base = self.eval(e.value, env)
        key = self.eval_index(e.slice, env)
        if isinstance(base, Tens):
            self.cur = (e, env)
        return self.getitem(base, key)

    def getitem(self, base, key):
        if isinstance(base, InvVal):
            return InvVal(base.why)
        if isinstance(base, Tens):
            key = self._norm_key(key)
            if isinstance(key, tuple) and len(key) == 2 and all(isinstance(k, int) for k in key):
                i, j = (k + 3 if k < 0 else k for k in key)
                if not (0 <= i < 3 and 0 <= j < 3):
                    raise EvalError("tensor index out of range")
                return self.comp(base.p, i, j)
            raise EvalError("rows / slices of a tensor are not frame-typed")
        if isinstance(base, Vec):
            key = self._norm_key(key)
            if isinstance(key, int):
                k = key + len(base) if key < 0 else key
                if not 0 <= k < len(base):
                    raise EvalError("index out of range")
                return self.cell_value(base.cells[k])
            if isinstance(key, slice):
                return Vec(base.cells[key])
            raise EvalError(f"unsupported index {key!r} of a state vector")
        return super().getitem(base, key)

    def e_Attribute(self, e, env):
        base = self.eval(e.value, env)
        a = e.attr
        if isinstance(base, InvVal):
            return InvVal(base.why)
        if isinstance(base, Tens):
            if a == "T":
                return Tens(self.nc_T(base.p))
            if a == "shape":
                return (3, 3)
            if a == "size":
                return 9
            if a == "ndim":
                return 2
            if a in ("ravel", "reshape", "flatten", "transpose", "dot", "copy"):
                return ("method", base, a)
            raise EvalError(f"attribute {a} of a tensor")
        if isinstance(base, Vec):
            if a == "T":
                return base
            if a == "shape":
                return (len(base),)
            if a == "size":
                return len(base)
            if a == "ndim":
                return 1
            if a == "at":
                return AtProxy(base)
            if a in ("ravel", "reshape", "flatten", "dot", "copy"):
                return ("method", base, a)
            raise EvalError(f"attribute {a} of a state vector")
        if isinstance(base, Arr) and a in ("flatten", "copy", "ndim"):
            return base.ndim if a == "ndim" else ("method", base, a)
        if isinstance(base, Partial) and a in ("func", "args", "keywords"):
            return {"func": base.fn, "args": tuple(base.args), "keywords": dict(base.kwargs)}[a]
        # e_Attribute of the base class evaluates e.value again: bind the value instead
        env2 = Env(getattr(env, "scope", None), env)
        env2.vars["__b"] = base
        return Interp.e_Attribute(self, ast.Attribute(value=ast.Name(id="__b", ctx=ast.Load()), attr=a, ctx=ast.Load()), env2)

    def _shape_arg(self, args):
        shp = args[0] if len(args) == 1 and isinstance(args[0], (tuple, list)) else tuple(args)
        return tuple(self.as_int(s) for s in shp)

    def call_method(self, base, name, args, kwargs):
        if isinstance(base, Tens):
            if name in ("ravel", "flatten"):
                return self.to_vec(base)
            if name == "copy":
                return base
            if name == "transpose" and not args:
                return Tens(self.nc_T(base.p))
            if name == "reshape":
                shp = self._shape_arg(args)
                if shp == (3, 3):
                    return base
                if shp in ((9,), (-1,)):
                    return self.to_vec(base)
                raise EvalError(f"reshape of a tensor to {shp}")
            if name == "dot":
                return self.binop(ast.MatMult(), base, args[0])
        if isinstance(base, Vec):
            if name in ("ravel", "flatten", "copy"):
                return base
            if name == "reshape":
                shp = self._shape_arg(args)
                if shp in ((3, 3), (3, -1), (-1, 3)) and len(base) == 9:
                    return self.vec_to_tens(base.cells)
                if shp in ((len(base),), (-1,)):
                    return base
                if len(shp) == 3 and shp[1:] == (3, 3) and len(base) % 9 == 0 and shp[0] in (-1, len(base) // 9):
                    # a stack of 3x3 tensors: a list (indexing, iteration, zip work on it)
                    return [self.vec_to_tens(base.cells[9 * k: 9 * k + 9]) for k in range(len(base) // 9)]
                raise EvalError(f"reshape of a vector of length {len(base)} to {shp}")
            if name == "dot":
                return self.binop(ast.MatMult(), base, args[0])
        if isinstance(base, Arr) and name in ("flatten", "copy"):
            return base.ravel() if name == "flatten" else base
        if isinstance(base, AtIndexed) and (isinstance(base.arr, Vec) or (args and isinstance(args[0], (Vec, Tens)))):
            key = self._norm_key(base.key)
            if name == "get":
                return self.getitem(base.arr, key)
            if name in ("set", "add"):
                if isinstance(base.arr, Arr) and base.arr.ndim != 1:
                    raise EvalError("tensor stored into a multi-dimensional array")
                return self.vec_set(base.arr, key, args[0], add=(name == "add"))
        return super().call_method(base, name, args, kwargs)

    # ---- calls
    def e_Call(self, e, env):
        f = self.eval(e.func, env)
        args = []
        for a in e.args:
            if isinstance(a, ast.Starred):
                args += list(self.iterate(self.eval(a.value, env)))
            else:
                args.append(self.eval(a, env))
        kwargs = {}
        for k in e.keywords:
            if k.arg:
                kwargs[k.arg] = self.eval(k.value, env)
            else:
                d = self.eval(k.value, env)
                if not isinstance(d, dict):
                    raise EvalError("** of a value that is not a dictionary")
                kwargs.update(d)
        self.cur = (e, env)
        r = self.call(f, args, kwargs)
        self.cur = (e, env)
        return r

    def call(self, f, args, kwargs):
        try:
            return self._call(f, args, kwargs)
        except (EvalError, ZeroDivisionError, NotPolynomial) as ex:
            # parametricity: a computation all of whose inputs are frame invariant is invariant whatever it computes
            if all(self.is_inv(x) for x in [f] + list(args) + list(kwargs.values())):
                self.fallbacks.append(f"{f!r}: {ex}")
                return InvVal(str(ex))
            raise

    def _call(self, f, args, kwargs):
        if isinstance(f, Partial):
            return self.call(f.fn, f.args + list(args), dict(f.kwargs, **kwargs))
        if isinstance(f, InvVal):
            if all(self.is_inv(x) for x in list(args) + list(kwargs.values())):
                return InvVal(f.why)
            raise EvalError("an uninterpreted function is applied to a tensor")
        if isinstance(f, Vmapped):
            raise EvalError("vmap in the frame calculus")
        return super().call(f, args, kwargs)

    def call_closure(self, f: Closure, args, kwargs):
        if f.scope.qualname not in self.special and any(isinstance(a, Tens) for a in list(args) + list(kwargs.values())):
            kind = recognise_helper(self.repo, f)
            if kind is not None:
                sc = f.scope
                bound = dict(zip(sc.params(), args))
                bound.update(kwargs)
                t = bound.get(kind[1])
                if isinstance(t, Tens):
                    self.visited.add(sc.qualname)
                    return self.apply_helper(kind[0], t)
        return super().call_closure(f, args, kwargs)

    def apply_helper(self, kind, t: Tens):
        if kind == "trace":
            return self.tr_of(t.p)
        if kind == "det":
            return self.t_det(t)
        if kind == "detpIm1":
            return self.t_detpIm1(t)
        if kind == "I2":
            tr = self.tr_of(t.p)
            return (tr * tr - self.tr_of(t.p.mul(t.p))) * Dual(Fraction(1, 2))
        if kind == "normsq":
            return self.t_tensordot(t, t)
        if kind == "inv":
            return self.t_inv(t)
        if kind == "transpose":
            return Tens(self.nc_T(t.p))
        raise EvalError(f"helper kind {kind}")

    def call_deriv(self, f: Deriv, args, kwargs):
        if f.argnum >= len(args) or not _scalar_like(args[f.argnum]):
            raise EvalError("derivative with respect to a tensor argument")
        v = self.call(f.fn, list(args), kwargs)
        if not _scalar_like(v):
            raise EvalError("derivative of a function that does not return a scalar")
        # the derivative of an invariant scalar with respect to an invariant scalar is invariant (the marker of a
        # non-invariant value is inherited through the opaque atom)
        return self.opq(f"d{f.argnum}", self.num(v), self.num(args[f.argnum]))

    def call_ext(self, name, args, kwargs):
        if name == "functools.partial" and args:
            return Partial(args[0], args[1:], kwargs)
        if name == "jax.lax.cond" and len(args) >= 3 and isinstance(args[0], Cond):
            ops = list(args[3:])
            if not ops and "operand" in kwargs:
                ops = [kwargs["operand"]]
            x = self.call(args[1], ops, {})
            y = self.call(args[2], ops, {})
            return self.select(args[0], x, y)
        if name == "jax.lax.cond" and len(args) >= 3 and isinstance(args[0], InvVal):
            return self.call_ext(name, [Cond(self.num(args[0]))] + list(args[1:]), kwargs)
        if name == "jax.scipy.linalg.expm" or name.endswith("linalg.expm"):
            return self.t_expm(args[0])
        if name in ("builtins.float", "builtins.int") and args and isinstance(args[0], (Tens, Vec)):
            raise EvalError("float() of a tensor")
        if name == "builtins.len" and args and isinstance(args[0], (Vec, Tens)):
            return len(args[0]) if isinstance(args[0], Vec) else 3
        if name in ("builtins.max", "builtins.min") and len(args) == 2 and all(_scalar_like(a) for a in args):
            try:
                return super().call_ext(name, args, kwargs)
            except EvalError:
                return self.opq(name.split(".")[-1], self.num(args[0]), self.num(args[1]))
        return super().call_ext(name, args, kwargs)

    def np_call(self, fn, args, kwargs):
        if fn == "sum" and len(args) == 1 and isinstance(args[0], Hadamard) and not kwargs:
            return self.t_tensordot(args[0].a, args[0].b)
        if fn == "einsum" and args and isinstance(args[0], str) and any(isinstance(a, Tens) for a in args[1:]):
            return self.t_einsum(args[0], list(args[1:]))
        has_t = any(isinstance(a, (Tens, Vec)) for a in args) or any(isinstance(a, (list, tuple)) and any(isinstance(x, (Tens, Vec)) for x in a) for a in args)
        if fn == "where" and len(args) == 3:
            if isinstance(args[0], (Cond, InvVal)) or has_t:
                c = Cond(self.num(args[0])) if isinstance(args[0], InvVal) else args[0]
                return self.select(c, args[1], args[2])
        if fn in ("log", "log1p", "exp", "expm1", "sqrt", "abs", "absolute", "sign", "cos", "sin", "tan", "arccos", "arcsin", "arctan", "tanh", "cosh", "sinh", "square", "cbrt") and len(args) == 1 and _scalar_like(args[0]):
            if fn == "square":
                return self.num(args[0]) * self.num(args[0])
            return self.s_fun(fn, args)
        if fn in ("power", "maximum", "minimum", "arctan2", "hypot", "float_power") and len(args) == 2 and all(_scalar_like(a) for a in args):
            try:
                return super().np_call(fn, args, kwargs)
            except (EvalError, ZeroDivisionError):
                return self.opq(fn, self.num(args[0]), self.num(args[1]))
        if fn == "clip" and len(args) == 3 and all(_scalar_like(a) for a in args):
            try:
                return super().np_call(fn, args, kwargs)
            except EvalError:
                return self.opq("clip", *[self.num(a) for a in args])
        if fn in ("isfinite", "isnan") and len(args) == 1 and _scalar_like(args[0]):
            return Cond(self.opq(fn, self.num(args[0])))
        if fn in ("logical_and", "logical_or") and len(args) == 2:
            return self.binop(ast.BitAnd() if fn == "logical_and" else ast.BitOr(), args[0], args[1])
        if fn == "logical_not" and len(args) == 1 and isinstance(args[0], Cond):
            return Cond(self.opq("not", args[0].d))
        if not has_t:
            return super().np_call(fn, args, kwargs)
        x = args[0]
        if fn == "trace":
            return self.tr_of(self.as_tens(x, "trace").p)
        if fn == "tensordot":
            if len(args) > 2 or "axes" in kwargs:
                ax = kwargs.get("axes", args[2] if len(args) > 2 else 2)
                if ax != 2:
                    raise EvalError("tensordot with axes")
            return self.t_tensordot(args[0], args[1])
        if fn in ("dot", "matmul"):
            return self.binop(ast.MatMult(), args[0], args[1])
        if fn in ("vdot", "inner") and all(isinstance(a, Vec) for a in args[:2]):
            return self.vec_dot(args[0], args[1])
        if fn == "vdot" and len(args) == 2 and all(isinstance(a, Tens) for a in args[:2]):
            # np.vdot flattens both operands: the double contraction A : B
            return self.t_tensordot(args[0], args[1])
        if fn == "linalg.det":
            return self.t_det(self.as_tens(x, "det"))
        if fn == "linalg.inv":
            return self.t_inv(self.as_tens(x, "inverse"))
        if fn == "linalg.norm" and len(args) == 1:
            if isinstance(x, Tens):
                return self.s_fun("sqrt", [self.t_tensordot(x, x)])
            return self.s_fun("sqrt", [self.vec_dot(x, x)])
        if fn in ("transpose",) and len(args) == 1 and isinstance(x, Tens):
            return Tens(self.nc_T(x.p))
        if fn in ("ravel",):
            return self.to_vec(x)
        if fn == "reshape":
            shp = args[1] if len(args) > 1 else kwargs.get("newshape", kwargs.get("shape"))
            shp = shp if isinstance(shp, (tuple, list)) else (shp,)
            return self.call_method(x, "reshape", [tuple(shp)], {})
        if fn in ("hstack", "concatenate"):
            return self.to_vec(list(self.iterate(x)))
        if fn in ("array", "asarray"):
            if isinstance(x, (Tens, Vec)):
                return x
            items = list(x)
            if all(_scalar_like(i) or (isinstance(i, Vec) and len(i) == 1) for i in items):
                return self.to_vec(items)
            raise EvalError("array of tensors")
        if fn == "tile":
            reps = args[1]
            reps = (reps,) if not isinstance(reps, (tuple, list)) else tuple(reps)
            if all(self.as_int(r) == 1 for r in reps):
                return x
            raise EvalError("tile of a tensor")
        if fn in ("split", "array_split") and isinstance(x, Vec) and len(args) >= 2 and not isinstance(args[1], (list, tuple, Arr)):
            k = self.as_int(args[1])
            if k <= 0 or len(x) % k != 0:
                raise EvalError("np.split into unequal parts")
            w = len(x) // k
            return [Vec(x.cells[i * w:(i + 1) * w]) for i in range(k)]
        if fn in ("zeros_like",):
            if isinstance(x, Tens):
                return Tens(NC())
            return Vec([Dual(0)] * len(x))
        if fn == "sum" and isinstance(x, Vec) and len(args) == 1:
            tot = Dual(0)
            for c in x.cells:
                tot = tot + self.cell_value(c)
            return tot
        raise EvalError(f"numpy function {fn} of a tensor")

    # ---- statements
    def stmt(self, st, env):
        if isinstance(st, ast.If):
            c = self.eval(st.test, env)
            self.block(st.body if self.truth(c) else st.orelse, env)
            return
        if isinstance(st, ast.While):
            n = 0
            while self.truth(self.eval(st.test, env)):
                self.block(st.body, env)
                n += 1
                if n > 50:
                    raise EvalError("loop does not terminate on the abstract values")
            return
        if isinstance(st, ast.For):
            it = self.iterate(self.eval(st.iter, env))
            for x in it:
                self.assign(st.target, x, env)
                self.block(st.body, env)
            return
        if isinstance(st, ast.AugAssign) and isinstance(st.target, ast.Name):
            cur = self.eval(ast.Name(id=st.target.id, ctx=ast.Load()), env)
            self.cur = (st, env)
            env.vars[st.target.id] = self.binop(st.op, cur, self.eval(st.value, env))
            return
        super().stmt(st, env)

    def assign(self, t, v, env):
        if isinstance(v, InvVal) and isinstance(t, (ast.Tuple, ast.List)):
            for a in t.elts:
                self.assign(a.value if isinstance(a, ast.Starred) else a, InvVal(v.why), env)
            return
        if isinstance(t, ast.Subscript):
            base = self.eval(t.value, env)
            if isinstance(base, (Vec, Tens)) or isinstance(v, (Vec, Tens)):
                raise EvalError("in-place store into a tensor")
        super().assign(t, v, env)

    # ---- running with path enumeration
    def explore(self, thunk):
        """run thunk once per outcome of the symbolic conditions that steer Python control flow;
        returns [(decisions, value)]; raises what thunk raises"""
        out, prefix = [], []
        while True:
            self.decisions, self.taken, self.assumed = list(prefix), [], {}
            val = thunk()
            taken = list(self.taken)
            out.append((taken, val))
            while taken and taken[-1] is False:
                taken.pop()
            if not taken:
                return out
            taken[-1] = False
            prefix = taken
            if len(out) >= MAX_PATHS:
                raise EvalError(f"more than {MAX_PATHS} control-flow paths")

    # ---- atoms reachable through opaque function applications
    def reach_atoms(self, r: Rat, seen=None):
        seen = seen if seen is not None else set()
        for a in r.atoms():
            if a in seen:
                continue
            seen.add(a)
            if a in self.opaque:
                for x in self.opaque[a][1]:
                    self.reach_atoms(x, seen)
        return seen


_HELPER_CACHE = {}


def recognise_helper(repo, f: Closure):
    """Module-level functions of one tensor that read single components of it (closed-form 3x3 determinants, inverses, traces ...) are
    identified by their *value on a generic symbolic matrix*, whatever they are called and wherever they live:
    returns (kind, parameter name) with kind in trace / det / detpIm1 / I2 / normsq / inv / transpose, or None (interpret the body)."""
    sc = f.scope
    key = (id(repo), sc.qualname, sc.module.digest if hasattr(sc.module, "digest") else None)
    if key in _HELPER_CACHE:
        return _HELPER_CACHE[key]
    _HELPER_CACHE[key] = None
    if sc.kind != "function" or sc.parent is None or sc.parent.kind != "module":
        return None
    required = [p_ for p_ in sc.params() if sc.default_of(p_) is None]
    if len(required) != 1 or sc.has_varargs():
        return None
    par = required[0]

    def is_component(n):
        if not (isinstance(n, ast.Subscript) and isinstance(n.value, ast.Name) and n.value.id == par):
            return False
        idx = n.slice.elts if isinstance(n.slice, ast.Tuple) else [n.slice]
        return len(idx) == 2 and all(isinstance(i_, ast.Constant) and isinstance(i_.value, int) for i_ in idx)
    if not any(is_component(n) for n in ast.walk(sc.node)):
        return None
    I = mt.make_interp(repo)
    G = Arr([Dual(A.atom(f"@g{i}{j}")) for i in range(3) for j in range(3)], (3, 3))
    try:
        r = I.call(Closure(sc, I.module_env(sc.module)), [G], {})
    except (EvalError, Raised, KeyError, IndexError, TypeError, AttributeError, ValueError, ZeroDivisionError, NotPolynomial, RecursionError):
        return None
    g = lambda i, j: G.data[i * 3 + j]
    kind = None
    if isinstance(r, Dual):
        det3 = lambda M: (M(0, 0) * M(1, 1) * M(2, 2) + M(0, 1) * M(1, 2) * M(2, 0) + M(0, 2) * M(1, 0) * M(2, 1)
                          - M(0, 0) * M(1, 2) * M(2, 1) - M(0, 1) * M(1, 0) * M(2, 2) - M(0, 2) * M(1, 1) * M(2, 0))
        tr = g(0, 0) + g(1, 1) + g(2, 2)
        i2 = g(0, 0) * g(1, 1) - g(0, 1) * g(1, 0) + g(0, 0) * g(2, 2) - g(0, 2) * g(2, 0) + g(1, 1) * g(2, 2) - g(1, 2) * g(2, 1)
        gi = lambda i, j: g(i, j) + Dual(1 if i == j else 0)
        cands = {"trace": tr, "det": det3(g), "I2": i2, "detpIm1": det3(gi) - Dual(1),
                 "normsq": sum((x * x for x in G.data), Dual(0))}
        for k_, v in cands.items():
            if A.equal(r.a, v.a):
                kind = k_
                break
    elif isinstance(r, Arr) and r.shape == (3, 3):
        from optilint.tensoreval import matmul
        try:
            prod = matmul(r, G)
            if all(A.equal(prod.data[i * 3 + j].a, A.const(1 if i == j else 0)) for i in range(3) for j in range(3)):
                kind = "inv"
            elif all(A.equal(r.data[i * 3 + j].a, G.data[j * 3 + i].a) for i in range(3) for j in range(3)):
                kind = "transpose"
        except (EvalError, ZeroDivisionError, NotPolynomial):
            kind = None
    _HELPER_CACHE[key] = (kind, par) if kind else None
    return _HELPER_CACHE[key]


def _bind(args, kwargs, names):
    vals = list(args) + [None] * (len(names) - len(args))
    for k, v in kwargs.items():
        if k in names:
            vals[names.index(k)] = v
    return vals[:len(names)]


def H_VALUE():
    return Tens(NC({(("F", 0, 0),): A.const(1), (): A.const(-1)}))     # displacement gradient  H = F - 1


# ------------------------------------------------------------------------------------------------ model level analysis

class ScenarioResult:
    def __init__(self, kind):
        self.kind = kind            # typing of the stored tensors that was used
        self.frame_errors = []      # [(FrameError, part)]
        self.undecided = []         # [(part, text)]
        self.verdicts = []          # [(ok, construct suffix, text)]
        self.visited = set()
        self.checked = 0
        self.paths = 0

    def refuted(self):
        return bool(self.frame_errors) or any(v[0] is False for v in self.verdicts)


def _model_args(kind, fi, n_state):
    H = H_VALUE()
    state = Vec([SC(k) for k in range(n_state)])
    dt = Dual(A.atom("dt"))
    fi.positive.add("dt")
    if kind == "solid":
        return [H, state, dt]
    phase = Dual(A.atom("phase"))
    grad = Arr([Dual(A.atom("gradphase0")), Dual(A.atom("gradphase1"))], (2,))
    return [H, phase, grad, state, dt]


_EXC = (EvalError, KeyError, AttributeError, IndexError, TypeError, ValueError, ZeroDivisionError, NotPolynomial, RecursionError)


def _worst(items):
    """[(ok, text, where)] -> the worst verdict"""
    for want in (False, None, True):
        for it in items:
            if it[0] is want:
                return it
    return True, "", None


def _evaluate(ctx, mname, fac, kind, sc, option_keys, parts, state_kind):
    mod = ctx.need_module(mname)
    r = ScenarioResult(state_kind)
    fi = FrameInterp(ctx.repo, state_kind)
    props = mt.PropDict(fi, sc, option_keys)
    try:
        model = fi.call(fi.module_value(mod, fac), [props], {})
        if not isinstance(model, Record):
            raise EvalError("the factory does not return a model record")
        st0 = fi.call(model.get("compute_initial_state"), [], {})
        n_state = len(fi.to_vec(st0.ravel() if isinstance(st0, Arr) else st0)) if st0 is not None else 0
    except Raised:
        return None, fi             # the factory rejects this combination: not an advertised scenario
    except FrameError as ex:
        r.frame_errors.append((ex, "setup"))
        return r, fi
    except _EXC as ex:
        r.undecided.append(("setup", f"cannot evaluate the factory: {type(ex).__name__}: {ex}"))
        return r, fi
    for part, field in (("energy", "compute_energy_density"), ("state", "compute_state_new")):
        if part not in parts:
            continue
        try:
            fn = model.get(field)
        except (ValueError, KeyError):
            continue
        if fn is None:
            continue
        try:
            paths = fi.explore(lambda: fi.call(fn, _model_args(kind, fi, n_state), {}))
            r.paths += len(paths)
            if part == "energy":
                ok, text, where = _worst([check_scalar(fi, v, "the energy") for (_, v) in paths])
                r.verdicts.append((ok, "invariant-energy", text, where))
            else:
                agg = {}
                for (_, v) in paths:
                    for it in check_state(fi, v, n_state):
                        agg.setdefault(it[1], []).append((it[0], it[2], it[3] if len(it) > 3 else None))
                items = [_worst(v) for _, v in sorted(agg.items())]
                if items:
                    ok, _t, where = _worst(items)
                    if ok is True:
                        tens = [it[1] for it in items if "frames" in it[1]]
                        text = "; ".join(tens) if tens else f"the new state ({len(items)} entries) consists of invariant scalars"
                    else:
                        text = "; ".join(it[1] for it in items if it[0] is ok)
                    r.verdicts.append((ok, "state-update-frames", text, where))
        except FrameError as ex:
            r.frame_errors.append((ex, part))
        except Raised as ex:
            r.undecided.append((part, f"the model raises: {ex}"))
        except _EXC as ex:
            r.undecided.append((part, f"outside the frame calculus: {type(ex).__name__}: {ex}"))
    r.visited = set(fi.visited)
    r.checked = fi.checked
    return r, fi


def evaluate_scenario(ctx, mname, fac, kind, sc, option_keys, parts=("energy", "state")):
    """interpret the model of one option scenario under the admissible typings of its stored tensors; the first typing
    under which nothing is refuted is returned (a model is objective / isotropic if SOME transformation rule of its internal
    variables makes it so), otherwise the result of the first typing.  None: the factory rejects the options."""
    score = lambda r_: (r_.refuted(), bool(r_.undecided) or any(v[0] is None for v in r_.verdicts))
    best = None
    for state_kind in ("mult", "add"):
        r, fi = _evaluate(ctx, mname, fac, kind, sc, option_keys, parts, state_kind)
        if r is None:
            return None
        if best is None or score(r) < score(best):
            best = r
        if score(r) == (False, False):
            return r
        # a stored tensor that is multiplied with / inverted against other tensors is a distortion [I_k, R]; only a stored tensor
        # that is merely added to strains may be typed as a reference strain [R, R] instead
        if not fi.state_letters or fi.state_in_products:
            break
    return best


def _label(sc):
    return ", ".join(f"{k}={v}" for k, v in sorted(sc.items())) or "defaults"


def _short(mname):
    return mname.split(".")[-1]


def _scope_of(ctx, ex, default):
    sc = ex.scope
    while sc is not None and sc.kind not in ("function", "module"):
        sc = sc.parent
    return sc if sc is not None and sc.kind == "function" else default


# ------------------------------------------------------------------------------------------------ transformation behaviour

class _Invalid(Exception):
    pass


def _mm(X, Y):
    return [[sum(X[i][k] * Y[k][j] for k in range(3)) for j in range(3)] for i in range(3)]


def _mt(X):
    return [[X[j][i] for j in range(3)] for i in range(3)]


def _mdet(M):
    return (M[0][0] * (M[1][1] * M[2][2] - M[1][2] * M[2][1]) - M[0][1] * (M[1][0] * M[2][2] - M[1][2] * M[2][0])
            + M[0][2] * (M[1][0] * M[2][1] - M[1][1] * M[2][0]))


def _minv(M):
    d = _mdet(M)
    if abs(d) < 1e-9:
        raise _Invalid("singular sample")
    c = lambda i, j: M[(i + 1) % 3][(j + 1) % 3] * M[(i + 2) % 3][(j + 2) % 3] - M[(i + 1) % 3][(j + 2) % 3] * M[(i + 2) % 3][(j + 1) % 3]
    return [[c(j, i) / d for j in range(3)] for i in range(3)]


_I3 = [[1.0, 0.0, 0.0], [0.0, 1.0, 0.0], [0.0, 0.0, 1.0]]
# a proper rotation in general position (3-4-5 rotations about z and about x)
_Q = _mm([[0.6, -0.8, 0.0], [0.8, 0.6, 0.0], [0.0, 0.0, 1.0]], [[1.0, 0.0, 0.0], [0.0, 0.28, -0.96], [0.0, 0.96, 0.28]])
_QDESC = "the rotation by atan(4/3) about z composed with the rotation by atan(24/7) about x"


class Sampler:
    """Evaluates the derived expressions of one interpreter at pseudo-random tensors: every base letter is a generic matrix (symmetric
    where the letter is), every scalar symbol a positive number.  A *view* (frame, Q) rotates one frame: a letter with frames (r, c)
    becomes Q_r M Q_c^T -- the transformation law its frame type asserts.  Opaque functions are evaluated (log, pow, sel, cmp ...) or
    replaced by a fixed pseudo-random function of their arguments."""

    def __init__(self, fi, seed):
        import random
        self.fi, self.seed, self._random = fi, seed, random
        self.base, self.cache = {}, {}

    def _rng(self, name):
        return self._random.Random(f"{self.seed}:{name}")

    def base_matrix(self, b):
        if b not in self.base:
            g = self._rng("letter " + b)
            amp = (0.25, 0.25, 0.05, 0.1, 0.25, 0.02, 0.25, 0.05)[self.seed % 8]
            M = [[g.uniform(-amp, amp) + (1.0 if i == j else 0.0) for j in range(3)] for i in range(3)]
            if self.fi.bases[b]["sym"]:
                M = [[0.5 * (M[i][j] + M[j][i]) for j in range(3)] for i in range(3)]
            self.base[b] = M
        return self.base[b]

    def letter(self, x, view):
        k = ("L", x, view)
        if k not in self.cache:
            M = self.base_matrix(x[0])
            if view is not None:
                r, c = self.fi.bases[x[0]]["type"]
                if r == view:
                    M = _mm(_Q, M)
                if c == view:
                    M = _mm(M, _mt(_Q))
            if x[1]:
                M = _mt(M)
            if x[2]:
                M = _minv(M)
            self.cache[k] = M
        return self.cache[k]

    def word(self, w, view):
        M = _I3
        for x in w:
            M = _mm(M, self.letter(x, view))
        return M

    def nc(self, p: NC, view):
        out = [[0.0] * 3 for _ in range(3)]
        for w, c in p.t.items():
            cv = self.rat(c, view)
            M = self.word(w, view)
            for i in range(3):
                for j in range(3):
                    out[i][j] += cv * M[i][j]
        return out

    def poly(self, q: Poly, view):
        tot = 0.0
        for m, c in q.t.items():
            term = float(c)
            for a, e in m:
                v = self.atom(a, view)
                if e < 0 and v == 0:
                    raise _Invalid("division by zero")
                term *= v ** e
            tot += term
        return tot

    def rat(self, r: Rat, view):
        d = self.poly(r.d, view)
        if d == 0:
            raise _Invalid("division by zero")
        return self.poly(r.n, view) / d

    def atom(self, a, view):
        k = ("A", a, view)
        if k in self.cache:
            return self.cache[k]
        fi = self.fi
        if a in fi.tr_words:
            M = self.word(fi.tr_words[a], view)
            v = M[0][0] + M[1][1] + M[2][2]
        elif a in fi.comps:
            w, i, j = fi.comps[a]
            v = self.word(w, view)[i][j]
        elif a in fi.det_polys:
            v = _mdet(self.nc(fi.det_polys[a], view))
        elif a.startswith("det[") and a[4:-1] in fi.bases:
            v = _mdet(self.letter((a[4:-1], 0, 0), view))
        elif a in fi.opaque:
            name, rs = fi.opaque[a]
            v = self.fun(name, [self.rat(x, view) for x in rs], a)
        elif a in A.rules:
            x = self.poly(A.rules[a], view)
            if x < 0:
                raise _Invalid("square root of a negative sample")
            v = math.sqrt(x)
        else:
            # positive material constants / time step / state scalars: different orders of magnitude for different seeds, so that
            # arguments of logarithms and roots fall into their domains for some sample
            v = self._rng("scalar " + a).uniform(0.6, 1.6) * (1.0, 1.0, 10.0, 0.1, 100.0, 1000.0, 0.01, 10.0)[self.seed % 8]
        self.cache[k] = v
        return v

    def fun(self, name, xs, atom):
        try:
            if name in ("log", "log1p", "sqrt", "arccos", "arcsin") or name in ("exp", "expm1", "cos", "sin", "tan", "arctan", "tanh", "cosh", "sinh"):
                return getattr(math, {"arccos": "acos", "arcsin": "asin", "arctan": "atan"}.get(name, name))(xs[0])
            if name in ("abs", "absolute"):
                return abs(xs[0])
            if name == "sign":
                return (xs[0] > 0) - (xs[0] < 0)
            if name == "cbrt":
                return math.copysign(abs(xs[0]) ** (1.0 / 3.0), xs[0])
            if name in ("pow", "power", "float_power"):
                return math.pow(xs[0], xs[1])
            if name in ("maximum", "max"):
                return max(xs)
            if name in ("minimum", "min"):
                return min(xs)
            if name == "clip":
                return min(max(xs[0], xs[1]), xs[2])
            if name == "sel":
                return xs[1] if xs[0] != 0 else xs[2]
            if name.startswith("cmp"):
                d = xs[0]
                return float({"Lt": d < 0, "LtE": d <= 0, "Gt": d > 0, "GtE": d >= 0, "Eq": d == 0, "NotEq": d != 0}[name[3:]])
            if name == "and":
                return float(xs[0] != 0 and xs[1] != 0)
            if name == "or":
                return float(xs[0] != 0 or xs[1] != 0)
            if name == "not":
                return float(xs[0] == 0)
        except (ValueError, OverflowError, ZeroDivisionError, KeyError):
            raise _Invalid(f"{name} outside its domain at the sample")
        # any other function of scalars: a fixed pseudo-random smooth function of its arguments
        g = self._rng("function " + name)
        ph = [g.uniform(0.5, 2.0) for _ in xs] + [g.uniform(0.0, 1.0)]
        return 1.0 + 0.5 * math.sin(sum(p_ * x for p_, x in zip(ph, xs)) + ph[-1])


def _differs(a, b):
    return abs(a - b) > 1e-7 * (1.0 + abs(a) + abs(b))


def _all_frames(fi):
    out = []
    for info in fi.bases.values():
        for f in info["type"]:
            if f not in out and f != "*":
                out.append(f)
    return sorted(out, key=lambda f: (f != S, f != Rf, f))


def transformation_witness(fi, r: Rat):
    """(kind, text) with kind 'changes' | 'switch' | 'same' | 'unknown': does the scalar change under a rotation of one of the frames?"""
    conds = [(a, fi.opaque[a][1][0]) for a in sorted(fi.reach_atoms(r)) if a in fi.opaque and fi.opaque[a][0].startswith("cmp")]
    done = 0
    for seed in (1, 2, 3, 4, 5, 6, 7, 8):
        sm = Sampler(fi, seed)
        try:
            v0 = sm.rat(r, None)
            c0 = [sm.rat(x, None) for _, x in conds]
            for X in _all_frames(fi):
                vX = sm.rat(r, X)
                if _differs(v0, vX):
                    return "changes", f"it changes under a rotation of the [{X}] frame (value {v0:.6g} becomes {vX:.6g} under {_QDESC}, for generic tensors)", None
                for (a, x), y0 in zip(conds, c0):
                    yX = sm.rat(x, X)
                    if _differs(y0, yX):
                        return "switch", (f"it switches on {fi.show(x)}, which changes under a rotation of the [{X}] frame ({y0:.6g} becomes {yX:.6g} under {_QDESC}, "
                                          f"for generic tensors)"), fi.comp_where.get(a)
            done += 1
        except (_Invalid, OverflowError, ZeroDivisionError, ValueError, KeyError):
            continue
        if done >= 2:
            break
    return ("same", f"unchanged under rotations of the frames {_all_frames(fi)} at {done} generic samples", None) if done else ("unknown", "no admissible sample", None)


class _At:
    def __init__(self, scope):
        self.scope = scope


def _first_marker_site(fi, atoms):
    for a in sorted(atoms):
        if MARK in a and fi.comp_where.get(a) is not None and fi.comp_where[a][0] is not None:
            return fi.comp_where[a]
    return None


def _describe_markers(fi, marks):
    out = []
    for a in marks[:4]:
        if a in fi.tr_words:
            w = fi.tr_words[a]
            d = fi.chain_defect(w)
            out.append(f"tr({wname(w)})" + (f" [{d}]" if d else f" [trace over a [{fi.ltype(w[0])[0]}] and a [{fi.ltype(w[-1])[1]}] index]"))
        elif a in fi.comps:
            w, i, j = fi.comps[a]
            out.append(f"the single component ({wname(w)})[{i},{j}]")
        elif a in fi.det_polys:
            out.append(f"det({fi.det_polys[a].key()[:60]})")
        elif a in fi.opaque:
            out.append(fi.show(A.atom(a))[:80])
        else:
            out.append(a)
    return ", ".join(out)


def check_scalar(fi, v, what):
    """(ok | None, text, where): is the scalar invariant under rotations of every frame?
    PROVED: it is built from invariants only (symbolic).  REFUTED: an explicit rotation changes the derived expression at generic
    tensors (or changes a quantity it switches on).  Otherwise (written in non-invariant quantities that cancel numerically): undecided."""
    if isinstance(v, InvVal) or isinstance(v, (int, float, Fraction)):
        return True, f"{what} is computed from invariant quantities only", None
    if isinstance(v, Arr) and v.size() == 1:
        v = v.data[0]
    if not isinstance(v, Dual):
        return None, f"{what} is not a scalar ({v!r})", None
    atoms = fi.reach_atoms(v.a)
    marks = sorted(a for a in atoms if MARK in a and (a in fi.tr_words or a in fi.comps or a in fi.det_polys))
    other = sorted(a for a in atoms if MARK in a and a not in fi.opaque and a not in marks)
    if not marks and not other:
        inv = sorted(a for a in atoms if a.startswith(("tr[", "det[", "det<")))
        return True, f"{what} depends on the deformation only through {inv[:6]}{' ...' if len(inv) > 6 else ''}", None
    kind, text, at = transformation_witness(fi, v.a)
    site = at if at is not None and at[0] is not None else _first_marker_site(fi, marks or other)
    if kind in ("changes", "switch"):
        return False, f"{what} depends on {_describe_markers(fi, marks or other)}: {text} (an objective, isotropic energy may depend on tensors only through invariants)", site
    return None, (f"{what} is written in the non-invariant quantities {_describe_markers(fi, marks or other)}; {text}: "
                  f"their cancellation is not proved symbolically"), site


def check_state(fi, v, n_state):
    """[(ok | None, slot, text, where)] for the new internal state: the tensor written to a slot must transform like the tensor read from it"""
    out = []
    if v is None or isinstance(v, InvVal):
        return [(None, "state", "the new state could not be interpreted", None)]
    try:
        vec = fi.to_vec(v.ravel() if isinstance(v, Arr) else v)
    except EvalError as ex:
        return [(None, "state", str(ex), None)]
    if len(vec) != n_state:
        return [(None, "state", f"the new state has {len(vec)} entries, the initial state {n_state}", None)]
    for (o, t) in fi.blocks(vec):
        if t is not None:
            at = fi.ravel_where.get(id(t))
            want = fi.bases[fi.state_letters[o]]["type"] if o in fi.state_letters else None
            ty = fi.try_type(t.p)
            if ty is not None and (ty == ("*", "*") or (want is not None and ty == want) or (want is None and S not in ty)):
                out.append((True, f"slot-{o}", f"the tensor stored in state[{o}:{o + 9}] has frames {ty if ty != ('*', '*') else (want or ty)}", at))
                continue
            wit = _block_witness(fi, t.p, want)
            shown = f"frames {ty}" if ty is not None else "no consistent frames (" + (_block_defect(fi, t.p) or "mixed") + ")"
            if wit is not None:
                out.append((False, f"slot-{o}", f"the tensor stored in state[{o}:{o + 9}] has {shown}; the tensor read from that slot has frames {want}: {wit}", at))
            else:
                out.append((None, f"slot-{o}", f"the tensor stored in state[{o}:{o + 9}] has {shown}; no rotation was found under which it transforms differently from "
                                                f"the stored tensor with frames {want}", at))
            continue
        c = vec.cells[o]
        if isinstance(c, SC):
            out.append((True if c.k == o else None, f"slot-{o}", f"state[{o}] is " + ("carried over" if c.k == o else f"overwritten with state[{c.k}]"), None))
            continue
        if isinstance(c, TC):
            out.append((None, f"slot-{o}", f"state[{o}] holds a single entry of a tensor", None))
            continue
        ok, text, where = check_scalar(fi, c, f"state[{o}]")
        out.append((ok, f"slot-{o}", text, where))
    return out


def _block_defect(fi, p: NC):
    for w in p.t:
        d = fi.chain_defect(w)
        if d:
            return d
    tys = sorted({fi.word_type(w) for w in p.t if w})
    return f"sum of tensors with frames {tys}" if len(tys) > 1 else None


def _block_witness(fi, p: NC, want):
    """a rotation under which the new stored tensor does not transform like the tensor it replaces (frames `want`; None: it must
    simply not rotate with the spatial frame)"""
    for seed in (1, 2, 3, 4, 5, 6):
        sm = Sampler(fi, seed)
        try:
            M0 = sm.nc(p, None)
            for X in (_all_frames(fi) if want is not None else [S]):
                MX = sm.nc(p, X)
                E = M0
                if want is not None and want[0] == X:
                    E = _mm(_Q, E)
                if want is not None and want[1] == X:
                    E = _mm(E, _mt(_Q))
                if any(_differs(MX[i][j], E[i][j]) for i in range(3) for j in range(3)):
                    law = "stay unchanged" if E is M0 else "transform like the stored tensor"
                    return (f"under a rotation of the [{X}] frame ({_QDESC}) it should {law} but does not (generic tensors): "
                            f"the update mixes configurations and is not invariant under rotations")
            return None
        except (_Invalid, OverflowError, ZeroDivisionError, ValueError, KeyError):
            continue
    return None


def analyse_models(ctx, rule, models, parts=("energy", "state")):
    """models: [(module, factory, kind)].  Emits the obligations of `rule`; returns the number of scenarios analysed."""
    n = 0
    reported = set()
    for (mname, fac, kind) in models:
        ctx.need_module(mname)
        fsc = ctx.need(f"{mname}:{fac}")
        extra = ["optimism.material.Hardening"] if ctx.repo.module("optimism.material.Hardening") is not None and _imports(ctx, mname, "Hardening") else []
        from . import C08_options as opts
        values, optional, presence = opts.option_space(ctx, [mname] + extra)
        keys = set(values) | presence
        results = []
        for sc in mt.scenarios(values, optional, presence):
            r = evaluate_scenario(ctx, mname, fac, kind, sc, keys, parts)
            if r is not None:
                results.append((sc, r))
        declared = lambda sc: any(kv in GEOM_LINEAR for kv in sc.items())
        linear_sets = [r.visited for (sc, r) in results if declared(sc)]
        for sc, r in results:
            # geometrically linear kinematics (declared by the option, or the default that runs the same code) is outside the property
            if declared(sc) or (r.refuted() and r.visited in linear_sets):
                continue
            for q in r.visited:
                s_ = ctx.repo.find(q)
                if s_ is not None:
                    ctx.touch(s_)
            label = f"{_short(mname)}[{_label(sc)}]"
            n += 1
            for (ex, part) in r.frame_errors:
                sc_ = _scope_of(ctx, ex, fsc)
                key = (sc_.qualname, getattr(ex.node, "lineno", None), ex.msg)
                if key in reported:
                    continue
                reported.add(key)
                ctx.refuted(rule, sc_, ex.node, construct=f"{sc_.name}:frames", detail=f"{ex.msg} (model {label})")
            for (part, text) in r.undecided:
                ctx.undecided(rule, fsc, None, construct=f"{label}:{part}", detail=text)
            for (ok, suffix, text, where) in r.verdicts:
                if r.frame_errors and ok is not False:
                    continue
                at_sc, at_node = fsc, None
                if ok is not True and where is not None and where[0] is not None:
                    sc_ = getattr(where[1], "scope", None)
                    while sc_ is not None and sc_.kind not in ("function", "module"):
                        sc_ = sc_.parent
                    if sc_ is not None and sc_.kind == "function":
                        at_sc, at_node = sc_, where[0]
                if ok is False:
                    # the same defect is derived for every option scenario that runs the same code: report it once
                    key = (suffix, at_sc.qualname, getattr(at_node, "lineno", None), text)
                    if key in reported:
                        continue
                    reported.add(key)
                ctx.decide(rule, ok, at_sc, at_node, construct=f"{label}:{suffix}",
                           detail=f"{text} ({r.checked} products / traces typed, {r.paths} path(s), stored tensors typed as "
                                  f"{'distortions [I,R]' if r.kind == 'mult' else 'reference strains [R,R]'})",
                           bad_detail=f"{label}: {text}")
    return n


def _imports(ctx, mname, what):
    m = ctx.repo.module(mname)
    for n in ast.walk(m.tree):
        if isinstance(n, ast.ImportFrom) and any(a.name == what for a in n.names):
            return True
        if isinstance(n, ast.Import) and any(a.name.endswith("." + what) for a in n.names):
            return True
    return False


# ------------------------------------------------------------------------------------------------ entry points of the rules

def run_frames(ctx, rule, which="C08"):
    n = analyse_models(ctx, rule, mt.MODELS, parts=("energy", "state"))
    from optilint.core import Incomplete
    if n < 8:
        raise Incomplete(f"{n} finite-deformation model scenarios analysed (at least 8 on the reference tree)")
    return n


def run_frames_state_only(ctx, rule, quals):
    """state updates (and everything interpreted on the way: trial strains, increments) of the models defined in the modules of `quals`"""
    mods = {q.split(":")[0] for q in quals}
    models = [m for m in mt.MODELS if m[0] in mods]
    return analyse_models(ctx, rule, models, parts=("state",))
