"""Configuration-frame typing of finite-deformation kinematics (objectivity at the level of tensor
expressions).

Matrix-valued expressions are lowered to *non-commutative polynomials* in typed letters:
    F : [spatial, reference]      P : [intermediate, reference]   (plastic / viscous distortion)
    transposes and inverses swap / exchange the frames; the identity is the empty word (polymorphic).
The displacement gradient is H = F - 1, so expressions written in H are expanded and non-invariant
terms must cancel (e.g. 2 tr H + H:H = tr(F^T F) - 3).  Checks:
  * every word of a product must chain (column frame of a factor = row frame of the next);
  * spectral functions / inverses / deviators take endomorphisms of ONE frame;
  * every trace / determinant that survives cancellation is taken of a well-typed closed word, so the scalar
    is unchanged by a superposed rotation F -> Q F (which only touches the spatial frame);
  * a tensor stored back into the internal state has exactly the frames of the state it replaces, and tensors
    that carry a spatial index never enter the state.
"""
from __future__ import annotations

import ast

from optilint.expr import Algebra, Rat, Poly, NotPolynomial
from optilint.model import dotted, norm_src
from optilint.cfg import cfg_of

A = Algebra()
S, Rf, If = "S", "R", "I"

LETTER_T = {"F": (S, Rf), "Ft": (Rf, S), "Fi": (Rf, S), "Fit": (S, Rf),
            "P": (If, Rf), "Pt": (Rf, If), "Pi": (Rf, If), "Pit": (If, Rf),
            "E": (Rf, Rf)}          # E: a symmetric strain measure of the reference frame (its own transpose)
TRANSPOSE = {"F": "Ft", "Ft": "F", "Fi": "Fit", "Fit": "Fi", "P": "Pt", "Pt": "P", "Pi": "Pit", "Pit": "Pi", "E": "E"}
INVERSE = {"F": "Fi", "Fi": "F", "Ft": "Fit", "Fit": "Ft", "P": "Pi", "Pi": "P", "Pt": "Pit", "Pit": "Pt"}


class FrameError(Exception):
    def __init__(self, node, msg):
        self.node, self.msg = node, msg


class Unknown(Exception):
    pass


class NC:
    """sum of coef * word ; word = tuple of letters."""

    def __init__(self, terms=None, letters=None):
        self.t = {w: c for w, c in (terms or {}).items() if not A.is_zero(c)}

    @staticmethod
    def ident():
        return NC({(): A.const(1)})

    @staticmethod
    def letter(x):
        return NC({(x,): A.const(1)})

    def __add__(self, o):
        d = dict(self.t)
        for w, c in o.t.items():
            d[w] = A.norm(d[w] + c) if w in d else c
        return NC(d)

    def scale(self, c: Rat):
        return NC({w: A.norm(v * c) for w, v in self.t.items()})

    def __neg__(self):
        return self.scale(A.const(-1))

    def mul(self, o):
        d = {}
        for w1, c1 in self.t.items():
            for w2, c2 in o.t.items():
                w = _cancel(w1 + w2)
                d[w] = A.norm(d[w] + c1 * c2) if w in d else A.norm(c1 * c2)
        return NC(d)

    def T(self, types):
        return NC({tuple(_tr(x, types) for x in reversed(w)): c for w, c in self.t.items()})

    def __repr__(self):
        return " + ".join(f"({c!r})*{'.'.join(w) or '1'}" for w, c in self.t.items()) or "0"


def _cancel(w):
    out = []
    for x in w:
        if out and INVERSE.get(out[-1]) == x:
            out.pop()
        else:
            out.append(x)
    return tuple(out)


def _tr(x, types):
    if x in TRANSPOSE:
        return TRANSPOSE[x]
    t = types[x]
    if t.get("symmetric"):
        return x
    nm = x + "^T"
    if nm not in types:
        types[nm] = {"type": (t["type"][1], t["type"][0])}
    return nm


class FrameEval:
    def __init__(self, ctx, scope, env, rule):
        self.ctx, self.scope, self.rule = ctx, scope, rule
        self.env = dict(env)
        self.types = {k: {"type": v} for k, v in LETTER_T.items()}
        self.n_letters = 0
        self.checked = 0

    def ltype(self, x):
        return self.types[x]["type"]

    # ---- typing of words / polynomials
    def word_type(self, w, node):
        if not w:
            return None           # identity: polymorphic
        row = self.ltype(w[0])[0]
        cur = self.ltype(w[0])[1]
        for x in w[1:]:
            r, c = self.ltype(x)
            if r != cur:
                raise FrameError(node, f"product `{'.'.join(w)}` chains a [{cur}] column index with a [{r}] row index")
            cur = c
        return (row, cur)

    def poly_type(self, p: NC, node, what):
        """common (row, col) type of all words; identity words are polymorphic endomorphisms."""
        self.checked += 1
        ty = None
        has_ident = False
        for w in p.t:
            t = self.word_type(w, node)
            if t is None:
                has_ident = True
                continue
            if ty is None:
                ty = t
            elif ty != t:
                raise FrameError(node, f"{what}: sum of tensors with frames {ty} and {t}")
        if ty is None:
            return ("*", "*")
        if has_ident and ty[0] != ty[1]:
            raise FrameError(node, f"{what}: the identity is added to a tensor with frames {ty} (terms in F that are not invariant do not cancel)")
        return ty

    def new_letter(self, ty, symmetric, tag):
        self.n_letters += 1
        nm = f"{tag}{self.n_letters}"
        self.types[nm] = {"type": ty, "symmetric": symmetric}
        return NC.letter(nm)

    # ---- scalar functionals
    def trace(self, p: NC, node):
        tot = A.const(0)
        for w, c in p.t.items():
            if not w:
                tot = tot + c * A.const(3)
                continue
            t = self.word_type(w, node)
            self.checked += 1
            if t[0] != t[1]:
                # not invariant by itself; legitimate only if it cancels in the final scalar
                tot = tot + c * A.atom("tr!<" + ".".join(self.canon_cyclic(w)) + ">")
                continue
            tot = tot + c * A.atom("tr[" + ".".join(self.canon_cyclic(w)) + "]")
        return A.norm(tot)

    def canon_cyclic(self, w):
        cands = []
        wt = tuple(_tr(x, self.types) for x in reversed(w))
        for v in (w, wt):
            for i in range(len(v)):
                cands.append(v[i:] + v[:i])
        return min(cands)

    # ---- expression evaluation: returns NC (matrix) or Rat (scalar)
    def ev(self, e):
        if isinstance(e, ast.Constant) and isinstance(e.value, (int, float)) and not isinstance(e.value, bool):
            return A.const(e.value)
        if isinstance(e, ast.Name):
            if e.id in self.env:
                return self.env[e.id]
            return A.atom(e.id)
        if isinstance(e, ast.Attribute):
            if e.attr == "T":
                v = self.ev(e.value)
                if isinstance(v, NC):
                    return v.T(self.types)
                return v
            d = dotted(e)
            return A.atom(d or norm_src(e))
        if isinstance(e, ast.UnaryOp) and isinstance(e.op, ast.USub):
            v = self.ev(e.operand)
            return -v if isinstance(v, NC) else A.norm(-v)
        if isinstance(e, ast.BinOp):
            a, b = self.ev(e.left), self.ev(e.right)
            op = e.op
            if isinstance(op, ast.MatMult):
                if isinstance(a, NC) and isinstance(b, NC):
                    r = a.mul(b)
                    for w in r.t:
                        self.word_type(w, e)
                    self.checked += 1
                    return r
                raise Unknown("matmul of non-matrices")
            if isinstance(op, (ast.Add, ast.Sub)):
                if isinstance(a, NC) and isinstance(b, NC):
                    return a + (b if isinstance(op, ast.Add) else -b)
                if isinstance(a, Rat) and isinstance(b, Rat):
                    return A.norm(a + b) if isinstance(op, ast.Add) else A.norm(a - b)
                raise Unknown("matrix +- scalar")
            if isinstance(op, ast.Mult):
                if isinstance(a, NC) and isinstance(b, Rat):
                    return a.scale(b)
                if isinstance(b, NC) and isinstance(a, Rat):
                    return b.scale(a)
                if isinstance(a, Rat) and isinstance(b, Rat):
                    return A.norm(a * b)
                raise Unknown("elementwise matrix product")
            if isinstance(op, ast.Div):
                if isinstance(a, NC) and isinstance(b, Rat):
                    return a.scale(A.const(1) / b)
                if isinstance(a, Rat) and isinstance(b, Rat):
                    return A.norm(a / b)
            if isinstance(op, ast.Pow) and isinstance(a, Rat):
                return A.atom(f"pow({a!r},{norm_src(e.right)})")
            raise Unknown("binary op")
        if isinstance(e, ast.Subscript):
            base = self.ev(e.value) if not isinstance(e.value, ast.Name) or e.value.id in self.env else None
            if isinstance(base, NC):
                idx = e.slice.elts if isinstance(e.slice, ast.Tuple) else [e.slice]
                if idx and all(isinstance(i_, ast.Constant) and isinstance(i_.value, int) for i_ in idx):
                    raise FrameError(e, f"the single component `{norm_src(e)}` of a tensor is not invariant under a rotation of its frame "
                                        f"(an isotropic / objective energy may depend on a tensor only through invariants)")
            if isinstance(e.value, ast.Name) and e.value.id in self.env and isinstance(self.env[e.value.id], dict):
                return self.env[e.value.id].get(norm_src(e.slice), A.atom(norm_src(e)))
            return A.atom(norm_src(e))
        if isinstance(e, ast.Call):
            return self.call(e)
        if isinstance(e, ast.Compare) and len(e.ops) == 1:
            l_, r_ = self.ev(e.left), self.ev(e.comparators[0])
            if isinstance(l_, Rat) and isinstance(r_, Rat):
                return A.atom(f"cmp({l_!r},{type(e.ops[0]).__name__},{r_!r})")
            raise Unknown("comparison of matrices")
        raise Unknown(type(e).__name__)

    def endo(self, p, node, what):
        if not isinstance(p, NC):
            raise Unknown(f"{what} of a value that is not a typed tensor")
        ty = self.poly_type(p, node, what)
        if ty[0] != ty[1]:
            raise FrameError(node, f"{what} is applied to a tensor with frames {ty}; it needs an endomorphism of one frame")
        return ty

    def call(self, e):
        d = dotted(e.func) or ""
        last = d.split(".")[-1]
        args = e.args
        if last in ("eye", "identity"):
            return NC.ident()
        if d in ("np.reshape", "jnp.reshape", "onp.reshape") and args:
            return self.ev(args[0])
        if last == "reshape" and isinstance(e.func, ast.Attribute):
            return self.ev(e.func.value)
        if last in ("trace",):
            v = self.ev(args[0])
            return self.trace(v, e) if isinstance(v, NC) else v
        if last == "tensordot" and len(args) == 2:
            a, b = self.ev(args[0]), self.ev(args[1])
            if isinstance(a, NC) and isinstance(b, NC):
                return self.trace(a.T(self.types).mul(b), e)
            raise Unknown("tensordot of non-matrices")
        if last == "norm_of_deviator_squared":
            v = self.ev(args[0])
            self.endo(v, e, "norm_of_deviator_squared")
            dv = self.dev(v, e)
            return self.trace(dv.T(self.types).mul(dv), e)
        if last == "det":
            v = self.ev(args[0])
            for w in v.t:
                self.word_type(w, e)
            if len(v.t) == 1:
                (w, c), = v.t.items()
                return A.norm(c * c * c * A.atom("det[" + ".".join(w) + "]")) if w else A.norm(c * c * c)
            raise Unknown("det of a sum")
        if last == "detpIm1":
            v = self.ev(args[0])
            w = v + NC.ident()
            if len(w.t) == 1 and list(w.t)[0]:
                (wd, c), = w.t.items()
                self.word_type(wd, e)
                return A.norm(c * c * c * A.atom("det[" + ".".join(wd) + "]") - A.const(1))
            raise Unknown("detpIm1 of a general tensor")
        if last in ("where", "if_then_else") and len(args) == 3:
            vals = [self.ev(a) for a in args]
            if all(isinstance(v, Rat) for v in vals):
                return A.atom(f"where({','.join(repr(v) for v in vals)})")
            raise Unknown("where of matrices")
        if last in ("log", "log1p", "exp", "sqrt", "power", "expm1", "abs"):
            vals = [self.ev(a) for a in args]
            if all(isinstance(v, Rat) for v in vals):
                return A.atom(f"{last}({','.join(repr(v) for v in vals)})")
            raise Unknown(f"{last} of a matrix")
        if last in ("dev", "deviator"):
            v = self.ev(args[0])
            self.endo(v, e, "dev")
            return self.dev(v, e)
        if last == "sym":
            v = self.ev(args[0])
            r = (v + v.T(self.types)).scale(A.const(1) / A.const(2))
            self.poly_type(r, e, "sym")
            return r
        if last == "inv":
            v = self.ev(args[0])
            if len(v.t) == 1:
                (w, c), = v.t.items()
                self.word_type(w, e)
                if all(x in INVERSE for x in w):
                    return NC({tuple(INVERSE[x] for x in reversed(w)): A.norm(A.const(1) / c)})
            ty = self.endo(v, e, "inverse")
            return self.new_letter(ty, False, "Inv")
        if last in ("log_sqrt_symm", "log_symm", "sqrt_symm", "exp_symm", "pow_symm", "expm"):
            v = self.ev(args[0])
            ty = self.endo(v, e, last)
            if ty == ("*", "*"):
                return NC.ident().scale(A.atom(f"{last}(1)"))
            return self.new_letter(ty, True, last[:3].capitalize())
        # a small straight-line helper of the repository: evaluate its value with the arguments substituted
        try:
            from .common import _callee_scope, _bind_args, inline_value, _Subst
            import copy
            callee = _callee_scope(e.func, self.scope)
            if callee is not None and callee.kind == "function" and callee.cls is None:
                m_ = _bind_args(e, callee)
                val_ = inline_value(callee, 0) if m_ is not None else None
                if val_ is not None:
                    sub_ = ast.fix_missing_locations(_Subst(m_).visit(copy.deepcopy(val_)))
                    # slices of a state / increment vector that are reshaped to 3x3 are the tensor the name is bound to
                    tens_ = {k for k, x in self.env.items() if isinstance(x, NC)}
                    sub_ = _StateSub(tens_).visit(sub_)
                    return self.ev(sub_)
        except (Unknown, RecursionError):
            pass
        # a scalar function of scalars is invariant whatever it computes
        try:
            vals = [self.ev(a) for a in args]
        except Unknown:
            vals = None
        if vals is not None and vals and all(isinstance(v, Rat) for v in vals):
            return A.atom(f"{d}({','.join(repr(v) for v in vals)})")
        raise Unknown(f"call {d}")

    def dev(self, v, node):
        tr = self.trace(v, node)
        return v + NC.ident().scale(A.norm(-tr / A.const(3)))

    # ---- straight-line function bodies
    def run(self, fn_node):
        for st in fn_node.body:
            if isinstance(st, ast.Expr) and isinstance(st.value, ast.Constant):
                continue
            if isinstance(st, ast.Assign) and len(st.targets) == 1:
                t = st.targets[0]
                if isinstance(t, ast.Tuple) and isinstance(st.value, ast.Tuple):
                    for a, b in zip(t.elts, st.value.elts):
                        self.env[a.id] = self.ev(b)
                    continue
                v = self.ev(st.value)
                if isinstance(t, ast.Name):
                    self.env[t.id] = v
                continue
            if isinstance(st, ast.Return):
                return self.ev(st.value)
            if isinstance(st, ast.Delete):
                continue
            raise Unknown(f"statement {type(st).__name__}")
        return None


H_VALUE = lambda: NC({("F",): A.const(1), (): A.const(-1)})     # displacement gradient  H = F - 1


TARGETS = [
    # (qualname, {param: value kind}, expectation)   kinds: 'H', 'state:P' (internal distortion [I,R]), 'scalar'
    ("optimism.material.Neohookean:_neohookean_3D_energy_density", {"dispGrad": "H"}, "scalar"),
    ("optimism.material.Neohookean:_adagio_neohookean", {"dispGrad": "H"}, "scalar"),
    ("optimism.material.Gent:_gent_3D_energy_density", {"dispGrad": "H"}, "scalar"),
    ("optimism.material.LinearElastic:green_lagrange_strain", {"dispGrad": "H"}, ("R", "R")),
    ("optimism.material.LinearElastic:log_strain", {"dispGrad": "H"}, ("R", "R")),
    ("optimism.material.J2Plastic:compute_elastic_logarithmic_strain", {"dispGrad": "H", "state": "state:P"}, ("I", "I")),
    ("optimism.material.HyperViscoelastic:_eq_strain_energy", {"dispGrad": "H"}, "scalar"),
    ("optimism.material.HyperViscoelastic:_compute_elastic_logarithmic_strain", {"dispGrad": "H", "stateOld": "state:P"}, ("I", "I")),
    ("optimism.material.MultiBranchHyperViscoelastic:_eq_strain_energy", {"dispGrad": "H"}, "scalar"),
    ("optimism.material.MultiBranchHyperViscoelastic:_compute_elastic_logarithmic_strain", {"dispGrad": "H", "stateOld": "state:P"}, ("I", "I")),
    ("optimism.phasefield.PhaseFieldThreshold:compute_logarithmic_strain", {"dispGrad": "H"}, ("R", "R")),
    ("optimism.phasefield.PhaseFieldThreshold:elastic_volumetric_free_energy", {"strain": "tensor:E"}, "scalar"),
    ("optimism.phasefield.PhaseFieldThreshold:elastic_deviatoric_free_energy", {"strain": "tensor:E"}, "scalar"),
    ("optimism.material.J2Plastic:elastic_volumetric_free_energy", {"strain": "tensor:E"}, "scalar"),
    ("optimism.material.J2Plastic:elastic_deviatoric_free_energy", {"elasticStrain": "tensor:E"}, "scalar"),
    ("optimism.material.LinearElastic:_linear_elastic_energy_density", {"strain": "tensor:E"}, "scalar"),
]

STATE_UPDATES = [
    # (qualname, dispGrad param, state param, strain function (its result type is [I,I]), increment producer)
    ("optimism.material.J2Plastic:compute_state_new_finite_deformations", "dispGrad", "stateOld"),
    ("optimism.material.HyperViscoelastic:_compute_state_new", "dispGrad", "stateOld"),
    ("optimism.material.MultiBranchHyperViscoelastic:_compute_state_new", "dispGrad", "stateOld"),
]


def _bind(kind):
    if kind == "H":
        return H_VALUE()
    if kind == "state:P":
        return NC.letter("P")
    if kind == "tensor:E":
        return NC.letter("E")
    return A.atom(kind)


class StateArg(dict):
    pass


def run_frames(ctx, rule, which="C08"):
    n = 0
    for q, binds, expect in TARGETS:
        sc = ctx.need(q)
        fe = FrameEval(ctx, sc, {}, rule)
        for p in sc.params():
            k = binds.get(p)
            if k == "H":
                fe.env[p] = H_VALUE()
            elif k == "state:P":
                # any subscript / reshape of the state that is used as a 3x3 tensor is the distortion P
                fe.env[p] = NC.letter("P")
            elif k == "tensor:E":
                fe.env[p] = NC.letter("E")
        # state[...] subscripts: evaluate `state[SLICE].reshape((3,3))` as P by mapping the Name to P and letting
        # Subscript of an NC fall through
        try:
            v = _run_with_state(fe, sc)
        except FrameError as ex:
            ctx.refuted(rule, sc, ex.node, construct=f"{sc.name}:frames", detail=ex.msg)
            continue
        except (Unknown, NotPolynomial, KeyError) as ex:
            ctx.undecided(rule, sc, None, construct=f"{sc.name}:frames", detail=f"expression outside the frame calculus: {ex}")
            continue
        n += 1
        if expect == "scalar":
            ok = isinstance(v, Rat)
            bad = [a for a in (v.atoms() if ok else []) if a.startswith("tr!<")]
            ctx.decide(rule, ok and not bad, sc, None, construct=f"{sc.name}:invariant-scalar",
                       detail=f"energy depends on F only through {sorted(a for a in v.atoms() if a.startswith(('tr[', 'det[')))} ({fe.checked} products/traces typed)",
                       bad_detail=f"{sc.name} depends on {bad} (trace of a tensor with one spatial and one reference index): the energy changes under a superposed rotation")
        else:
            try:
                ty = fe.poly_type(v, sc.node, "result") if isinstance(v, NC) else None
            except FrameError as ex:
                ctx.refuted(rule, sc, ex.node, construct=f"{sc.name}:frames", detail=ex.msg)
                continue
            ok = ty is not None and (ty == tuple(expect) or ty == ("*", "*"))
            ctx.decide(rule, ok, sc, None, construct=f"{sc.name}:result-frames",
                       detail=f"result has frames {ty} ({fe.checked} products/traces typed)",
                       bad_detail=f"{sc.name} returns a tensor with frames {ty}, expected {expect}: it would change under a superposed rotation")
    for q, hp, sp in STATE_UPDATES:
        sc = ctx.need(q)
        _state_update(ctx, rule, sc, hp, sp)
        n += 1
    return n


def _closed_ok(fe, atom):
    return True   # traces are only created for well-typed closed words (FrameError otherwise)


class _StateSub(ast.NodeTransformer):
    """`state[...]` / `state` used as tensor -> the Name itself (bound to P)."""
    def __init__(self, names):
        self.names = names

    def visit_Subscript(self, n):
        if isinstance(n.value, ast.Name) and n.value.id in self.names:
            return n.value
        return self.generic_visit(n)

    def visit_Call(self, n):
        # the slice of the state vector that belongs to one branch is again a stored distortion
        if (dotted(n.func) or "").endswith("_return_state_for_branch") and n.args and isinstance(n.args[0], ast.Name) and n.args[0].id in self.names:
            return n.args[0]
        return self.generic_visit(n)


def _run_with_state(fe, sc):
    import copy
    names = {k for k, v in fe.env.items() if isinstance(v, NC) and list(v.t) == [("P",)]}
    node = _StateSub(names).visit(copy.deepcopy(sc.node)) if names else sc.node
    return fe.run(node)


def _state_update(ctx, rule, sc, hp, sp):
    """The new internal distortion must be  f(increment of frames [I,I]) @ P_old : frames [I,R]."""
    import copy
    cfg = cfg_of(sc)
    fe = FrameEval(ctx, sc, {}, rule)
    fe.env[hp] = H_VALUE()
    fe.env[sp] = NC.letter("P")
    mod = sc.module
    found = 0
    from .common import normalize

    def strain_like(v):
        """typed value of a trial-strain / state-increment call (possibly nested, after helper inlining), else None"""
        if isinstance(v, ast.Name):
            x = fe.env.get(v.id)
            return x if isinstance(x, NC) else None
        if isinstance(v, ast.Call):
            d_ = dotted(v.func) or ""
            # trial strain: call of the module's elastic strain function -> [I,I] tensor (checked separately above)
            if d_.endswith(("compute_elastic_logarithmic_strain", "_compute_elastic_logarithmic_strain")):
                return fe.new_letter((If, If), True, "Ee")
            # state increment derived from the trial strain (isotropic function of it): same frames
            if d_.endswith(("compute_state_increment", "_compute_state_increment")) and v.args:
                src_t = strain_like(v.args[0])
                if isinstance(src_t, NC):
                    return fe.new_letter(fe.poly_type(src_t, v, "increment"), True, "dE")
        return None
    # statements in order; `a, b = helper(...)` of a straight-line helper is split into its components first
    stmts = []
    for st in ast.walk(sc.node):
        if isinstance(st, ast.Assign) and len(st.targets) == 1:
            t = st.targets[0]
            if isinstance(t, ast.Name):
                stmts.append((st, t.id, st.value))
            elif isinstance(t, ast.Tuple) and isinstance(st.value, ast.Call):
                nv = normalize(st.value, sc, stop=("compute_elastic_logarithmic_strain", "_compute_elastic_logarithmic_strain",
                                                   "compute_state_increment", "_compute_state_increment", "_return_state_for_branch"))
                if isinstance(nv, ast.Tuple) and len(nv.elts) == len(t.elts):
                    for te, ve in zip(t.elts, nv.elts):
                        if isinstance(te, ast.Name):
                            stmts.append((st, te.id, ve))
    try:
        for (st, tname, v) in stmts:
            if isinstance(v, ast.Call):
                sl = strain_like(v)
                if sl is not None:
                    fe.env[tname] = sl
                    continue
                if (dotted(v.func) or "").endswith(("compute_elastic_logarithmic_strain", "_compute_elastic_logarithmic_strain", "compute_state_increment", "_compute_state_increment")):
                    continue
            if isinstance(v, ast.Call) and (dotted(v.func) or "").endswith("_return_state_for_branch"):
                fe.env[tname] = NC.letter("P")
                continue
            # tensors built by matrix products: type them
            if any(isinstance(w, ast.BinOp) and isinstance(w.op, ast.MatMult) for w in ast.walk(v)):
                vv = _StateSub({sp} | {k for k, x in fe.env.items() if isinstance(x, NC)}).visit(copy.deepcopy(v))
                val = fe.ev(vv)
                fe.env[tname] = val
                if isinstance(val, NC):
                    ty = fe.poly_type(val, v, "new internal distortion")
                    found += 1
                    ok = ty == (If, Rf)
                    ctx.decide(rule, ok, sc, st, construct=f"{sc.name}:state-update-frames",
                               detail=f"`{norm_src(st)[:70]}` has frames {ty} like the distortion it replaces",
                               bad_detail=f"`{norm_src(st)[:90]}` has frames {ty}; the stored distortion has frames ('I','R'): "
                                          f"the update mixes configurations and is not invariant under rotations")
                continue
            try:
                vv = _StateSub({sp} | {k for k, x in fe.env.items() if isinstance(x, NC)}).visit(copy.deepcopy(v))
                val = fe.ev(vv)
                if isinstance(val, NC):
                    fe.env[tname] = val
            except (Unknown, NotPolynomial, KeyError):
                pass
    except FrameError as ex:
        ctx.refuted(rule, sc, ex.node, construct=f"{sc.name}:state-update-frames", detail=ex.msg)
        return
    except (Unknown, NotPolynomial, KeyError) as ex:
        ctx.undecided(rule, sc, None, construct=f"{sc.name}:state-update-frames", detail=f"outside the frame calculus: {ex}")
        return
    if found == 0:
        ctx.undecided(rule, sc, None, construct=f"{sc.name}:state-update-frames", detail="no matrix product defining the new distortion found")


def run_frames_state_only(ctx, rule, quals):
    for q, hp, sp in STATE_UPDATES:
        if q in quals:
            _state_update(ctx, rule, ctx.need(q), hp, sp)
    for q, binds, expect in TARGETS:
        if any(q.split(":")[0] == x.split(":")[0] for x in quals) and expect != "scalar":
            sc = ctx.need(q)
            fe = FrameEval(ctx, sc, {}, rule)
            for p in sc.params():
                k = binds.get(p)
                if k == "H":
                    fe.env[p] = H_VALUE()
                elif k == "state:P":
                    fe.env[p] = NC.letter("P")
            try:
                v = _run_with_state(fe, sc)
                ty = fe.poly_type(v, sc.node, "result") if isinstance(v, NC) else None
            except FrameError as ex:
                ctx.refuted(rule, sc, ex.node, construct=f"{sc.name}:frames", detail=ex.msg)
                continue
            except (Unknown, NotPolynomial, KeyError) as ex:
                ctx.undecided(rule, sc, None, construct=f"{sc.name}:frames", detail=f"expression outside the frame calculus: {ex}")
                continue
            ok = ty is not None and (ty == tuple(expect) or ty == ("*", "*"))
            ctx.decide(rule, ok, sc, None, construct=f"{sc.name}:result-frames", detail=f"result has frames {ty}",
                       bad_detail=f"{sc.name} returns a tensor with frames {ty}, expected {expect}: it would change under a superposed rotation")
