"""C17_sym -- symbolic model of the safeguarded scalar root finder (shared machinery of rules/C17.py).

Nothing here looks at statement text, local names or a particular idiom.  The public entry point `find_root` is *interpreted*
(optilint.tensoreval, extended below by the idioms a JAX root finder can be written in) on symbolic data:

  * the user function is opaque: f(x) is the atom `f@<x>`, its derivative `df@<x>` (chain rule through wrappers by dual numbers);
  * `jax.lax.custom_root` is a recorder: the solver and the tangent solve it is handed are then *called* by the analysis;
  * `jax.lax.while_loop` is a recorder as well: the analysis looks at the initial carry, calls the loop body / loop guard on a
    symbolic carry and feeds a symbolic loop result to the code after the loop;
  * the loop carry may be any pytree (tuple, list, namedtuple, typing.NamedTuple, dict, nesting of these): the analysis works on
    its leaves, and finds out which leaf plays which role from the values / the behaviour, never from a name or a position;
  * comparisons are decided at one exact rational sample per situation, values stay symbolic (rational functions of the atoms).
"""
from __future__ import annotations

import ast
from fractions import Fraction as F

from optilint.core import Incomplete
from optilint.expr import simplify
from optilint.tensoreval import (Interp, Dual, Arr, PyFunc, Record, Ext, Closure, Env, EvalError, Raised, NamedTupleVal, _A, ONE, R,
                                 rat_const, rat_is_zero)

EVAL_ERRORS = (EvalError, Raised, KeyError, TypeError, AttributeError, IndexError, ValueError, RecursionError)
NAN = "jax.numpy.nan"


# ------------------------------------------------------------------------------------------------ values

class Partial:
    """functools.partial(fn, *args, **kw)"""
    def __init__(self, fn, args, kw):
        self.fn, self.args, self.kw = fn, tuple(args), dict(kw)

    def __repr__(self):
        return f"<partial {self.fn!r}>"


class Instance:
    """instance of a plain repo class with an __init__ (attributes set by assignment, methods bound on access)"""
    def __init__(self, cls):
        self.cls, self.attrs = cls, {}

    def __repr__(self):
        return f"<instance of {self.cls.name}>"

    def method(self, name):
        for c in self.cls.children:
            if c.kind == "function" and c.name == name:
                return c
        return None


def is_nan(v):
    return (isinstance(v, Ext) and v.name.split(".")[-1].lower() == "nan") or (isinstance(v, Dual) and "@nan" in v.a.atoms())


def is_number(v):
    return isinstance(v, (int, F, float, Dual)) and not isinstance(v, bool)


def const_of(v):
    """exact constant value of a scalar leaf, None when symbolic / not a number"""
    if isinstance(v, bool):
        return None
    if isinstance(v, (int, F)):
        return F(v)
    if isinstance(v, Dual):
        return rat_const(v.a)
    return None


# ------------------------------------------------------------------------------------------------ pytrees

def flatten(v, path=""):
    """-> (leaves, paths, rebuild).  Containers: tuple, list, namedtuple record, dict (sorted keys), 1-d numeric array; None has no leaf."""
    if v is None:
        return [], [], (lambda ls: None)
    if isinstance(v, (tuple, list)):
        kids = [flatten(x, f"{path}[{i}]") for i, x in enumerate(v)]
        typ = type(v)
        return _join(kids, lambda parts: typ(parts))
    if isinstance(v, Record):
        kids = [flatten(x, f"{path}.{n}") for n, x in zip(v.fields, v.values)]
        return _join(kids, lambda parts, v=v: Record(v.tname, v.fields, parts, cls=v.cls))
    if isinstance(v, dict):
        keys = sorted(v, key=repr)
        kids = [flatten(v[k], f"{path}[{k!r}]") for k in keys]
        return _join(kids, lambda parts: dict(zip(keys, parts)))
    if isinstance(v, Arr) and v.ndim == 1 and not v.isbool:
        kids = [flatten(x, f"{path}[{i}]") for i, x in enumerate(v.data)]
        return _join(kids, lambda parts, v=v: Arr([Dual.of(p) for p in parts], v.shape))
    return [v], [path or "<carry>"], (lambda ls: ls[0])


def _join(kids, make):
    leaves, paths, sizes = [], [], []
    for ls, ps, _ in kids:
        leaves += ls
        paths += ps
        sizes.append(len(ls))

    def rebuild(new):
        parts, k = [], 0
        for (ls, ps, rb), n in zip(kids, sizes):
            parts.append(rb(list(new[k:k + n])))
            k += n
        return make(parts)
    return leaves, paths, rebuild


# ------------------------------------------------------------------------------------------------ interpreter

_UFUNC2 = {"add": lambda a, b: a + b, "subtract": lambda a, b: a - b, "multiply": lambda a, b: a * b, "divide": lambda a, b: a / b,
           "true_divide": lambda a, b: a / b}
_COMPARE = {"less": ast.Lt, "less_equal": ast.LtE, "greater": ast.Gt, "greater_equal": ast.GtE, "equal": ast.Eq, "not_equal": ast.NotEq}

class RootInterp(Interp):
    """tensoreval.Interp + the idioms a scalar JAX kernel can be refactored into: functools.partial, lax.switch / select / cond with
    keyword operand, logical_* / minimum / maximum / isnan / finfo, value_and_grad / grad / jvp of any callable (dual numbers),
    namedtuple methods (_replace, _asdict, _make, _fields), `**` in calls and dict displays, *args / **kwargs parameters, unpacking
    and iteration of arrays, annotated assignments, walrus."""

    # ---- sequences
    def seq(self, v):
        if isinstance(v, Arr):
            return [v.index(i) for i in range(v.shape[0])]
        if isinstance(v, Record):
            return list(v.values)
        if isinstance(v, (tuple, list)):
            return list(v)
        if isinstance(v, dict):
            return list(v.keys())
        raise EvalError(f"not a sequence: {v!r}")

    # ---- expressions
    def e_Call(self, e, env):
        f = self.eval(e.func, env)
        args = []
        for a in e.args:
            if isinstance(a, ast.Starred):
                args += self.seq(self.eval(a.value, env))
            else:
                args.append(self.eval(a, env))
        kwargs = {}
        for k in e.keywords:
            v = self.eval(k.value, env)
            if k.arg:
                kwargs[k.arg] = v
            elif isinstance(v, dict):
                kwargs.update(v)
            elif isinstance(v, Record):
                kwargs.update(dict(zip(v.fields, v.values)))
            else:
                raise EvalError("** of a value that is not a mapping")
        return self.call(f, args, kwargs)

    def e_Dict(self, e, env):
        out = {}
        for k, v in zip(e.keys, e.values):
            if k is None:
                d = self.eval(v, env)
                if not isinstance(d, dict):
                    raise EvalError("** of a value that is not a dict")
                out.update(d)
            else:
                out[self.eval(k, env)] = self.eval(v, env)
        return out

    def compare(self, a, op, b):
        # elementwise comparison of a small 1-d array with a scalar (vectorised end-point checks): a tuple of booleans
        if isinstance(a, Arr) and a.ndim == 1 and not isinstance(b, Arr) and not isinstance(op, (ast.In, ast.NotIn, ast.Is, ast.IsNot)):
            return tuple(super(RootInterp, self).compare(x, op, b) for x in a.data)
        if isinstance(b, Arr) and b.ndim == 1 and not isinstance(a, Arr) and not isinstance(op, (ast.In, ast.NotIn, ast.Is, ast.IsNot)):
            return tuple(super(RootInterp, self).compare(a, op, x) for x in b.data)
        return super().compare(a, op, b)

    def e_NamedExpr(self, e, env):
        v = self.eval(e.value, env)
        self.assign(e.target, v, env)
        return v

    def e_UnaryOp(self, e, env):
        if isinstance(e.op, ast.Invert):
            v = self.eval(e.operand, env)
            if isinstance(v, bool):
                return not v
            raise EvalError(f"~ of the non-boolean {v!r}")
        return super().e_UnaryOp(e, env)

    def e_Attribute(self, e, env):
        base = self.eval(e.value, env)
        a = e.attr
        if isinstance(base, Record) and a not in base.fields:
            if a == "_replace":
                def repl(it, args, kw, base=base):
                    vals = list(base.values)
                    for k, v in kw.items():
                        if k not in base.fields:
                            raise EvalError(f"_replace: no field {k}")
                        vals[base.fields.index(k)] = v
                    return Record(base.tname, base.fields, vals, cls=base.cls)
                return PyFunc("_replace", repl)
            if a == "_asdict":
                return PyFunc("_asdict", lambda it, args, kw, base=base: dict(zip(base.fields, base.values)))
            if a == "_fields":
                return tuple(base.fields)
        if isinstance(base, NamedTupleVal):
            if a == "_fields":
                return tuple(base.fields)
            if a == "_make":
                return PyFunc("_make", lambda it, args, kw, base=base: it.call(base, it.seq(args[0]), {}))
        if isinstance(base, (bool, int, F, Dual)) or is_nan(base):
            if a == "astype":
                return PyFunc("astype", lambda it, args, kw, base=base: it.convert(base, args[0] if args else kw.get("dtype")))
            if a in ("item", "squeeze", "copy", "ravel", "flatten"):
                return PyFunc(a, lambda it, args, kw, base=base: base)
            if a == "real":
                return base
        if isinstance(base, dict) and a == "values":
            return PyFunc("values", lambda it, args, kw, base=base: list(base.values()))
        if isinstance(base, dict) and a == "copy":
            return PyFunc("copy", lambda it, args, kw, base=base: dict(base))
        if isinstance(base, Instance):
            if a in base.attrs:
                return base.attrs[a]
            m = base.method(a)
            if m is not None:
                decos = [ast.unparse(d) for d in m.node.decorator_list]
                cl = Closure(m, self.module_env(m.module))
                if "staticmethod" in decos:
                    return cl
                if "property" in decos:
                    return self.call_closure(cl, [base], {})
                return Partial(cl, [base], {})
            raise EvalError(f"attribute {a} of {base!r}")
        if isinstance(base, Partial):
            if a == "func":
                return base.fn
            if a == "args":
                return base.args
            if a == "keywords":
                return dict(base.kw)
        env2 = Env(env.scope, env)
        env2.vars["__base"] = base
        return super().e_Attribute(ast.Attribute(value=ast.Name(id="__base", ctx=ast.Load()), attr=a, ctx=ast.Load()), env2)

    def convert(self, v, dtype):
        name = dtype.name.split(".")[-1] if isinstance(dtype, Ext) else str(dtype)
        if isinstance(v, bool):
            if name.startswith("bool"):
                return v
            return 1 if v else 0
        if name.startswith("bool"):
            return self.truth(v)
        return v

    # ---- calls
    def call(self, f, args, kwargs):
        if isinstance(f, Partial):
            return self.call(f.fn, list(f.args) + list(args), {**f.kw, **kwargs})
        if isinstance(f, Instance):
            m = f.method("__call__")
            if m is None:
                raise EvalError(f"{f!r} is not callable")
            return self.call_closure(Closure(m, self.module_env(m.module)), [f] + list(args), kwargs)
        return super().call(f, args, kwargs)

    def call_closure(self, f, args, kwargs):
        sc = f.scope
        if sc.is_function() and (sc.has_varargs() or sc.has_kwargs()) and sc.qualname not in self.special:
            ps = sc.params()
            args, kwargs = list(args), dict(kwargs)
            va = sc.node.args.vararg.arg if sc.has_varargs() else None
            if va is not None:
                kwargs[va] = tuple(args[len(ps):])
                args = args[:len(ps)]
            if sc.has_kwargs():
                known = set(ps) | set(sc.kwonly()) | {va}
                extra = {k: v for k, v in kwargs.items() if k not in known}
                kwargs = {k: v for k, v in kwargs.items() if k in known}
                kwargs[sc.node.args.kwarg.arg] = extra
        return super().call_closure(f, args, kwargs)

    def as_index(self, v):
        if isinstance(v, bool):
            return 1 if v else 0
        return self.as_int(v)

    def magnitude(self, v):
        """|v| of a scalar whose sign is known at the sample point (the tangent is dropped: only used in comparisons)"""
        v = Dual(self.num(v).a)
        return self.neg(v) if self.compare(v, ast.Lt(), Dual(0)) else v

    def extremum(self, a, b, smaller):
        """minimum / maximum of two scalars as JAX differentiates them: the tangent of the selected operand; where the operands are
        the *same* value (a tie, e.g. a point clipped to the bound it sits on) each operand contributes half of its tangent."""
        if not (isinstance(a, Dual) and isinstance(b, Dual)):
            raise EvalError("minimum / maximum of arrays")
        if _A.equal(a.a, b.a) and not _A.equal(a.b, b.b):
            return Dual(a.a, _A.norm((a.b + b.b) / R(2)))
        lt = self.compare(a, ast.Lt(), b)
        return (a if lt else b) if smaller else (b if lt else a)

    def derivative_pair(self, fn, args, kwargs, argnum=0, tangent=None):
        """(value, d value / d args[argnum]) by forward-mode dual numbers; the opaque user function supplies its own rule."""
        a2 = list(args)
        x = self.num(a2[argnum]) if not is_nan(a2[argnum]) else None
        if x is None:
            # derivative at NaN: both parts are NaN-valued atoms of the opaque function
            r = self.call(fn, a2, kwargs)
            return r, Dual(_A.atom("@nan"))
        if not isinstance(x, Dual) or not rat_is_zero(x.b):
            raise EvalError("derivative with respect to a non-scalar / eps-dependent argument")
        a2[argnum] = Dual(x.a, ONE if tangent is None else R(tangent))
        r = self.num(self.call(fn, a2, kwargs))
        if not isinstance(r, Dual):
            raise EvalError("derivative of a non-scalar function")
        return Dual(r.a), Dual(r.b)

    def call_ext(self, name, args, kwargs):
        if name in self.ext_special:
            return self.ext_special[name](self, args, kwargs)
        last = name.split(".")[-1]
        numpy = name.startswith(("jax.numpy.", "numpy."))
        if name.startswith("class:"):
            csc = self.repo.find(name[len("class:"):])
            init = None if csc is None else next((c for c in csc.children if c.kind == "function" and c.name == "__init__"), None)
            if init is not None:
                obj = Instance(csc)
                cenv = Env(csc, self.module_env(csc.module))
                for st in csc.node.body:          # class-level constants
                    if isinstance(st, (ast.Assign, ast.AnnAssign)):
                        try:
                            self.stmt(st, cenv)
                        except EvalError:
                            pass
                obj.attrs.update(cenv.vars)
                self.call_closure(Closure(init, self.module_env(init.module)), [obj] + list(args), kwargs)
                return obj
        if name in ("jax.tree_util.tree_map", "jax.tree_map", "jax.tree.map"):
            flats = [flatten(t) for t in args[1:]]
            if not flats or any(len(fl[0]) != len(flats[0][0]) for fl in flats):
                raise EvalError("tree_map over trees of different structure")
            return flats[0][2]([self.call(args[0], [fl[0][k] for fl in flats], {}) for k in range(len(flats[0][0]))])
        if name == "functools.reduce":
            items = self.seq(args[1])
            acc = args[2] if len(args) > 2 else items.pop(0)
            for it_ in items:
                acc = self.call(args[0], [acc, it_], {})
            return acc
        if numpy and last in _UFUNC2 and len(args) == 2 and not any(isinstance(x, (Arr, bool)) for x in args):
            a, b = self.num(args[0]), self.num(args[1])
            return _UFUNC2[last](a, b)
        if numpy and last in _COMPARE and len(args) == 2 and not any(isinstance(x, Arr) for x in args):
            return self.compare(args[0], _COMPARE[last](), args[1])
        if numpy and last in ("negative",) and len(args) == 1:
            return self.neg(args[0])
        if numpy and last in ("square",) and len(args) == 1 and not isinstance(args[0], Arr):
            return self.num(args[0]) * self.num(args[0])
        if numpy and last in ("reciprocal",) and len(args) == 1 and not isinstance(args[0], Arr):
            return Dual(1) / self.num(args[0])
        if numpy and last == "mean" and len(args) == 1 and not is_number(args[0]):
            items = self.seq(args[0])
            acc = Dual(0)
            for x in items:
                acc = acc + self.num(x)
            return acc / Dual(len(items))
        if numpy and last == "prod" and len(args) == 1:
            acc = Dual(1)
            for x in (self.seq(args[0]) if not is_number(args[0]) else [args[0]]):
                acc = acc * self.num(x)
            return acc
        if name in ("functools.partial", "jax.tree_util.Partial"):
            return Partial(args[0], args[1:], kwargs)
        if name == "jax.value_and_grad":
            k = self.as_int(args[1] if len(args) > 1 else kwargs.get("argnums", 0))
            if kwargs.get("has_aux"):
                raise EvalError("value_and_grad(has_aux=True)")
            fn = args[0]
            return PyFunc(f"value_and_grad({fn!r})", lambda it, a, kw, fn=fn, k=k: it.derivative_pair(fn, a, kw, k))
        if name in ("jax.grad", "jax.jacfwd", "jax.jacrev", "jax.jacobian"):
            k = self.as_int(args[1] if len(args) > 1 else kwargs.get("argnums", 0))
            fn = args[0]
            return PyFunc(f"grad({fn!r})", lambda it, a, kw, fn=fn, k=k: it.derivative_pair(fn, a, kw, k)[1])
        if name == "jax.jvp":
            fn, primals, tangents = args[0], self.seq(args[1]), self.seq(args[2])
            if len(primals) != 1:
                raise EvalError("jvp of a function of several arguments")
            t = const_of(tangents[0])
            if t is None:
                raise EvalError("jvp with a symbolic tangent")
            return self.derivative_pair(fn, primals, {}, 0, tangent=t)
        if name == "jax.lax.stop_gradient" and args and isinstance(args[0], Dual):
            return Dual(args[0].a)          # the value without its tangent
        if name in ("jax.lax.stop_gradient", "jax.block_until_ready", "jax.numpy.squeeze", "jax.numpy.ravel", "jax.numpy.real") \
                and args and (isinstance(args[0], (bool, int, F, Dual)) or is_nan(args[0])):
            return args[0]
        if name == "jax.lax.cond":
            pred = kwargs["pred"] if "pred" in kwargs else args[0]
            pos = list(args[1:]) if "pred" not in kwargs else list(args)
            tf = kwargs["true_fun"] if "true_fun" in kwargs else pos.pop(0)
            ff = kwargs["false_fun"] if "false_fun" in kwargs else pos.pop(0)
            ops = pos + ([kwargs["operand"]] if "operand" in kwargs else [])
            return self.call(tf if self.truth(pred) else ff, ops, {})
        if name == "jax.lax.switch":
            idx = kwargs["index"] if "index" in kwargs else args[0]
            pos = list(args[1:]) if "index" not in kwargs else list(args)
            branches = kwargs["branches"] if "branches" in kwargs else pos.pop(0)
            branches = self.seq(branches)
            ops = pos + ([kwargs["operand"]] if "operand" in kwargs else [])
            i = min(max(self.as_index(idx), 0), len(branches) - 1)        # lax.switch clamps the index
            return self.call(branches[i], ops, {})
        if name == "jax.lax.clamp" and len(args) == 3:
            # lax.clamp(lo, x, hi) passes the tangent of x only strictly inside (lo, hi)
            lo, x, hi = (self.num(a) for a in args)
            if isinstance(x, Dual) and isinstance(lo, Dual) and isinstance(hi, Dual):
                if self.compare(x, ast.Lt(), lo):
                    return Dual(lo.a)
                if self.compare(x, ast.Gt(), hi):
                    return Dual(hi.a)
                inside = self.compare(x, ast.Gt(), lo) and self.compare(x, ast.Lt(), hi)
                return x if inside else Dual(x.a)
            return super().call_ext("jax.numpy.clip", [args[1], args[0], args[2]], {})
        if numpy and last in ("full_like",) and len(args) >= 2 and (is_number(args[0]) or is_nan(args[0]) or isinstance(args[0], bool)):
            return args[1]
        if numpy and last in ("ones_like", "zeros_like") and args and (is_number(args[0]) or is_nan(args[0])):
            return Dual(1 if last == "ones_like" else 0)
        if numpy and last in ("array", "asarray", "stack") and args and isinstance(args[0], (list, tuple)) and args[0] and all(isinstance(x, bool) for x in args[0]):
            return tuple(args[0])
        if numpy and last == "select" and len(args) >= 2:
            conds, choices = self.seq(args[0]), self.seq(args[1])
            default = args[2] if len(args) > 2 else kwargs.get("default", 0)
            for c, v in zip(conds, choices):
                if self.truth(c):
                    return v
            return default
        if name == "jax.lax.select":
            return args[1] if self.truth(args[0]) else args[2]
        if numpy and last in ("where",) and (kwargs or len(args) == 3):
            c = kwargs.get("condition", args[0] if args else None)
            rest = list(args[1:]) if "condition" not in kwargs else list(args)
            x = kwargs["x"] if "x" in kwargs else rest.pop(0)
            y = kwargs["y"] if "y" in kwargs else rest.pop(0)
            if isinstance(c, Arr):
                raise EvalError("np.where with an array condition")
            return x if self.truth(c) else y
        if numpy and last in ("logical_or", "bitwise_or") and len(args) == 2:
            return self.truth(args[0]) or self.truth(args[1])
        if numpy and last in ("logical_and", "bitwise_and") and len(args) == 2:
            return self.truth(args[0]) and self.truth(args[1])
        if numpy and last in ("logical_xor", "bitwise_xor") and len(args) == 2:
            return self.truth(args[0]) != self.truth(args[1])
        if numpy and last in ("logical_not", "invert", "bitwise_not") and len(args) == 1:
            return not self.truth(args[0])
        if numpy and last in ("any", "all") and len(args) == 1 and isinstance(args[0], (tuple, list)):
            vals = [self.truth(x) for x in args[0]]
            return any(vals) if last == "any" else all(vals)
        if (numpy and last in ("minimum", "maximum", "fmin", "fmax")) and len(args) == 2:
            a, b = self.num(args[0]), self.num(args[1])
            return self.extremum(a, b, last in ("minimum", "fmin"))
        if numpy and last == "isnan" and len(args) == 1:
            return is_nan(args[0])
        if numpy and last == "isfinite" and len(args) == 1:
            return not is_nan(args[0])
        if numpy and last in ("finfo",):
            names = ["eps", "tiny", "smallest_normal", "resolution"]
            return Record("finfo", names, [Dual(_A.atom("@" + n)) for n in names])
        if numpy and last in ("fabs",):
            return super().call_ext("jax.numpy.abs", args, kwargs)
        if numpy and last == "clip":
            pos = list(args)
            x = pos.pop(0) if pos else kwargs.get("a", kwargs.get("x", kwargs.get("arr")))
            lo = pos.pop(0) if pos else kwargs.get("a_min", kwargs.get("min"))
            hi = pos.pop(0) if pos else kwargs.get("a_max", kwargs.get("max"))
            if x is None or (lo is None and hi is None):
                raise EvalError("np.clip without bounds")
            x = self.num(x)
            if not isinstance(x, Dual):
                if lo is None or hi is None:
                    raise EvalError("np.clip of an array with an open end")
                return super().call_ext("jax.numpy.clip", [x, lo, hi], {})
            # jax.numpy.clip(x, lo, hi) is minimum(maximum(x, lo), hi), tangents included
            if lo is not None:
                x = self.extremum(x, self.num(lo), False)
            if hi is not None:
                x = self.extremum(x, self.num(hi), True)
            return x
        if numpy and last in ("isclose", "allclose") and len(args) >= 2 and not any(isinstance(v, (Arr, tuple, list)) for v in args[:2]):
            # |a - b| <= atol + rtol * |b|
            if is_nan(args[0]) or is_nan(args[1]):
                return bool(kwargs.get("equal_nan", False)) and is_nan(args[0]) and is_nan(args[1])
            a, b = self.num(args[0]), self.num(args[1])
            rtol = self.num(args[2] if len(args) > 2 else kwargs.get("rtol", F(1, 10 ** 5)))
            atol = self.num(args[3] if len(args) > 3 else kwargs.get("atol", F(1, 10 ** 8)))
            return self.compare(self.magnitude(a - b), ast.LtE(), atol + rtol * self.magnitude(b))
        if name == "math.isclose" and len(args) == 2:
            # |a - b| <= max(rel_tol * max(|a|, |b|), abs_tol)
            a, b = self.num(args[0]), self.num(args[1])
            rel, ab = self.num(kwargs.get("rel_tol", F(1, 10 ** 9))), self.num(kwargs.get("abs_tol", 0))
            d, ma, mb = self.magnitude(a - b), self.magnitude(a), self.magnitude(b)
            return self.compare(d, ast.LtE(), rel * ma) or self.compare(d, ast.LtE(), rel * mb) or self.compare(d, ast.LtE(), ab)
        if numpy and last in ("array", "asarray", "float64", "float32", "float_", "int32", "int64", "int_", "bool_") and args:
            v = args[0]
            if isinstance(v, bool):
                return v if last in ("array", "asarray", "bool_") and "int" not in str(kwargs.get("dtype", "")) else self.convert(v, last)
            if is_nan(v):
                return v
            if last == "bool_":
                return self.truth(v)
            if isinstance(v, (int, F, Dual)):
                return v
        if name == "builtins.abs":
            return super().call_ext("jax.numpy.abs", args, kwargs)
        if name == "builtins.float" and args and isinstance(args[0], str):
            if args[0].strip().lower() in ("nan", "+nan", "-nan"):
                return Ext(NAN)
            raise EvalError(f"float({args[0]!r})")
        if name == "builtins.bool":
            return self.truth(args[0])
        if name == "builtins.int" and args and isinstance(args[0], bool):
            return 1 if args[0] else 0
        if name == "builtins.zip":
            return list(zip(*[self.seq(a) for a in args]))
        if name == "builtins.enumerate":
            return list(enumerate(self.seq(args[0]), *[self.as_int(a) for a in args[1:]]))
        if name == "builtins.dict":
            out = dict(args[0]) if args else {}
            out.update(kwargs)
            return out
        if name == "builtins.getattr" and len(args) >= 2 and isinstance(args[0], Record) and isinstance(args[1], str):
            if args[1] in args[0].fields:
                return args[0].get(args[1])
            if len(args) > 2:
                return args[2]
        if name in ("builtins.tuple", "builtins.list") and args:
            s = self.seq(args[0])
            return tuple(s) if name.endswith("tuple") else s
        if name == "builtins.len" and args and isinstance(args[0], Record):
            return len(args[0].values)
        if name in ("math.isnan",):
            return is_nan(args[0])
        if name in ("math.nan",):
            return Ext(NAN)
        return super().call_ext(name, args, kwargs)

    # ---- statements
    def stmt(self, st, env):
        if isinstance(st, ast.AnnAssign):
            if st.value is not None:
                self.assign(st.target, self.eval(st.value, env), env)
            return
        if isinstance(st, ast.With):
            return self.block(st.body, env)       # context managers of a numeric kernel (named scopes, profiler annotations) do not change values
        if isinstance(st, ast.Expr) and not isinstance(st.value, ast.Constant):
            try:
                self.eval(st.value, env)
            except EvalError:
                pass                              # the value of an expression statement is discarded (debug prints, checks)
            return
        if isinstance(st, ast.For):
            for x in self.seq(self.eval(st.iter, env)):
                self.assign(st.target, x, env)
                self.block(st.body, env)
            return
        return super().stmt(st, env)

    def assign(self, t, v, env):
        if isinstance(t, (ast.Tuple, ast.List)):
            vs = self.seq(v)
            stars = [i for i, x in enumerate(t.elts) if isinstance(x, ast.Starred)]
            if len(stars) == 1:
                i = stars[0]
                tail = len(t.elts) - i - 1
                if len(vs) < len(t.elts) - 1:
                    raise EvalError("unpack width")
                mid = vs[i:len(vs) - tail]
                targets = list(t.elts[:i]) + [t.elts[i].value] + list(t.elts[i + 1:])
                values = vs[:i] + [mid] + vs[len(vs) - tail:] if tail else vs[:i] + [mid]
                for a, b in zip(targets, values):
                    self.assign(a, b, env)
                return
            if len(vs) != len(t.elts):
                raise EvalError("unpack width")
            for a, b in zip(t.elts, vs):
                self.assign(a, b, env)
            return
        if isinstance(t, ast.Attribute):
            base = self.eval(t.value, env)
            if isinstance(base, Instance):
                base.attrs[t.attr] = v
                return
            raise EvalError(f"attribute store on {base!r}")
        return super().assign(t, v, env)


# ------------------------------------------------------------------------------------------------ the model

class Run:
    """One symbolic execution of find_root's solver."""
    def __init__(self):
        self.I = None
        self.f = None
        self.custom_root = None     # dict f / initial_guess / solve / tangent_solve / has_aux
        self.loops = []             # (cond, body, init) of every while_loop reached by the solver
        self.out = None             # what the solver returned
        self.settings = None

    @property
    def loop(self):
        return self.loops[0] if self.loops else None


class RootModel:
    MAX_ITERS = 37      # deliberately not the default of get_settings

    def __init__(self, ctx, modname):
        self.ctx = ctx
        self.modname = modname
        self.mod = ctx.need_module(modname)

    # ---- interpreter whose comparisons are decided at the sample point `env`
    def interp(self, env):
        I = RootInterp(self.ctx.repo)
        defaults = {"@eps": F(1, 2 ** 52), "@tiny": F(1, 2 ** 1022), "@smallest_normal": F(1, 2 ** 1022), "@resolution": F(1, 10 ** 15)}

        def val(d):
            e = dict(env)
            for a in d.atoms():
                if a in e:
                    continue
                # the outer function `fo` (find_root's own argument) takes the same sample values as the solver's argument `f`
                b = a.replace("fo@", "f@", 1) if a.startswith(("fo@", "dfo@")) else a
                if b in e:
                    e[a] = e[b]
                elif b.startswith("f@"):
                    e[a] = env.get("f@*", F(1, 3))
                elif b.startswith("df@"):
                    e[a] = env.get("df@*", F(2))
                elif a == "x0o" and "x0" in e:
                    e[a] = e["x0"]
                elif a in defaults:
                    e[a] = defaults[a]
                else:
                    return None
            try:
                return _A.eval(d, e)
            except Exception:
                return None
        I.policy = val
        return I

    @staticmethod
    def key(I, x):
        if is_nan(x):
            return "nan"
        return repr(simplify(I.num(x).a))

    def opaque(self, name):
        """an unknown differentiable scalar function: name(x) = atom `name@x`, derivative atom `dname@x`"""
        def fn(it, a, k):
            if len(a) != 1 or k:
                raise EvalError(f"the user function {name} is called with {len(a)} positional and {len(k)} keyword arguments")
            x = a[0]
            kx = self.key(it, x)
            if kx == "nan":
                return Dual(_A.atom(f"{name}@nan"))
            x = it.num(x)
            if not isinstance(x, Dual):
                raise EvalError(f"the user function {name} is called on an array")
            # remember where the function was evaluated: atoms are compared through their arguments, not through their spelling
            it.__dict__.setdefault("opaque_args", {})[f"{name}@{kx}"] = Dual(x.a)
            it.opaque_args[f"d{name}@{kx}"] = Dual(x.a)
            return Dual(_A.atom(f"{name}@{kx}"), _A.norm(_A.atom(f"d{name}@{kx}") * x.b))

        def grad(it, a, k):
            v = it.derivative_pair(PyFunc(name, fn), a, k)[1]
            return v
        return PyFunc(name, fn, grad=grad)

    @staticmethod
    def applied_at(I, v, prefix):
        """the argument x when the value v is exactly the atom `prefix@x` produced by the opaque function, else None"""
        if not isinstance(v, Dual) or not rat_is_zero(v.b):
            return None
        ats = list(v.a.atoms())
        if len(ats) != 1 or not ats[0].startswith(prefix + "@") or not _A.equal(v.a, _A.atom(ats[0])):
            return None
        return getattr(I, "opaque_args", {}).get(ats[0])

    def settings(self, I):
        gs = I.module_value(self.mod, "get_settings")
        return I.call(gs, [], {"max_iters": self.MAX_ITERS, "x_tol": Dual(_A.atom("xtol")), "r_tol": Dual(_A.atom("rtol"))})

    def outer_probe(self, env, root_atom):
        """What find_root returns when custom_root returns the root `root_atom` (a bracket end `b0` / `b1`, or a fresh symbol with a sample
        value in `env`) with tangent dROOT: the root component of the result, as a dual number.  JAX differentiates whatever find_root does
        to that result in the ordinary way, so the derivative of the returned root is the implicit-function-theorem value only if this
        component is the root itself with tangent exactly dROOT."""
        I = self.interp(env)
        rec = {}

        def custom_root(it, args, kw):
            names = ["f", "initial_guess", "solve", "tangent_solve", "has_aux"]
            d = dict(zip(names, args))
            d.update(kw)
            rec["has_aux"] = d.get("has_aux", False)
            root = Dual(_A.atom(root_atom), _A.atom("dROOT"))
            return (root, Ext("custom_root.aux")) if rec["has_aux"] else root
        I.ext_special["jax.lax.custom_root"] = custom_root
        find_root = I.module_value(self.mod, "find_root")
        A = lambda n: Dual(_A.atom(n))
        br = Arr([A("b0"), A("b1")], (2,))
        out = I.call(find_root, [self.opaque("fo"), A("x0o"), br, self.settings(I)], {})
        if "has_aux" not in rec:
            raise EvalError("custom_root not reached")
        if isinstance(out, (tuple, list)) and out:
            out = out[0]
        elif isinstance(out, Record) and out.values:
            out = out.values[0]
        return I.num(out)

    def run(self, env, loop_mode="init", x0=None, loop_result=None, solve=True):
        """Interpret find_root(fo, x0o, [b0, b1], get_settings(...)); then call the solver handed to custom_root on (f, x0).
        loop_mode 'init': while_loop returns its initial carry; 'result': it returns loop_result(initial carry)."""
        run = Run()
        I = run.I = self.interp(env)
        A = lambda n: Dual(_A.atom(n))

        def custom_root(it, args, kw):
            names = ["f", "initial_guess", "solve", "tangent_solve", "has_aux"]
            d = dict(zip(names, args))
            d.update(kw)
            d.setdefault("has_aux", False)
            run.custom_root = d
            return (A("ROOT"), Ext("custom_root.aux")) if d["has_aux"] else A("ROOT")

        def while_loop(it, args, kw):
            names = ["cond_fun", "body_fun", "init_val"]
            d = dict(zip(names, args))
            d.update(kw)
            run.loops.append((d["cond_fun"], d["body_fun"], d["init_val"]))
            if loop_mode == "init":
                return d["init_val"]
            return loop_result(d["init_val"])
        I.ext_special["jax.lax.custom_root"] = custom_root
        I.ext_special["jax.lax.while_loop"] = while_loop
        try:
            find_root = I.module_value(self.mod, "find_root")
        except EvalError as ex:
            raise Incomplete(f"{self.modname}.find_root: {ex}")
        run.settings = self.settings(I)
        br = Arr([A("b0"), A("b1")], (2,))
        run.outer_error = None
        try:
            run.outer = I.call(find_root, [self.opaque("fo"), A("x0o"), br, run.settings], {})
        except EvalError as ex:
            # what find_root does to the result of custom_root needs a concrete root (see outer_probe); the solver is analysed all the same
            if run.custom_root is None:
                raise
            run.outer, run.outer_error = None, str(ex)
        if run.custom_root is None:
            raise Incomplete("find_root does not reach jax.lax.custom_root: the way it is made differentiable is not recognised")
        if run.loops:
            raise Incomplete("find_root iterates outside the solver it hands to custom_root")
        if solve:
            run.f = self.opaque("f")
            run.out = I.call(run.custom_root["solve"], [run.f, A("x0") if x0 is None else x0], {})
        return run
