"""C01 -- trust-region minimizer: descent along accepted iterates, honest success flag.

  D1  success flag only from the convergence test, on the returned point, on its own gradient, with a
      tolerance comparison of matching homogeneity; parameters assigned before the solve (and after the
      warm start) in nonlinear_equation_solve; the flag returned to the caller is the solver's flag;
  D2  descent (default mode): acceptance implies ratio >= c >= 0; on every definition of the ratio the
      denominator is >= 0 on the paths where it is used; the numerator is -(value(x+step) - o) with `o`
      fresh for the current iterate; the accepted point is x + that very step;
  D3  reported/returned iterate: accepted iterates go to the callback; every exit returns the iterate
      state variable or the just-reported successful point;
  D4  NaN polarity: a NaN ratio rejects the step and shrinks the radius.
Not decided: finiteness beyond D4, that convex problems do converge, uniqueness of the minimiser.
"""
from __future__ import annotations

import ast

from optilint.cfg import cfg_of
from optilint.model import dotted, FuncVal, ParamVal
from optilint.core import Incomplete
from . import trustregion as tr
from .common import src

LEVEL = "other"
RULE_TEXT = ("obligations = (return statement x guarded-success) + (definition of the reduction ratio x sign proof) + "
             "(definition of the iterate x freshness/reporting) + NaN-polarity of acceptance and radius update + "
             "parameter assignment ordering; distinct = distinct (rule, function, construct)")
EXPLANATION = ("Path-sensitive static analysis (CFG dominators, reaching definitions with branch facts, sign and "
               "NaN-polarity domains) of EquationSolver.trust_region_minimize / is_converged / nonlinear_equation_solve. "
               "Proves for every path of the driver: a True flag is only returned behind the convergence test of the "
               "returned point's own gradient; an accepted step has objective.value(x+d) - o <= 0 in default mode; "
               "NaN ratios reject and shrink. Convergence behaviour and floating-point trajectories are not decided.")

DRV = tr.Driver("optimism.EquationSolver", "trust_region_minimize", "gradient", "C01")
ES = "optimism.EquationSolver"


def run(ctx):
    ctx.need_module(ES)
    ctx.need_module("optimism.Objective")
    ctx.guard(tr.d1_flag, ctx, DRV)
    ctx.guard(d1_params, ctx)
    ctx.guard(d1_objective_methods, ctx)
    ctx.guard(tr.d2_descent, ctx, DRV)
    ctx.guard(tr.d3_reported, ctx, DRV)
    ctx.guard(tr.d4_nan, ctx, DRV)
    from .common import settings_wiring
    ctx.guard(settings_wiring, ctx, "D1/T5-settings-wiring", ES)
    ctx.guard(boundary_labels, ctx, "D1/T6-boundary-labels-recognised", ES, "solve_trust_region_minimization")
    ctx.trust("IEEE-754: every ordered comparison with a NaN operand is false")
    ctx.trust("rho = N/M >= c >= 0 with M >= 0 implies N >= 0 (M = 0 gives +-inf or NaN; -inf and NaN fail rho >= c)")
    ctx.assume("default mode (settings.use_incremental_objective is False) for the descent clause, as in the property text")


def d1_params(ctx):
    rule = "D1/T2-parameters-before-solve"
    def is_solve(n):
        for c in ast.walk(n.ast):
            if isinstance(c, ast.Call) and isinstance(c.func, ast.Name) and c.func.id == "solver_algorithm":
                return True
        return False
    sc, cfg = tr.params_before_solve(ctx, rule, f"{ES}:nonlinear_equation_solve", 0, is_solve)
    # the flag returned to the caller is the flag of that solve
    for r in cfg.returns():
        v = r.ast.value
        ok = False
        shown = src(v)
        if isinstance(v, ast.Tuple) and len(v.elts) == 2 and isinstance(v.elts[1], ast.Name):
            ds = cfg.reaching(r, v.elts[1].id)
            if len(ds) == 1 and isinstance(ds[0].ast, ast.Assign) and isinstance(ds[0].ast.targets[0], ast.Tuple):
                t = ds[0].ast.targets[0]
                idx = [i for i, e in enumerate(t.elts) if isinstance(e, ast.Name) and e.id == v.elts[1].id]
                ok = idx == [1] and is_solve(ds[0])
        ctx.decide(rule, ok, sc, r.ast, construct="flag-is-solver-flag",
                   detail="returned flag is the second result of the solver call",
                   bad_detail=f"nonlinear_equation_solve returns `{shown}`; the flag is not the solver's own success flag")
    # default solver is the trust-region minimizer
    d = sc.default_of("solver_algorithm")
    ok = isinstance(d, ast.Name) and d.id == "trust_region_minimize"
    ctx.decide(rule, ok, sc, d, construct="default-solver", detail="default solver_algorithm is trust_region_minimize",
               bad_detail=f"default solver_algorithm is `{src(d)}`")


def d1_objective_methods(ctx):
    """`gradient` / `value` used by the driver evaluate under the objective's *current* parameters."""
    rule = "D1/T5-objective-uses-current-parameters"
    cls = ctx.need("optimism.Objective:Objective")
    table = {"value": "objective", "gradient": "grad_x", "hessian_vec": "hess_vec"}
    for mname, attr in table.items():
        m = ctx.need(f"optimism.Objective:Objective.{mname}")
        rets = m.returns()
        ok = len(rets) == 1 and isinstance(rets[0], ast.Call) and isinstance(rets[0].func, ast.Attribute) \
            and rets[0].func.attr == attr and len(rets[0].args) >= 2 and src(rets[0].args[0]) == m.params()[1] \
            and src(rets[0].args[1]) == "self.p"
        ctx.decide(rule, ok, m, rets[0] if rets else None, construct=f"Objective.{mname}",
                   detail=f"self.{attr}(x, self.p, ...)", bad_detail=f"Objective.{mname} returns `{src(rets[0]) if rets else '?'}`")
    init = ctx.need("optimism.Objective:Objective.__init__")
    want = {"objective": "jit(f)", "grad_x": "jit(grad(f, 0))"}
    for st in ast.walk(init.node):
        if isinstance(st, ast.Assign) and isinstance(st.targets[0], ast.Attribute) and st.targets[0].attr in want:
            a = st.targets[0].attr
            ctx.decide(rule, src(st.value) == want[a], init, st, construct=f"Objective.{a}",
                       detail=f"self.{a} = {src(st.value)}",
                       bad_detail=f"self.{a} = {src(st.value)}; expected {want[a]} (value and gradient of the same function w.r.t. x)")


def boundary_labels(ctx, rule, module, producer):
    """The trust-region radius is enlarged only after steps that `is_on_boundary` recognises.  The step-type labels are produced by
    the inner solver: every label it attaches to a step that was projected onto the trust-region boundary must be recognised, and
    no label of an interior step may be (otherwise the radius never grows / grows on interior steps and a convex problem far from
    the start is not solved within the iteration budget)."""
    from optilint.cfg import cfg_of
    from .common import expand, src
    prod = ctx.need(f"{module}:{producer}")
    cons = ctx.need(f"{module}:is_on_boundary")
    cfg = cfg_of(prod)
    on_b, interior = set(), set()
    for r in cfg.returns():
        v = r.ast.value
        if not isinstance(v, ast.Tuple) or len(v.elts) < 2:
            continue
        labels = [e.id for e in v.elts if isinstance(e, ast.Name) and e.id in prod.module.scope.bindings
                  and isinstance(getattr(prod.module.scope.bindings[e.id][-1], "value", None), ast.Constant)
                  and isinstance(prod.module.scope.bindings[e.id][-1].value.value, str)]
        if not labels:
            continue
        first = v.elts[0]
        pe = expand(cfg, r, first, depth=1) if isinstance(first, ast.Name) else first
        projected = isinstance(pe, ast.Call) and "project" in (dotted(pe.func) or "") and "boundary" in (dotted(pe.func) or "")
        (on_b if projected else interior).add(labels[0])
    rets = cons.returns()
    recog = set()
    shape_ok = len(rets) == 1
    if shape_ok:
        par = cons.params()[0]
        terms = rets[0].values if isinstance(rets[0], ast.BoolOp) and isinstance(rets[0].op, ast.Or) else [rets[0]]
        for t in terms:
            if isinstance(t, ast.Compare) and len(t.ops) == 1 and isinstance(t.ops[0], ast.Eq) and isinstance(t.left, ast.Name) and t.left.id == par \
                    and isinstance(t.comparators[0], ast.Name):
                recog.add(t.comparators[0].id)
            else:
                shape_ok = False
    if not on_b:
        ctx.undecided(rule, prod, None, construct="producer-labels", detail="no labelled boundary exits found in the inner solver")
        return
    ok = shape_ok and recog == on_b and not (recog & interior)
    ctx.decide(rule, ok, cons, rets[0] if rets else None, construct=f"{module.split('.')[-1]}:is_on_boundary=={sorted(on_b)}",
               detail=f"boundary exits are labelled {sorted(on_b)}, interior exits {sorted(interior)}; is_on_boundary recognises {sorted(recog)}",
               bad_detail=f"{producer} labels its boundary-projected steps {sorted(on_b)} (interior: {sorted(interior)}) but is_on_boundary recognises "
                          f"{sorted(recog)}: the trust region is not enlarged after {sorted(on_b - recog) or 'some'} steps, so a convex problem whose minimiser is far "
                          f"from the start is not reached within the iteration budget")


def variants(repo):
    from optilint.selftest import Variant, sub, sub_in_func, alpha_rename, reformat, commute
    E = "optimism/EquationSolver.py"
    O = "optimism/Objective.py"
    T = "trust_region_minimize"
    return [
        Variant("is_on_boundary forgets plain boundary steps", E, sub("    return stepType==boundaryString or stepType==negCurveString", "    return stepType==negCurveString"), "D1/T6-boundary-labels-recognised"),
        Variant("is_on_boundary accepts interior steps", E, sub("    return stepType==boundaryString or stepType==negCurveString", "    return stepType==boundaryString or stepType==negCurveString or stepType==interiorString"), "D1/T6-boundary-labels-recognised"),
        Variant("settings eta2/eta3 swapped", E, sub("    return Settings(t1, t2, eta1, eta2, eta3,", "    return Settings(t1, t2, eta1, eta3, eta2,"), "D1/T5-settings-wiring"),
        Variant("True at the small-radius exit", E,
                sub_in_func(T, "                    if callback: callback(x, objective)\n                    return x, False",
                            "                    if callback: callback(x, objective)\n                    return x, True"),
                "D1/T1-guarded-success"),
        Variant("test x, return y", E,
                sub_in_func(T, "if is_converged(objective, y, realObjective, modelObjective,", "if is_converged(objective, x, realObjective, modelObjective,"),
                "D1/T1-guarded-success"),
        Variant("test model residual instead of gradient", E,
                sub_in_func(T, "                            gy, g + Jd, cgIters, trSizeUsed, settings):", "                            g + Jd, gy, cgIters, trSizeUsed, settings):"),
                "D1/T1-guarded-success"),
        Variant("tol**2 -> tol", E, sub_in_func("is_converged", "if gg < settings.tol**2:", "if gg < settings.tol:"), "D1/T1-convergence-test"),
        Variant("< -> >", E, sub_in_func("is_converged", "if gg < settings.tol**2:", "if gg > settings.tol**2:"), "D1/T1-convergence-test"),
        Variant("drop o = objective.value(x)", E, sub_in_func(T, "                o = objective.value(x)\n", ""), "D2/T8-descent"),
        Variant("rho >= -1", E, sub_in_func(T, "(rho >= -0 and realResNorm <= gNorm)", "(rho >= -1 and realResNorm <= gNorm)"), "D2/T8-descent"),
        Variant("accept on residual decrease alone", E,
                sub_in_func(T, "willAccept = rho >= settings.eta1 or (rho >= -0 and realResNorm <= gNorm)", "willAccept = rho >= settings.eta1 or realResNorm <= gNorm"),
                "D2/T8-descent"),
        Variant("no re-sign on model increase", E,
                sub_in_func(T, "                rho = realImprove / -modelImprove\n", "                pass\n"), "D2/T8-descent"),
        Variant("accept x + Jd", E, sub_in_func(T, "                x = y\n", "                x = x + Jd\n"), "D2/T8-descent"),
        Variant("not rho >= eta2 -> rho < eta2", E,
                sub_in_func(T, "if not rho >= settings.eta2:", "if rho < settings.eta2:"), "D4/T12-nan-polarity"),
        Variant("willAccept = not rho < eta1", E,
                sub_in_func(T, "willAccept = rho >= settings.eta1 or", "willAccept = not rho < settings.eta1 or"), "D4/T12-nan-polarity"),
        Variant("remove objective.p = p on warm-start path", E,
                sub_in_func("nonlinear_equation_solve", "        xBar0 += dxBar\n        objective.p = p\n", "        xBar0 += dxBar\n"),
                "D1/T2-parameters-before-solve"),
        Variant("assign p before warm start", E,
                sub_in_func("nonlinear_equation_solve", "        dxBar = WarmStart.warm_start_increment(objective,",
                            "        objective.p = p\n        dxBar = WarmStart.warm_start_increment(objective,"),
                "D1/T2-parameters-before-solve"),
        Variant("return y at iteration cap", E,
                sub_in_func(T, "        if callback: callback(x, objective)\n    return x, False", "        if callback: callback(x, objective)\n    return y, False"),
                "D3/T2-reported-iterate"),
        Variant("drop callback after accept", E,
                sub_in_func(T, "                happyAboutTrSize = True\n\n                if callback: callback(x, objective)\n", "                happyAboutTrSize = True\n\n"),
                "D3/T2-reported-iterate"),
        Variant("Objective.gradient under stale params", O,
                sub("        return self.grad_x(x, self.p)", "        return self.grad_x(x, self.p0)"), "D1/T5-objective-uses-current-parameters"),
        Variant("reformat EquationSolver", E, reformat(), None),
        Variant("alpha-rename trust_region_minimize", E, alpha_rename(T), None),
        Variant("alpha-rename is_converged", E, alpha_rename("is_converged"), None),
        Variant("alpha-rename nonlinear_equation_solve", E, alpha_rename("nonlinear_equation_solve"), None),
        Variant("commute operands", E, commute(T), None),
    ]
