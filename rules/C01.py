"""C01 -- trust-region minimizer: descent along accepted iterates, honest success flag.

Decided on the symbolic paths of the driver (rules/C01_symx.py: path-enumerating symbolic execution with exact polynomial values over
opaque atoms, inlined helpers and closures, loops generalised by the relations every iteration keeps; rules/C01_tr.py: the obligations).
Variables are found by role (what they hold, what they are passed to), never by name; a failed proof is a REFUTED obligation only when
the two sides differ in known structure (if necessary after one more loop iteration), otherwise it is UNDECIDED.

  D1  success flag only from the convergence test, on the returned point, on its own gradient, with a tolerance comparison of matching
      homogeneity (an upper bound on a norm of the residual, false for NaN); in nonlinear_equation_solve objective.p is the requested p
      whenever the solve starts and still the old p when the warm start runs; the flag returned to the caller is the solver's flag;
      Objective.value / gradient / hessian_vec evaluate f / grad(f, 0) under the *current* self.p; the same for every class derived from
      Objective (ScaledObjective, the constrained objectives: the whole constructor chain incl. super().__init__ is interpreted, methods are
      resolved along the MRO): value and gradient are those of one stored function F, and the parameter flow through F -- jit wrappers,
      closures, partial applications, derivative transforms are seen through -- hands the current self.p, not the parameters the constructor
      stored (and not parameters read from the object while a jit-compiled function is traced), to every function of the caller that is
      evaluated at the call-time point;
      settings factories fill fields by name; the step labels that mean "on the boundary" are the ones is_on_boundary recognises;
  D2  descent (default mode): every newly reported, non-converged iterate P is accepted on a path that decides ratio >= c >= 0, the sign
      of the ratio's denominator is decided on that path, the numerator is -(value(P) - value(current iterate)) -- so the reference value
      is fresh and the reported point is the trial point -- hence value(P) <= value(current);
  D3  reported/returned iterate: in every loop the iterate variable is the last point handed to the callback; every new reported point is
      the converged point or the iterate the solver goes on with; every exit returns the last reported point (the start point if none);
  D4  NaN polarity: on every path where all comparisons on the reduction ratio are false, no step is accepted and the first change of
      the radius multiplies it by a factor in [0, 1).
Not decided: finiteness beyond D4, that convex problems do converge, uniqueness of the minimiser.
"""
from __future__ import annotations

import ast

from optilint.core import Incomplete
from . import C01_tr as tr
from .common import src

LEVEL = "other"
RULE_TEXT = ("obligations = (exit of the driver x guarded-success / returned point) + (accepting paths x links of the descent proof) + "
             "(loop x relations kept by every iteration: reported iterate, fresh reference value) + NaN-polarity of acceptance and radius update + "
             "parameter assignment ordering; distinct = distinct (rule, function, construct)")
EXPLANATION = ("Path-enumerating symbolic execution (rules/C01_symx.py: exact polynomial values over opaque atoms, helpers / closures inlined, "
               "per-path outcome sets {<0, =0, >0, NaN} of every decided comparison, loops generalised by the relations every iteration preserves) of "
               "EquationSolver.trust_region_minimize / is_converged / nonlinear_equation_solve and of the evaluation methods of Objective and of every class "
               "derived from it (constructor chain, stored closures and derivative transforms followed down to the functions the caller supplied). "
               "Proves for every symbolic path of the driver: a True flag is only returned behind the convergence test of the returned point's own "
               "gradient; a newly reported iterate P satisfies objective.value(P) - objective.value(current) <= 0 in default mode (ratio >= c >= 0, sign of "
               "the denominator decided on the path, numerator = -(value(P) - value(current))); every exit returns the last reported point; NaN ratios "
               "reject and shrink. Convergence behaviour and floating-point trajectories are not decided.")

ES = "optimism.EquationSolver"
T = "trust_region_minimize"


def run(ctx):
    ctx.need_module(ES)
    ctx.need_module("optimism.Objective")

    def driver_rules(levels):
        """the obligations on the paths of the driver; levels: how far public helper functions are looked into (1: only those with at most
        one branch point, 0: every loop-free one)"""
        models = {}

        def model(incremental):
            if incremental not in models:
                models[incremental] = tr.DriverModel(ctx, ES, T, incremental=incremental, levels=levels)
            return models[incremental]

        def both(fn, *a):
            fn(ctx, model(False), *a)
            fn(ctx, model(True), *a, tag="[incremental-mode]")
        ctx.guard(both, tr.d1_flag)
        ctx.guard(lambda: tr.d2_descent(ctx, model(False), ES))
        ctx.guard(both, tr.d3_reported)
        ctx.guard(both, tr.d4_nan, ES)

    # cheap first: branching public helpers (dogleg_step, ...) stay opaque; only when something is not proved that way are they inlined too
    start = len(ctx.obligations)
    driver_rules((1,))
    first = ctx.obligations[start:]
    if any(o.verdict != "PROVED" for o in first):
        del ctx.obligations[start:]
        driver_rules((0,))
        if any(o.rule.endswith(".anchor") and "too many symbolic paths" in o.detail for o in ctx.obligations[start:]):
            del ctx.obligations[start:]
            ctx.obligations.extend(first)
    ctx.guard(tr.d1_conv, ctx, ES)
    ctx.guard(tr.d1_params, ctx, ES, "nonlinear_equation_solve", T)
    ctx.guard(tr.d1_objective_methods, ctx)
    ctx.guard(tr.settings_wiring, ctx, "D1/T5-settings-wiring", ES)
    ctx.guard(tr.boundary_labels, ctx, "D1/T6-boundary-labels-recognised", ES, "solve_trust_region_minimization")
    ctx.trust("IEEE-754: every ordered comparison with a NaN operand is false")
    ctx.trust("rho = N/M >= c >= 0 with M >= 0 implies N >= 0 (M = 0 gives +-inf or NaN; -inf and NaN fail rho >= c)")
    ctx.trust("objective.value / objective.gradient are functions of the point and of objective.p only (update_precond / check_stability do not change them)")
    ctx.trust("a jit-compiled function reads attributes of Python objects only while it is traced; calls with arguments of the same structure reuse the trace")
    ctx.assume("default mode (settings.use_incremental_objective is False) for the descent clause, as in the property text")
    ctx.assume("a callback is supplied (the reported sequence is what the callback sees); the exits and their flags do not depend on it")


def variants(repo):
    from optilint.selftest import Variant, sub, sub_in_func, alpha_rename, reformat, commute
    E = "optimism/EquationSolver.py"
    O = "optimism/Objective.py"
    T = "trust_region_minimize"
    return [
        Variant("is_on_boundary forgets plain boundary steps", E, sub("    return stepType==boundaryString or stepType==negCurveString", "    return stepType==negCurveString"), "D1/T6-boundary-labels-recognised"),
        Variant("is_on_boundary accepts interior steps", E, sub("    return stepType==boundaryString or stepType==negCurveString", "    return stepType==boundaryString or stepType==negCurveString or stepType==interiorString"), "D1/T6-boundary-labels-recognised"),
        Variant("settings eta2/eta3 swapped", E, sub("    return Settings(t1, t2, eta1, eta2, eta3,", "    return Settings(t1, t2, eta1, eta3, eta2,"), "D1/T5-settings-wiring"),
        Variant("True at the small-radius exit", E,
                sub_in_func(T, "                    if callback: callback(x, objective)\n                    return x, False",
                            "                    if callback: callback(x, objective)\n                    return x, True"),
                "D1/T1-guarded-success"),
        Variant("test x, return y", E,
                sub_in_func(T, "if is_converged(objective, y, realObjective, modelObjective,", "if is_converged(objective, x, realObjective, modelObjective,"),
                "D1/T1-guarded-success"),
        Variant("test model residual instead of gradient", E,
                sub_in_func(T, "                            gy, g + Jd, cgIters, trSizeUsed, settings):", "                            g + Jd, gy, cgIters, trSizeUsed, settings):"),
                "D1/T1-guarded-success"),
        Variant("tol**2 -> tol", E, sub_in_func("is_converged", "if gg < settings.tol**2:", "if gg < settings.tol:"), "D1/T1-convergence-test"),
        Variant("< -> >", E, sub_in_func("is_converged", "if gg < settings.tol**2:", "if gg > settings.tol**2:"), "D1/T1-convergence-test"),
        Variant("drop o = objective.value(x)", E, sub_in_func(T, "                o = objective.value(x)\n", ""), "D2/T8-descent"),
        Variant("rho >= -1", E, sub_in_func(T, "(rho >= -0 and realResNorm <= gNorm)", "(rho >= -1 and realResNorm <= gNorm)"), "D2/T8-descent"),
        Variant("accept on residual decrease alone", E,
                sub_in_func(T, "willAccept = rho >= settings.eta1 or (rho >= -0 and realResNorm <= gNorm)", "willAccept = rho >= settings.eta1 or realResNorm <= gNorm"),
                "D2/T8-descent"),
        Variant("no re-sign on model increase", E,
                sub_in_func(T, "                rho = realImprove / -modelImprove\n", "                pass\n"), "D2/T8-descent"),
        Variant("accept x + Jd", E, sub_in_func(T, "                x = y\n", "                x = x + Jd\n"), "D2/T8-descent"),
        Variant("not rho >= eta2 -> rho < eta2", E,
                sub_in_func(T, "if not rho >= settings.eta2:", "if rho < settings.eta2:"), "D4/T12-nan-polarity"),
        Variant("willAccept = not rho < eta1", E,
                sub_in_func(T, "willAccept = rho >= settings.eta1 or", "willAccept = not rho < settings.eta1 or"), "D4/T12-nan-polarity"),
        Variant("remove objective.p = p on warm-start path", E,
                sub_in_func("nonlinear_equation_solve", "        xBar0 += dxBar\n        objective.p = p\n", "        xBar0 += dxBar\n"),
                "D1/T2-parameters-before-solve"),
        Variant("assign p before warm start", E,
                sub_in_func("nonlinear_equation_solve", "        dxBar = WarmStart.warm_start_increment(objective,",
                            "        objective.p = p\n        dxBar = WarmStart.warm_start_increment(objective,"),
                "D1/T2-parameters-before-solve"),
        Variant("return y at iteration cap", E,
                sub_in_func(T, "        if callback: callback(x, objective)\n    return x, False", "        if callback: callback(x, objective)\n    return y, False"),
                "D3/T2-reported-iterate"),
        Variant("drop callback after accept", E,
                sub_in_func(T, "                happyAboutTrSize = True\n\n                if callback: callback(x, objective)\n", "                happyAboutTrSize = True\n\n"),
                "D3/T2-reported-iterate"),
        Variant("Objective.gradient under stale params", O,
                sub("        return self.grad_x(x, self.p)", "        return self.grad_x(x, self.p0)"), "D1/T5-objective-uses-current-parameters"),
        Variant("reformat EquationSolver", E, reformat(), None),
        Variant("alpha-rename trust_region_minimize", E, alpha_rename(T), None),
        Variant("alpha-rename is_converged", E, alpha_rename("is_converged"), None),
        Variant("alpha-rename nonlinear_equation_solve", E, alpha_rename("nonlinear_equation_solve"), None),
        Variant("commute operands", E, commute(T), None),
    ] + _extra()


def _extra():
    from .C01_variants import extra_variants
    return extra_variants()
