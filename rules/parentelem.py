"""Reference-element tables (rule T6-parent-element-tables; shared by C03 and C13).

make_parent_element_2d / make_parent_element_2d_with_bubble / make_parent_element_1d are partially evaluated for each
supported degree by the abstract interpreter (optilint.tensoreval, tolerant mode): integer index tables evaluate to
constants, nodal coordinates to exact linear forms in symbolic Gauss-Lobatto abscissae (L_k = 1 - L_(d-k), L_0 = 0, L_d = 1,
middle = 1/2 -- the only facts about the abscissae that are used).  Geometric specification, independent of the code:

  vertices      vertexNodes are the nodes at (1,0), (0,1), (0,0), in this order;
  faces         faceNodes[f] lists exactly the d+1 nodes at V_f + L_t (V_(f+1) - V_f), t = 0..d, in this order
                (counter-clockwise, Lobatto spacing): this is what order elevation and edge integration rely on;
  interior      interiorNodes is the complement of the face nodes, every node is listed exactly once;
  siblings      the element with bubble keeps the boundary nodes of the plain element in the same relative order.
"""
from __future__ import annotations

from fractions import Fraction

from optilint.tensoreval import Interp, Dual, Arr, EvalError, Raised, Unknown, _A, rat_const

IM = "optimism.Interpolants"


def lobatto_special(interp, args, kw):
    d = interp.as_int(args[0])
    out = []
    for i in range(d + 1):
        if i == 0:
            out.append(Dual(0))
        elif i == d:
            out.append(Dual(1))
        elif 2 * i == d:
            out.append(Dual(Fraction(1, 2)))
        elif 2 * i < d:
            out.append(Dual(_A.atom(f"L{d}_{i}")))
        else:
            out.append(Dual(1) - Dual(_A.atom(f"L{d}_{d - i}")))
    return Arr(out, (d + 1,))


def _ints(a):
    if isinstance(a, Arr):
        out = []
        for x in a.ravel().data:
            c = rat_const(x.a)
            if c is None or c.denominator != 1:
                raise EvalError("index table entry is not an integer constant")
            out.append(int(c))
        return out
    raise EvalError(f"index table is {a!r}")


def _eq(a: Dual, b: Dual):
    return _A.equal(a.a, b.a)


def build(repo, fname, degree, tolerant=False):
    """Partial evaluation of a parent-element builder.  MeshInterp = tensoreval.Interp + numpy indexing / stacking / set functions /
    vectorised index arithmetic (rules/C03_interp.py).  Strict by default: an un-modelled statement aborts the evaluation.  In tolerant
    mode such a statement only makes its targets unknown; results obtained that way may confirm the specification but are not used to
    refute it (a half-executed helper could have left a buffer in a state the real code never produces)."""
    from .C03_interp import MeshInterp
    I = MeshInterp(repo)
    I.tolerant = tolerant
    I.special[f"{IM}:get_lobatto_nodes_1d"] = lobatto_special
    mod = repo.modules[IM]
    r = I.call(I.module_value(mod, fname), [degree], {})
    return r, I


def build_weak(repo, fname, degree):
    """(result, interpreter, weak): strict evaluation, or -- if that meets an un-modelled operation -- the tolerant one, flagged weak"""
    try:
        r, I = build(repo, fname, degree)
        return r, I, False
    except EvalError:
        r, I = build(repo, fname, degree, tolerant=True)
        return r, I, bool(I.swallowed)


def check_2d(ctx, rule, fname, degrees):
    sc = ctx.need(f"{IM}:{fname}")
    V = [(Dual(1), Dual(0)), (Dual(0), Dual(1)), (Dual(0), Dual(0))]
    n_checked = 0
    results = {}
    for d in degrees:
        cons = f"{fname}[degree={d}]"
        try:
            r, I, weak = build_weak(ctx.repo, fname, d)
            coords = r.get("coordinates")
            vert = _ints(r.get("vertexNodes"))
            faces_flat = _ints(r.get("faceNodes"))
            interior = _ints(r.get("interiorNodes")) if not isinstance(r.get("interiorNodes"), list) else [I.as_int(x) for x in r.get("interiorNodes")]
            if isinstance(coords, Unknown) or not isinstance(coords, Arr):
                raise EvalError(f"coordinates not evaluated: {coords!r}")
            L = lobatto_special(I, [d], {}).data
        except (EvalError, Raised, KeyError, IndexError, TypeError, AttributeError, ValueError) as ex:
            ctx.undecided(rule, sc, None, construct=cons, detail=f"cannot partially evaluate: {ex}")
            continue
        n = coords.shape[0]
        P = [(coords.data[2 * k], coords.data[2 * k + 1]) for k in range(n)]
        faces = [faces_flat[f * (d + 1):(f + 1) * (d + 1)] for f in range(3)] if len(faces_flat) == 3 * (d + 1) else None
        results[d] = dict(n=n, vert=vert, faces=faces, interior=interior, P=P, weak=weak)
        n_checked += 1
        # vertices
        okv = len(vert) == 3 and all(0 <= v < n for v in vert) and all(_eq(P[v][0], V[k][0]) and _eq(P[v][1], V[k][1]) for k, v in enumerate(vert))
        W = (lambda ok_: True if ok_ else (None if weak else False))     # a weak (tolerant) evaluation never refutes
        ctx.decide(rule, W(okv), sc, None, construct=f"{cons}:vertices", detail=f"vertexNodes {vert} sit at (1,0), (0,1), (0,0)",
                   bad_detail=f"{fname}(degree={d}): vertexNodes = {vert} are not the nodes at (1,0), (0,1), (0,0) in this order "
                              f"(found {[(repr(P[v][0].a), repr(P[v][1].a)) for v in vert if 0 <= v < n]})")
        # faces
        bad = None
        if faces is None:
            bad = f"faceNodes has {len(faces_flat)} entries, expected 3 x {d + 1}"
        else:
            for f in range(3):
                a, b = V[f], V[(f + 1) % 3]
                for t, node in enumerate(faces[f]):
                    if not 0 <= node < n:
                        bad = f"face {f} lists node {node} (only {n} nodes)"
                        break
                    wx = a[0] + L[t] * (b[0] - a[0])
                    wy = a[1] + L[t] * (b[1] - a[1])
                    if not (_eq(P[node][0], wx) and _eq(P[node][1], wy)):
                        bad = (f"face {f} position {t} is node {node} at ({P[node][0].a!r}, {P[node][1].a!r}); the {t}-th Lobatto point of the edge "
                               f"from vertex {f} to vertex {(f + 1) % 3} is ({wx.a!r}, {wy.a!r})")
                        break
                if bad:
                    break
        ctx.decide(rule, W(bad is None), sc, None, construct=f"{cons}:faces", detail=f"faceNodes {faces} follow each edge counter-clockwise at Lobatto spacing",
                   bad_detail=f"{fname}(degree={d}): {bad}; faceNodes = {faces}: edge nodes of higher-order meshes and edge integrals would be placed on the wrong nodes")
        # partition
        if faces is not None:
            onface = sorted(set(x for fc in faces for x in fc))
            okp = sorted(interior) == [k for k in range(n) if k not in onface] and len(set(interior)) == len(interior)
            ctx.decide(rule, W(okp), sc, None, construct=f"{cons}:interior-is-complement", detail=f"interiorNodes {interior}; {n} nodes",
                       bad_detail=f"{fname}(degree={d}): interiorNodes = {interior} is not the complement of the face nodes {onface} among {n} nodes")
        # distinct nodes
        dup = [(i, j) for i in range(n) for j in range(i + 1, n) if _eq(P[i][0], P[j][0]) and _eq(P[i][1], P[j][1])]
        ctx.decide(rule, W(not dup), sc, None, construct=f"{cons}:nodes-distinct", detail=f"{n} distinct nodal points",
                   bad_detail=f"{fname}(degree={d}): nodes {dup[:3]} coincide")
    return results


def check_1d(ctx, rule, degrees):
    fname = "make_parent_element_1d"
    sc = ctx.need(f"{IM}:{fname}")
    for d in degrees:
        cons = f"{fname}[degree={d}]"
        try:
            r, I, weak = build_weak(ctx.repo, fname, d)
            coords = r.get("coordinates")
            vert = _ints(r.get("vertexNodes"))
            interior = _ints(r.get("interiorNodes"))
            L = lobatto_special(I, [d], {}).data
            ok = coords.shape == (d + 1,) and all(_eq(coords.data[k], L[k]) for k in range(d + 1)) and vert == [0, d] and interior == list(range(1, d))
        except (EvalError, Raised, KeyError, IndexError, TypeError, AttributeError, ValueError) as ex:
            ctx.undecided(rule, sc, None, construct=cons, detail=f"cannot partially evaluate: {ex}")
            continue
        ctx.decide(rule, True if ok else (None if weak else False), sc, None, construct=cons, detail=f"nodes at the Lobatto abscissae, vertices [0, {d}], interior 1..{d - 1}",
                   bad_detail=f"{fname}(degree={d}): vertexNodes {vert}, interiorNodes {interior} do not describe the line element with Lobatto nodes 0..{d}")


def run(ctx, rule, degrees=(1, 2, 3, 4, 5)):
    ctx.need_module(IM)
    base = check_2d(ctx, rule, "make_parent_element_2d", degrees)
    bub = check_2d(ctx, rule, "make_parent_element_2d_with_bubble", [d for d in degrees if d <= 4])
    check_1d(ctx, rule, degrees)
    # sibling agreement: boundary nodes of the bubble element are those of the plain element, in the same relative order
    sc = ctx.need(f"{IM}:make_parent_element_2d_with_bubble")
    for d, rb in bub.items():
        r0 = base.get(d)
        if r0 is None or r0["faces"] is None or rb["faces"] is None:
            continue
        onface0 = sorted(set(x for fc in r0["faces"] for x in fc))
        rank = {nd: k for k, nd in enumerate(onface0)}
        want = [[rank[x] for x in fc] for fc in r0["faces"]]
        ctx.decide(rule, True if want == rb["faces"] else (None if (rb["weak"] or r0["weak"]) else False), sc, None, construct=f"bubble-vs-plain[degree={d}]:faces-are-renumbered-plain-faces",
                   detail=f"faces {rb['faces']} = plain faces renumbered after dropping interior nodes",
                   bad_detail=f"degree {d}: bubble element faces {rb['faces']} differ from the plain element's faces renumbered compactly {want}")
    if len(base) < len(degrees) or len(bub) < 1:
        from optilint.core import Incomplete
        raise Incomplete(f"parent elements evaluated: plain {sorted(base)}, bubble {sorted(bub)}")
