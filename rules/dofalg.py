"""Index-set algebra: a symbolic interpreter for NumPy bookkeeping code over arrays of *symbolic* shape (used by C14).

The degree-of-freedom manager is pure index bookkeeping: boolean masks, id tables, selections, scatters, per-element loops.
Its methods are interpreted on symbolic inputs; every array value is a closed *term* over

    const(v, shape)            array filled with v                  iota(shape)          arange(prod(shape)).reshape(shape)
    not x / and(x, y)          boolean algebra                      sel(a, m)            a[m], m a boolean mask (row-major order)
    gather(a, i)               a[i], i an integer array             rows(a, n)           a[n, :]
    elem(a, k)                 a[k], k a scalar                     index(a, s)          a[s], s an opaque index/slice parameter
    scatter(b, i, v)           b with b[i] = v                      mscat(b, {(m, v)})   b.at[m].set(v) ...
    forstores(b, it, stores)   b after `for k in it: b[i(k)] = v(k)`
    tab(it, blk)               array whose k-th block is blk(k)     cat(it, v)           concatenation of v(k) over the loop
    rowsrep(u, n), T(x), ravel(x), reshape(x, s), outer_and(r, c), ite(c, a, b)

and scalars are integer polynomials (optilint.expr.Poly) over atoms such as count[m] (number of True entries), dim_k[a], sum[it](p).
Smart constructors keep terms in a normal form, so that equivalent ways of writing the same bookkeeping (full(..., False) / zeros(dtype=bool),
~m / logical_not(m), a[i[m]] / a[i][m], a.reshape(F)[s] / a[ids[s]], np.sum(m) / count_nonzero(m), tile / broadcast_to, extracted
helpers, renamed locals, temporaries, keyword arguments, two-pass loops with `b += w` / `e = b + w; b = e`) produce the same term.
A rule then compares the derived term with the term the property demands.  A term that contains an `unknown(...)` node (an operation the
interpreter does not model) can never refute anything: the obligation is reported as undecided.
"""
from __future__ import annotations

import ast
from fractions import Fraction

from optilint.expr import Poly
from optilint.model import FuncVal, ExtVal, ClassVal, ModVal, dotted


class Unsupported(ValueError):
    pass


# --------------------------------------------------------------------------------------------- scalars

def P(c):
    return Poly.const(c)


def atom(name):
    return Poly.atom(name)


def is_poly(x):
    return isinstance(x, Poly)


def as_poly(x):
    if isinstance(x, Poly):
        return x
    if isinstance(x, bool):
        return None
    if isinstance(x, (int, Fraction)):
        return P(x)
    if isinstance(x, float) and x == int(x):
        return P(int(x))
    return None


def pconst(p):
    """python int value of a constant polynomial, else None"""
    if isinstance(p, Poly) and p.is_const():
        c = p.const_value()
        if c.denominator == 1:
            return int(c)
    return None


# --------------------------------------------------------------------------------------------- python-level values

class Tup(tuple):
    """a Python tuple/list value of the interpreted program (terms are plain tuples whose first entry is a tag string)"""


class ShapeOf:
    """shape of an array of unknown rank"""
    def __init__(self, t):
        self.t = t

    def dim(self, k):
        return atom(f"dim{k}[{show(self.t)}]")


class SliceV:
    def __init__(self, lo=None, hi=None, step=None):
        self.lo, self.hi, self.step = lo, hi, step

    @property
    def is_all(self):
        return self.lo is None and self.hi is None and self.step is None

    def key(self):
        return ("slice", self.lo, self.hi, self.step)

    def __eq__(self, o):
        return isinstance(o, SliceV) and self.key() == o.key()

    def __hash__(self):
        return hash(self.key())


class Obj:
    """instance of a repo class under construction / use: attribute cells"""
    def __init__(self, cls_scope, name="self"):
        self.cls = cls_scope
        self.attrs = {}
        self.name = name


class Cell:
    __slots__ = ("v", "view")

    def __init__(self, v, view=None):
        self.v = v
        self.view = view        # (cell of the iterated array, loop index): the value is the NumPy *view* base[k] handed out by iteration


class Func:
    def __init__(self, scope, bound=None):
        self.scope, self.bound = scope, bound


class Ext:
    def __init__(self, name):
        self.name = name
        self.last = name.split(".")[-1]


def is_term(x):
    return isinstance(x, tuple) and not isinstance(x, Tup) and len(x) > 0 and isinstance(x[0], str)


def unknown(why):
    return ("unknown", str(why)[:120])


def has_unknown(x):
    if is_term(x):
        if x[0] in ("unknown", "pend", "listpend", "carried", "appended"):
            return True
        return any(has_unknown(y) for y in x[1:])
    if isinstance(x, (tuple, list)):
        return any(has_unknown(y) for y in x)
    if isinstance(x, Poly):
        return any("unknown(" in a for a in x.atoms())
    return False


def unknown_reasons(x, out=None):
    out = [] if out is None else out
    if is_term(x):
        if x[0] == "unknown":
            out.append(x[1])
        elif x[0] in ("pend", "listpend"):
            out.append("an array is used while a loop is still filling it")
        elif x[0] == "carried":
            out.append(f"`{x[1]}` carries a non-scalar value from one loop iteration to the next")
        else:
            for y in x[1:]:
                unknown_reasons(y, out)
    elif isinstance(x, (tuple, list)):
        for y in x:
            unknown_reasons(y, out)
    return out


# --------------------------------------------------------------------------------------------- printing

def show(t, depth=0):
    if isinstance(t, Poly):
        return repr(t)
    if isinstance(t, Tup) or (isinstance(t, tuple) and not is_term(t)):
        return "(" + ", ".join(show(x) for x in t) + ")"
    if isinstance(t, SliceV):
        return ":" if t.is_all else f"{show(t.lo) if t.lo is not None else ''}:{show(t.hi) if t.hi is not None else ''}"
    if isinstance(t, frozenset):
        return "{" + ", ".join(sorted(show(x) for x in t)) + "}"
    if not is_term(t):
        return repr(t)
    tag = t[0]
    if tag == "param":
        return t[1]
    if tag == "attr":
        return f"{show(t[1])}.{t[2]}"
    if tag == "not":
        return f"~{show(t[1])}"
    if tag == "const":
        return f"const({t[1]!r}, {show(t[2])})"
    if tag == "elem":
        return f"{show(t[1])}[{show(t[2])}]"
    if tag == "rows":
        return f"{show(t[1])}[{show(t[2])}, :]"
    if tag == "sel":
        return f"{show(t[1])}[mask {show(t[2])}]"
    if tag == "gather":
        return f"{show(t[1])}[ids {show(t[2])}]"
    if tag == "index":
        return f"{show(t[1])}[{show(t[2])}]"
    return f"{tag}(" + ", ".join(show(x) for x in t[1:]) + ")"


# --------------------------------------------------------------------------------------------- shapes and element types

HINTS = {}      # opaque term -> (rank or explicit shape tuple, dtype): declared interface of the symbolic inputs


def shape(t):
    """tuple of Poly, or ShapeOf(t) when the rank is not known"""
    tag = t[0]
    if t in HINTS:
        h = HINTS[t][0]
        if isinstance(h, int):
            return tuple(ShapeOf(t).dim(k) for k in range(h))
        return tuple(h)
    if tag in ("const", "iota"):
        return t[2] if tag == "const" else t[1]
    if tag in ("not", "and", "ge0", "cumsum", "addc"):
        return shape(t[1])
    if tag in ("forstores", "scatter", "mscat", "pend"):
        return shape(t[2] if tag == "pend" else t[1])
    if tag == "ite":
        return shape(t[2])
    if tag == "sel":
        return (count(t[2]),)
    if tag == "axisidx":
        return (count(t[1]),)
    if tag == "gather":
        si, sa = shape(t[2]), shape(t[1])
        if isinstance(si, tuple) and isinstance(sa, tuple):
            return tuple(si) + tuple(sa[1:])
        return ShapeOf(t)
    if tag == "elem":
        sa = shape(t[1])
        return tuple(sa[1:]) if isinstance(sa, tuple) and len(sa) >= 1 else ShapeOf(t)
    if tag == "rows":
        sa, sn = shape(t[1]), shape(t[2])
        if isinstance(sa, tuple) and isinstance(sn, tuple):
            return tuple(sn) + tuple(sa[1:])
        return ShapeOf(t)
    if tag == "ravel":
        return (size(t[1]),)
    if tag == "reshape":
        return t[2]
    if tag == "rowsrep":
        return (t[2],) + tuple(shape(t[1]))
    if tag == "T":
        s = shape(t[1])
        return tuple(reversed(s)) if isinstance(s, tuple) else ShapeOf(t)
    if tag in ("outer_and", "outer_or"):
        return (length(t[1]), length(t[2]))
    if tag == "col":
        return (length(t[1]), P(1))
    if tag == "row":
        return (P(1), length(t[1]))
    if tag == "tab":
        sb = shape(t[2]) if is_term(t[2]) else ()
        return (iter_len(t[1]),) + (tuple(sb) if isinstance(sb, tuple) else ())
    if tag == "cat":
        return (t[3],)
    if tag in ("sorted", "uniq"):
        return shape(t[1]) if tag == "sorted" else ShapeOf(t)
    return ShapeOf(t)


def dim(t, k):
    s = shape(t)
    if isinstance(s, tuple):
        if -len(s) <= k < len(s):
            return s[k]
        raise Unsupported(f"axis {k} of a rank-{len(s)} array")
    return s.dim(k)


def length(t):
    return dim(t, 0)


def size(t):
    s = shape(t)
    if isinstance(s, tuple):
        out = P(1)
        for d in s:
            out = out * d
        return out
    return atom(f"size[{show(t)}]")


def rank(t):
    s = shape(t)
    return len(s) if isinstance(s, tuple) else None


def dtype(t):
    tag = t[0]
    if t in HINTS:
        return HINTS[t][1]
    if tag == "const":
        return "bool" if isinstance(t[1], bool) else ("int" if isinstance(t[1], int) else "float")
    if tag in ("not", "and", "outer_and", "outer_or"):
        return "bool"
    if tag in ("col", "row"):
        return dtype(t[1])
    if tag == "iota":
        return "int"
    if tag in ("sel", "gather", "elem", "rows", "ravel", "reshape", "index", "T", "rowsrep", "scatter", "forstores", "mscat", "pend"):
        return dtype(t[2] if tag == "pend" else t[1])
    if tag == "tab":
        return dtype(t[2]) if is_term(t[2]) else ("int" if isinstance(t[2], Poly) else None)
    if tag == "cat":
        return dtype(t[2])
    if tag in ("sorted", "uniq"):
        return dtype(t[1])
    if tag == "ite":
        return dtype(t[2])
    if tag == "hint":
        return t[2]
    if tag == "ge0":
        return "bool"
    if tag in ("cumsum", "axisidx"):
        return "int"
    if tag == "addc":
        return dtype(t[1])
    return None


def iter_len(it):
    if it[0] == "range":
        return it[1]
    raise Unsupported("iteration domain")


def count(m):
    """number of True entries of a boolean array, as a polynomial"""
    m = unravel(m)
    if m[0] == "not":
        return size(m[1]) - count(m[1])
    if m[0] == "const" and isinstance(m[1], bool):
        return size(m) if m[1] else P(0)
    if m[0] == "outer_and":
        return count(m[1]) * count(m[2])
    if m[0] == "tab" and is_term(m[2]):
        return sum_over(m[1], count(m[2]), f"k{CUR_DEPTH[0]}")
    return atom(f"count[{show(m)}]")


# --------------------------------------------------------------------------------------------- smart constructors

CUR_DEPTH = [0]         # nesting depth of interpreted loops: the bound variable of a tabulation built at this point is k<depth>


def bound_var():
    return atom(f"k{CUR_DEPTH[0]}")


def tab(it, blk):
    return ("tab", it, blk)


def lift_rows(a, C):
    """a[C, :] for a two-dimensional index array C (one row of node numbers per element): the array whose k-th block is a[C[k], :]"""
    k = bound_var()
    return tab(("range", length(C)), rows(a, elem(C, k)))


def const(v, shp):
    return ("const", v, tuple(shp))


def not_(x):
    if x[0] == "not":
        return x[1]
    if x[0] == "const" and isinstance(x[1], bool):
        return const(not x[1], x[2])
    if x[0] == "ite":
        return ite(x[1], not_(x[2]), not_(x[3]))
    if x[0] == "tab" and is_term(x[2]):
        return tab(x[1], not_(x[2]))
    if x[0] in ("col", "row"):
        return (x[0], not_(x[1]))
    if x[0] == "outer_or":
        return outer_and(not_(x[1]), not_(x[2]))
    return ("not", x)


def and_(x, y):
    if x[0] == "tab" and y[0] == "tab" and x[1] == y[1] and is_term(x[2]) and is_term(y[2]):
        return tab(x[1], and_(x[2], y[2]))
    for a_, b_ in ((x, y), (y, x)):
        if a_[0] == "col" and b_[0] == "row":
            return outer_and(a_[1], b_[1])
    parts = []
    for z in (x, y):
        if z[0] == "and":
            parts += list(z[1:])
        else:
            parts.append(z)
    out = []
    for z in parts:
        if z[0] == "const" and z[1] is True:
            continue
        if z[0] == "const" and z[1] is False:
            return z
        if z not in out:
            out.append(z)
    for z in out:
        if not_(z) in out:
            return const(False, shape(z)) if isinstance(shape(z), tuple) else ("and",) + tuple(sorted(out, key=show))
    if not out:
        return x if x[0] == "const" else y
    if len(out) == 1:
        return out[0]
    return ("and",) + tuple(sorted(out, key=show))


def ravel(x):
    if rank(x) == 1:
        return x
    if x[0] == "not":
        return not_(ravel(x[1]))
    if x[0] == "ravel":
        return x
    if x[0] == "const" and isinstance(x[2], tuple):
        return const(x[1], (size(x),))
    if x[0] == "iota":
        return ("iota", (size(x),))
    if x[0] == "reshape":
        return ravel(x[1])
    return ("ravel", x)


def unravel(x):
    if x[0] == "ravel":
        return x[1]
    if x[0] == "not" and x[1][0] == "ravel":
        return not_(x[1][1])
    return x


def same_shape(a, b):
    sa, sb = shape(a), shape(b)
    return isinstance(sa, tuple) and isinstance(sb, tuple) and len(sa) == len(sb) and all(x == y for x, y in zip(sa, sb))


def same_shape_tuple(a, b):
    return isinstance(a, tuple) and isinstance(b, tuple) and len(a) == len(b) and all(x == y for x, y in zip(a, b))


def reshape(x, shp):
    shp = tuple(shp)
    s = shape(x)
    if isinstance(s, tuple) and len(s) == len(shp) and all(a == b for a, b in zip(s, shp)):
        return x
    if x[0] == "const":
        return const(x[1], shp)
    if x[0] == "iota":
        return ("iota", shp)
    if x[0] == "reshape":
        return reshape(x[1], shp)
    if x[0] == "ravel":
        return reshape(x[1], shp)
    if x[0] == "not":
        return not_(reshape(x[1], shp))
    if x[0] == "tab" and is_term(x[2]) and len(shp) >= 2 and shp[0] == iter_len(x[1]):
        inner = P(1)
        for d_ in shp[1:]:
            inner = inner * d_
        if inner == size(x[2]):
            return tab(x[1], ravel(x[2]) if len(shp) == 2 else reshape(x[2], shp[1:]))
    if x[0] == "mscat" and rank(x[1]) == 1 and all(same_shape_tuple(shape(unravel(m)), shp) for (m, _v) in x[2]):
        # a masked scatter on the flat array, reshaped: the masked scatter on the shaped array
        out = reshape(x[1], shp)
        for (m, v) in x[2]:
            out = mscat(out, unravel(m), v)
        return out
    return ("reshape", x, shp)


def _through_reshape(a, how):
    """(kept for callers; the normal form is now flat.reshape(F)[s], see gather)"""
    return None


def rows(a, nodes):
    if rank(nodes) == 2:
        return lift_rows(a, nodes)
    if a[0] == "not":
        return not_(rows(a[1], nodes))
    r = _through_reshape(a, lambda i: rows(i, nodes))
    if r is not None:
        return r
    if a[0] == "const" and isinstance(shape(nodes), tuple):
        return const(a[1], tuple(shape(nodes)) + tuple(a[2][1:]))
    if a[0] == "gather" and rank(a[2]) is not None and rank(a[2]) >= 1 and rank(a[1]) == 1:
        return gather(a[1], rows(a[2], nodes))
    return ("rows", a, nodes)


def elem(a, k):
    if a[0] == "not":
        return not_(elem(a[1], k))
    r = _through_reshape(a, lambda i: elem(i, k))
    if r is not None:
        return r
    if a[0] == "const" and len(a[2]) >= 1:
        if len(a[2]) == 1:
            return a[1]
        return const(a[1], a[2][1:])
    return ("elem", a, k)


def index(a, s):
    if a[0] == "not":
        return not_(index(a[1], s))
    r = _through_reshape(a, lambda i: index(i, s))
    if r is not None:
        return r
    if a[0] == "gather" and rank(a[1]) == 1:
        return gather(a[1], index(a[2], s))
    return ("index", a, s)


def sel(a, m):
    if m[0] == "const" and m[1] is True and same_shape(unravel(a), unravel(m)):
        return ravel(a)
    if a[0] == "iota" and len(a[1]) == 1:
        m2 = unravel(m)
        if isinstance(shape(m2), tuple) and size(m2) == a[1][0]:
            a, m = ("iota", tuple(shape(m2))), m2
    if a[0] == "tab" and m[0] == "tab" and a[1] == m[1] and is_term(a[2]) and is_term(m[2]):
        # row-major selection from a stack of blocks = concatenation of the per-block selections
        v = sel(a[2], m[2])
        var = f"k{CUR_DEPTH[0]}"
        return ("cat", a[1], v, sum_over(a[1], count(m[2]), var))
    if m[0] == "outer_and" and a[0] == "rowsrep" and length(m[2]) == length(a[1]):
        # (i, j) -> v[j] at the positions f[i] & g[j], row-major: the selected v tiled count(f) times
        return ravel(rowsrep(sel(a[1], m[2]), count(m[1])))
    if m[0] == "outer_and" and a[0] == "T" and a[1][0] == "rowsrep" and length(m[1]) == length(a[1][1]):
        # (i, j) -> v[i]
        return ravel(transpose(rowsrep(sel(a[1][1], m[1]), count(m[2]))))
    a2, m2 = unravel(a), unravel(m)
    if same_shape(a2, m2) or (not isinstance(shape(a2), tuple) and not isinstance(shape(m2), tuple)):
        a, m = a2, m2
    elif not same_shape(a, m):
        sa, sm = shape(a), shape(m)
        if isinstance(sa, tuple) and isinstance(sm, tuple):
            return unknown(f"boolean selection of an array of shape {show(sa)} by a mask of shape {show(sm)}")
    if a[0] == "sel":
        pass
    return ("sel", a, m)


def gather(a, i):
    if isinstance(i, Poly):
        return elem(a, i)
    if i[0] == "sel":
        return sel(gather(a, i[1]), i[2])
    if i[0] == "tab" and is_term(i[2]):
        return tab(i[1], gather(a, i[2]))
    if i[0] == "ravel" and rank(a) == 1:
        return ravel(gather(a, i[1]))
    if i[0] in ("index", "rows", "elem") and i[1][0] == "iota" and len(i[1][1]) > 1 and rank(a) == 1 and size(i[1]) == length(a):
        # flat[ids[s]] with ids the id table of shape F: flat.reshape(F)[s]   (one normal form for both spellings)
        return rebuild(i[0], [reshape(a, i[1][1])] + list(i[2:]))
    if a[0] == "iota" and len(a[1]) == 1:
        return i
    if i[0] == "iota" and rank(a) == 1 and size(i) == length(a):
        return reshape(a, i[1])
    if a[0] == "const" and isinstance(shape(i), tuple):
        return const(a[1], tuple(shape(i)) + tuple(a[2][1:]))
    return ("gather", a, i)


def scatter(base, idx, vals):
    # b[ids[m]] = v  on a flat array b, ids the id table of m's shape  ==  b[m.ravel()] = v
    if is_term(idx) and idx[0] == "sel" and idx[1][0] == "iota" and rank(base) == 1 and size(idx[2]) == length(base):
        return mscat(base, ravel(idx[2]), vals)
    return ("scatter", base, idx, vals)


def mscat(base, mask, vals):
    pairs = []
    if base[0] == "mscat":
        pairs = list(base[2])
        base = base[1]
    pairs = [p for p in pairs if p[0] != mask] + [(mask, vals)]
    masks = [p[0] for p in pairs]
    disjoint = all(and_(masks[i], masks[j])[0] == "const" and and_(masks[i], masks[j])[1] is False
                   for i in range(len(masks)) for j in range(i + 1, len(masks)))
    if disjoint:
        pairs = sorted(pairs, key=lambda p: show(p[0]))
    return ("mscat", base, tuple(pairs))


def rowsrep(u, n):
    return ("rowsrep", u, n)


def transpose(x):
    if x[0] == "T":
        return x[1]
    if rank(x) == 1:
        return x
    return ("T", x)


def outer_and(r, c):
    if r[0] == "const" and c[0] == "const" and isinstance(r[1], bool) and isinstance(c[1], bool):
        return const(r[1] and c[1], (length(r), length(c)))
    return ("outer_and", r, c)


def as_outer(blk):
    """view a 2-D boolean block as outer_and(r, c) if possible"""
    if blk[0] == "outer_and":
        return blk[1], blk[2]
    if blk[0] == "const" and blk[1] is True and len(blk[2]) == 2:
        return const(True, (blk[2][0],)), const(True, (blk[2][1],))
    return None


def ge0(x):
    """x >= 0 elementwise, for an integer array"""
    if x[0] == "mscat" and x[1][0] == "const" and isinstance(x[1][1], int) and not isinstance(x[1][1], bool) and x[1][1] < 0 \
            and len(x[2]) == 1 and is_term(x[2][0][1]) and x[2][0][1][0] == "iota":
        m = x[2][0][0]
        return m if same_shape(m, x[1]) else reshape(m, shape(x[1]))
    if x[0] in ("index", "rows", "elem") and is_term(x[1]):
        return rebuild(x[0], [ge0(x[1])] + list(x[2:]))
    if x[0] == "gather":
        return gather(ge0(x[1]), x[2])
    if x[0] == "reshape":
        return reshape(ge0(x[1]), x[2])
    if x[0] == "iota":
        return const(True, x[1])
    if x[0] == "const" and isinstance(x[1], int) and not isinstance(x[1], bool):
        return const(x[1] >= 0, x[2])
    return ("ge0", x)


def uniq(x):
    """sorted unique values"""
    y = x[1] if x[0] == "sorted" else x
    if y[0] == "sel" and y[1][0] == "iota":
        return y
    # the ids of all positions addressed by a loop of index expressions = the ids selected by the mask those positions set
    if y[0] == "cat" and is_term(y[2]):
        piece = unravel(y[2])
        if piece[0] == "index" and piece[1][0] == "iota" and len(piece[1][1]) > 1:
            mask = ("forstores", const(False, piece[1][1]), y[1], ((piece[2], True),))
            return sel(piece[1], mask)
    return ("uniq", y)


def where_(m, a, b):
    """np.where(m, a, b) for the bookkeeping idioms that have a meaning in this algebra"""
    # rank of every True entry among the True entries:  where(m, cumsum(m) - 1, c)  ==  full(c) with arange(count(m)) scattered at m
    cb = pconst(b) if isinstance(b, Poly) else None
    if is_term(m) and dtype(m) == "bool" and is_term(a) and a[0] == "addc" and a[2] == P(-1) and a[1][0] == "cumsum" and a[1][1] == m \
            and cb is not None and rank(m) == 1:
        return mscat(const(cb, shape(m)), m, ("iota", (count(m),)))
    return unknown("where with these operands")


# conditions
def c_not(c):
    if c[0] == "cnot":
        return c[1]
    if c[0] == "all_":
        return ("cnot", c)
    if c[0] == "any_":
        return ("none_", c[1])
    if c[0] == "none_":
        return ("any_", c[1])
    return ("cnot", c)


def subst(t, old, new):
    """replace sub-term `old` by `new` and re-normalise"""
    if t == old:
        return new
    if is_term(t):
        args = [subst(x, old, new) for x in t[1:]]
        return rebuild(t[0], args)
    if isinstance(t, Tup):
        return Tup(subst(x, old, new) for x in t)
    if isinstance(t, tuple):
        return tuple(subst(x, old, new) for x in t)
    return t


def rebuild(tag, a):
    if tag == "not":
        return not_(a[0])
    if tag == "and":
        out = a[0]
        for z in a[1:]:
            out = and_(out, z)
        return out
    if tag == "ravel":
        return ravel(a[0])
    if tag == "rows":
        return rows(a[0], a[1])
    if tag == "elem":
        return elem(a[0], a[1])
    if tag == "index":
        return index(a[0], a[1])
    if tag == "sel":
        return sel(a[0], a[1])
    if tag == "gather":
        return gather(a[0], a[1])
    if tag == "reshape":
        return reshape(a[0], a[1])
    if tag == "outer_and":
        return outer_and(a[0], a[1])
    if tag == "tab":
        return tab(a[0], a[1])
    if tag == "ge0":
        return ge0(a[0])
    if tag == "ite":
        return ite(a[0], a[1], a[2])
    if tag == "T":
        return transpose(a[0])
    return (tag,) + tuple(a)


def _assumptions(c, truth):
    """[(term, replacement)] that hold when condition c has the given truth value"""
    if c[0] == "cnot":
        return _assumptions(c[1], not truth)
    if c[0] == "all_" and truth:
        return [(c[1], _const_like(c[1], True))]
    if c[0] == "none_" and truth:
        return [(c[1], _const_like(c[1], False))]
    if c[0] == "any_" and not truth:
        return [(c[1], _const_like(c[1], False))]
    return []


def _const_like(t, v):
    s = shape(t)
    return const(v, s) if isinstance(s, tuple) else None


def ite(c, a, b):
    """a if c else b"""
    if a == b:
        return a
    if c[0] == "cor":
        return ite(c[1], a, ite(c[2], a, b))
    if c[0] == "cand":
        return ite(c[1], ite(c[2], a, b), b)
    if c[0] == "cnot" and c[1][0] in ("cor", "cand", "cnot"):
        inner = c[1]
        if inner[0] == "cnot":
            return ite(inner[1], a, b)
        return ite(inner, b, a)
    # under the assumption that makes c true, does b already equal a?  (then the test is redundant: result b), and dually
    for (old, new) in _assumptions(c, True):
        if new is not None and is_term(b) and is_term(a):
            if subst(b, old, new) == subst(a, old, new):
                return b
    for (old, new) in _assumptions(c, False):
        if new is not None and is_term(b) and is_term(a):
            if subst(a, old, new) == subst(b, old, new):
                return a
    return ("ite", c, a, b)


# --------------------------------------------------------------------------------------------- the interpreter

class Return(Exception):
    def __init__(self, v):
        self.v = v


class _Continue(Exception):
    pass


class LoopCtx:
    def __init__(self, var, itdesc, depth):
        self.var, self.it, self.depth = var, itdesc, depth
        self.pre = {}       # carried scalar name -> (pre atom name, initial value)
        self.inc = {}
        self.carried_init = {}      # carried array name -> value before the loop


class Interp:
    def __init__(self, repo, ctx=None):
        self.repo = repo
        self.ctx = ctx
        self.loops = []
        self.calls = []         # (ext name, args, kwargs) of recorded external constructor calls
        self.visited = []
        self.depth_calls = 0
        self.param_cells = []

    # ----- calling
    def call_scope(self, scope, args, kwargs, bound=None, top=False):
        if self.depth_calls > 12:
            raise Unsupported("call depth")
        if scope not in self.visited:
            self.visited.append(scope)
        params = scope.params()
        env = {}
        pos = list(args)
        if bound is not None:
            pos = [bound] + pos
        if len(pos) > len(params):
            raise Unsupported(f"too many arguments for {scope.name}")
        for p_, a in zip(params, pos):
            env[p_] = Cell(a)
        for k, v in kwargs.items():
            if k not in params or k in env:
                raise Unsupported(f"keyword {k} for {scope.name}")
            env[k] = Cell(v)
        for p_ in params:
            if p_ not in env:
                d = scope.default_of(p_)
                if d is None:
                    raise Unsupported(f"missing argument {p_} of {scope.name}")
                env[p_] = Cell(self.ev(d, env, scope))
        self.depth_calls += 1
        # array arguments are passed by reference in Python: a callee that stores into one changes the caller's array, which this
        # interpreter (values, not references, cross the call boundary) would miss -- such a store is refused
        self.param_cells.append(set() if top else {id(c) for c in env.values()})
        try:
            paths = self.block(scope.body(), env, scope)
        finally:
            self.depth_calls -= 1
            self.param_cells.pop()
        return self._merge_returns(paths)

    def _merge_returns(self, paths):
        """paths: list of (conds, kind, value, env) -> value"""
        vals = []
        for (conds, kind, v, env) in paths:
            vals.append((conds, v if kind == "return" else None))
        out = vals[-1][1]
        for (conds, v) in reversed(vals[:-1]):
            c = self._conj(conds)
            out = self._ite_val(c, v, out)
        return out

    @staticmethod
    def _conj(conds):
        c = None
        for x in conds:
            c = x if c is None else ("cand", c, x)
        return c

    def _ite_val(self, c, a, b):
        if c is None:
            return a
        if isinstance(a, (Tup,)) and isinstance(b, Tup) and len(a) == len(b):
            return Tup(self._ite_val(c, x, y) for x, y in zip(a, b))
        if is_term(a) and is_term(b):
            return ite(c, a, b)
        if isinstance(a, Poly) and isinstance(b, Poly) and a == b:
            return a
        if a is b or (not is_term(a) and not is_term(b) and type(a) == type(b) and not isinstance(a, (Poly, Obj, Cell)) and a == b):
            return a
        return unknown("values of different kinds on two paths")

    # ----- statements: returns list of paths (conds, kind, value, env); kind in normal|return|continue
    def block(self, stmts, env, scope, conds=()):
        for i, st in enumerate(stmts):
            if isinstance(st, ast.If):
                c = self.cond(st.test, env, scope)
                if isinstance(c, bool):
                    return self.block((st.body if c else st.orelse) + stmts[i + 1:], env, scope, conds)
                out = []
                e1 = self.fork(env)
                out += self.block(st.body + stmts[i + 1:], e1, scope, conds + (c,))
                e2 = self.fork(env)
                out += self.block(st.orelse + stmts[i + 1:], e2, scope, conds + (c_not(c),))
                return out
            if isinstance(st, ast.Return):
                v = self.ev(st.value, env, scope) if st.value is not None else None
                return [(conds, "return", v, env)]
            if isinstance(st, ast.Continue):
                return [(conds, "continue", None, env)]
            if isinstance(st, (ast.Break, ast.While, ast.Try, ast.With, ast.Raise)):
                if isinstance(st, ast.Raise):
                    return [(conds, "raise", None, env)]
                raise Unsupported(f"statement {type(st).__name__}")
            self.stmt(st, env, scope)
        return [(conds, "normal", None, env)]

    def fork(self, env):
        """copy of the environment with fresh cells (objects reachable through it are copied too, aliasing preserved)"""
        memo = {}

        def cp(x):
            if isinstance(x, Cell):
                if id(x) not in memo:
                    memo[id(x)] = Cell(None)
                    memo[id(x)].v = cp(x.v)
                return memo[id(x)]
            if isinstance(x, Obj):
                if id(x) not in memo:
                    o = Obj(x.cls, x.name)
                    memo[id(x)] = o
                    o.attrs = {k: cp(v) for k, v in x.attrs.items()}
                return memo[id(x)]
            return x
        return {k: cp(v) for k, v in env.items()}

    def stmt(self, st, env, scope):
        if isinstance(st, ast.Expr):
            if isinstance(st.value, ast.Constant):
                return
            c = st.value
            # lst.append(v) on a local Python list
            if isinstance(c, ast.Call) and isinstance(c.func, ast.Attribute) and c.func.attr == "append" and isinstance(c.func.value, ast.Name) \
                    and c.func.value.id in env and len(c.args) == 1 and not c.keywords:
                cell = env[c.func.value.id]
                cur = cell.v
                v = self.ev(c.args[0], env, scope)
                if isinstance(cur, Tup) and not self.loops:
                    cell.v = Tup(tuple(cur) + (v,))
                    return
                if self.loops and (isinstance(cur, Tup) or (is_term(cur) and cur[0] == "listpend" and cur[1] == self.loops[-1].var)):
                    lc = self.loops[-1]
                    if isinstance(cur, Tup):
                        cell.v = ("listpend", lc.var, Tup(cur), Tup((v,)))
                    else:
                        cell.v = ("listpend", lc.var, cur[2], Tup(tuple(cur[3]) + (v,)))
                    return
                raise Unsupported("append to something that is not a local list")
            self.ev(st.value, env, scope)
            return
        if isinstance(st, (ast.Pass, ast.Assert, ast.Import, ast.ImportFrom, ast.Global, ast.Nonlocal)):
            return
        if isinstance(st, ast.AnnAssign):
            if st.value is None:
                return
            st = ast.Assign(targets=[st.target], value=st.value)
        if isinstance(st, ast.Assign):
            share = None
            if isinstance(st.value, ast.Name) and st.value.id in env and is_term(env[st.value.id].v):
                share = env[st.value.id]
            elif isinstance(st.value, ast.Attribute) and isinstance(st.value.value, ast.Name) and st.value.value.id in env \
                    and isinstance(env[st.value.value.id].v, Obj) and st.value.attr in env[st.value.value.id].v.attrs \
                    and is_term(env[st.value.value.id].v.attrs[st.value.attr].v):
                share = env[st.value.value.id].v.attrs[st.value.attr]
            v = share.v if share is not None else self.ev(st.value, env, scope)
            for t in st.targets:
                self.assign(t, v, env, scope, share)
                if share is None and isinstance(t, ast.Name) and is_term(v) and isinstance(st.value, ast.Subscript):
                    ix = self.index_value(st.value.slice, env, scope)
                    basic = lambda i: isinstance(i, (Poly, SliceV)) or i is None
                    if basic(ix) or (isinstance(ix, Tup) and all(basic(i) for i in ix)):
                        env[t.id].view = ("opaque", None)      # basic indexing: a NumPy view, stores into it would change the indexed array
            return
        if isinstance(st, ast.AugAssign):
            cur = self.ev(st.target, env, scope)
            rhs = self.ev(st.value, env, scope)
            v = self.binop(st.op, cur, rhs)
            self.assign(st.target, v, env, scope, None)
            return
        if isinstance(st, ast.For):
            self.for_(st, env, scope)
            return
        if isinstance(st, (ast.FunctionDef, ast.ClassDef)):
            return
        raise Unsupported(f"statement {type(st).__name__}")

    def assign(self, t, v, env, scope, share):
        if isinstance(t, ast.Name):
            env[t.id] = share if share is not None else Cell(v)
            return
        if isinstance(t, (ast.Tuple, ast.List)):
            if isinstance(v, ShapeOf):
                vals = [v.dim(k) for k in range(len(t.elts))]
            elif isinstance(v, (Tup, tuple)) and not is_term(v):
                vals = list(v)
            elif is_term(v) and rank(v) == 1 and pconst(length(v)) == len(t.elts):
                vals = [elem(v, P(k)) for k in range(len(t.elts))]
            else:
                vals = [unknown("unpacking a value that is not a tuple")] * len(t.elts)
            if len(vals) != len(t.elts):
                raise Unsupported("tuple unpack arity")
            for e_, x in zip(t.elts, vals):
                self.assign(e_, x, env, scope, None)
            return
        if isinstance(t, ast.Attribute):
            o = self.ev(t.value, env, scope)
            if isinstance(o, Obj):
                if self.loops:
                    raise Unsupported("attribute assignment inside a loop")
                o.attrs[t.attr] = share if share is not None else Cell(v)
                return
            raise Unsupported(f"attribute store on a non-object: {ast.dump(t)[:80]} -> {o!r}")
        if isinstance(t, ast.Subscript):
            cell = self.cell_of(t.value, env, scope)
            idx = self.index_value(t.slice, env, scope)
            if getattr(cell, "view", None) is not None:
                base, kk = cell.view
                if not isinstance(base, Cell):
                    raise Unsupported("store through a view of an array that is not a plain variable")
                if self.param_cells and id(base) in self.param_cells[-1]:
                    raise Unsupported("in-place update of an array argument inside a helper")
                if not (self.loops and atom(self.loops[-1].var) == kk):
                    raise Unsupported("store through a view outside the loop that handed it out")
                full = Tup((kk,) + (tuple(idx) if isinstance(idx, Tup) else (idx,)))
                base.v = self.store(base.v, full, v)
                return
            if self.param_cells and id(cell) in self.param_cells[-1]:
                raise Unsupported("in-place update of an array argument inside a helper")
            if is_term(cell.v) and cell.v[0] in ("elem", "index", "T", "ravel", "reshape"):
                # basic indexing / reshaping returns a NumPy view: the store would change the array it was taken from
                raise Unsupported("store into a view of another array")
            cell.v = self.store(cell.v, idx, v)
            return
        raise Unsupported("assignment target")

    def cell_of(self, e, env, scope):
        if isinstance(e, ast.Name) and e.id in env:
            return env[e.id]
        if isinstance(e, ast.Attribute):
            o = self.ev(e.value, env, scope)
            if isinstance(o, Obj) and e.attr in o.attrs:
                return o.attrs[e.attr]
        raise Unsupported("store into something that is not a local array")

    # ----- loops
    def for_(self, st, env, scope):
        if st.orelse:
            raise Unsupported("for-else")
        it = self.ev(st.iter, env, scope)
        depth = len(self.loops)
        kname = f"k{depth}"
        k = atom(kname)
        views = None
        if isinstance(it, Tup):
            # literal tuple: unrolled
            for x in it:
                self.assign(st.target, x, env, scope, None)
                paths = self.block(st.body, env, scope)
                if len(paths) != 1 or paths[0][1] != "normal":
                    raise Unsupported("control flow in an unrolled loop")
            return
        else:
            itdesc, val, views = self._iteration(it, st.iter, env, scope, kname)
        lc = LoopCtx(kname, itdesc, depth)
        # loop-carried scalars: assigned in the body and live before the loop
        assigned = set()
        for n in ast.walk(ast.Module(body=st.body, type_ignores=[])):
            if isinstance(n, (ast.Assign, ast.AugAssign, ast.AnnAssign)):
                for t in (n.targets if isinstance(n, ast.Assign) else [n.target]):
                    for x in ast.walk(t):
                        if isinstance(x, ast.Name) and isinstance(x.ctx, ast.Store):
                            assigned.add(x.id)
        for n in sorted(assigned):
            if n in env and isinstance(env[n].v, Poly):
                pre = f"pre[{n}@{depth}]"
                lc.pre[n] = (pre, env[n].v)
                env[n] = Cell(atom(pre))
            elif n in env and not isinstance(env[n].v, (Obj, Func, Ext)):
                # re-bound in the body: a read before the re-binding would see the previous iteration's value
                lc.carried_init[n] = env[n].v
                env[n] = Cell(("carried", n))
        self.assign(st.target, val, env, scope, None)
        # iterating over an array hands out views of its blocks: a store into the loop target is a store into block k of the array
        if views is not None:
            if isinstance(views, (Cell, str)) and isinstance(st.target, ast.Name):
                env[st.target.id].view = (views, k)
            elif isinstance(views, tuple) and isinstance(st.target, (ast.Tuple, ast.List)) and len(st.target.elts) == len(views):
                for t_, c_ in zip(st.target.elts, views):
                    if isinstance(c_, (Cell, str)) and isinstance(t_, ast.Name):
                        env[t_.id].view = (c_, k)
        self.loops.append(lc)
        CUR_DEPTH[0] = len(self.loops)
        try:
            paths = self.block(st.body, env, scope)
        finally:
            self.loops.pop()
            CUR_DEPTH[0] = len(self.loops)
        paths = [p for p in paths]
        if any(p[1] in ("return", "raise") for p in paths):
            raise Unsupported("return/raise inside a bookkeeping loop")
        # finalise every path separately, then merge
        finals = []
        for (conds, kind, _v, penv) in paths:
            finals.append((conds, self._finalize_env(penv, lc)))
        base_env = finals[-1][1]
        if len(finals) > 1:
            cells = self._cells(base_env)
            for (conds, fenv) in reversed(finals[:-1]):
                c = self._conj(conds)
                other = self._cells(fenv)
                for key, cell in cells.items():
                    o = other.get(key)
                    if o is None:
                        continue
                    cell.v = self._merge_loop_value(c, o.v, cell.v, lc)
        new = dict(base_env)
        env.clear()
        env.update(new)

    def _cells(self, env):
        out = {}
        seen = set()

        def walk(prefix, x):
            if isinstance(x, Cell):
                out[prefix] = x
                if isinstance(x.v, Obj) and id(x.v) not in seen:
                    seen.add(id(x.v))
                    for k, v in x.v.attrs.items():
                        walk(prefix + "." + k, v)
        for k, v in env.items():
            walk(k, v)
        return out

    def _merge_loop_value(self, c, a, b, lc):
        """value of a cell after the loop when the body path under condition c gives a, the other path b (c may depend on the loop variable)"""
        if a is b:
            return a
        if is_term(a) and is_term(b):
            if a == b:
                return a
            if a[0] == "tab" and b[0] == "tab" and a[1] == b[1]:
                return ("tab", a[1], self._ite_val(c, a[2], b[2]))
            # one path left the array alone: its k-th block is the block of the array before the loop
            for (x, y, flip) in ((a, b, False), (b, a, True)):
                if y[0] == "tab" and y[1] == lc.it and x[0] != "tab" and isinstance(shape(x), tuple) and len(shape(x)) >= 1 \
                        and shape(x)[0] == iter_len(lc.it):
                    blk = elem(x, atom(lc.var))
                    return ("tab", y[1], self._ite_val(c, y[2], blk) if flip else self._ite_val(c, blk, y[2]))
            # a path that leaves a freshly allocated array alone while the other path fills its slice: the slice keeps the fill value
            for (x, y, x_when_c) in ((a, b, True), (b, a, False)):
                if y[0] == "cat" and x[0] == "const" and len(x[2]) == 1 and x[2][0] == y[3] and is_term(y[2]) and rank(y[2]) == 1:
                    w = length(y[2])
                    if _skip_is_empty(c if x_when_c else c_not(c), w):
                        return y                     # the skipped slices are empty: nothing is skipped
                    keep = const(x[1], (w,))
                    blk = self._ite_val(c, keep, y[2]) if x_when_c else self._ite_val(c, y[2], keep)
                    return ("cat", y[1], blk, y[3])
            return unknown("array updated on some paths of a loop body only")
        if isinstance(a, Poly) and isinstance(b, Poly):
            return a if a == b else atom(f"unknown(conditional increment in loop over {show(lc.it)})")
        if isinstance(a, Obj) or isinstance(b, Obj):
            return b
        try:
            return self._ite_val(c, a, b)
        except Exception:
            return unknown("conditional value in loop")

    def _elem_of_iterable(self, X, k):
        return elem(X, k)

    def _finalize_env(self, env, lc):
        k = atom(lc.var)
        # carried scalars
        for n, (pre, init) in lc.pre.items():
            post = env[n].v if n in env else None
            if not isinstance(post, Poly):
                env[n] = Cell(unknown(f"loop-carried `{n}` is not an integer"))
                continue
            inc = post - atom(pre)
            if any(a.startswith("pre[") for a in inc.atoms()):
                env[n] = Cell(atom(f"unknown(recurrence of {n})"))
                lc.inc[n] = None
                continue
            lc.inc[n] = inc
            env[n] = Cell(init + sum_over(lc.it, inc, lc.var))
        for key, cell in self._cells(env).items():
            if is_term(cell.v) and cell.v[0] == "pend" and cell.v[1] == lc.var:
                cell.v = self._finalize_pend(cell.v, lc)
            elif is_term(cell.v) and cell.v[0] == "appended" and cell.v[1] in lc.carried_init:
                init = lc.carried_init[cell.v[1]]
                piece = cell.v[2]
                if is_term(init) and isinstance(shape(init), tuple) and len(shape(init)) == 1 and shape(init)[0] == P(0) and is_term(piece):
                    # acc = np.append(acc, piece) starting from an empty array: the concatenation of the pieces in loop order
                    v = ravel(piece)
                    cell.v = ("cat", lc.it, v, sum_over(lc.it, size(piece), lc.var))
                else:
                    cell.v = unknown("array grown by np.append from a non-empty start")
            elif is_term(cell.v) and cell.v[0] == "listpend" and cell.v[1] == lc.var:
                _, _var, base, items = cell.v
                if len(base) == 0 and len(items) == 1:
                    item = self._close_running_offsets(items[0], lc)
                    cell.v = ("listtab", lc.it, item, lc.var) if item is not None else \
                        unknown("list items that depend on a loop-carried value")
                else:
                    cell.v = unknown("list built by several appends per iteration")
        return env

    def _close_running_offsets(self, item, lc):
        """an item appended in every iteration may mention the loop-carried offset `b` (b = 0 before the loop, b += w(k) in the body) only as
        the slice b : b + w(k); that slice is then named by the closed atom prefix[w] = sum_{j<k} w(j)"""
        pres = {pre: (n, init) for n, (pre, init) in lc.pre.items()}

        def mentions(p):
            return isinstance(p, Poly) and any(a in pres or "pre[" in a for a in p.atoms())
        if isinstance(item, SliceV):
            if item.step is not None or not isinstance(item.lo, Poly) or not isinstance(item.hi, Poly):
                return None
            for pre, (n, init) in pres.items():
                inc = lc.inc.get(n)
                if inc is not None and item.lo == atom(pre) and item.hi - item.lo == inc and init == P(0) and not mentions(inc):
                    lo = atom(f"prefix[{lc.var}]({inc!r})")
                    return SliceV(lo, lo + inc)
            return None if mentions(item.lo) or mentions(item.hi) else item
        if isinstance(item, Poly):
            return None if mentions(item) else item
        if is_term(item) or isinstance(item, (Tup, tuple)):
            return None if "pre[" in repr(item) else item
        return item

    def listcomp(self, e, env, scope):
        if len(e.generators) != 1 or e.generators[0].ifs or e.generators[0].is_async:
            raise Unsupported("comprehension with several generators or a filter")
        g = e.generators[0]
        it = self.ev(g.iter, env, scope)
        depth = len(self.loops)
        kname = f"k{depth}"
        itdesc, val, _views = self._iteration(it, g.iter, env, scope, kname)
        inner = dict(env)
        self.assign(g.target, val, inner, scope, None)
        lc = LoopCtx(kname, itdesc, depth)
        self.loops.append(lc)
        CUR_DEPTH[0] = len(self.loops)
        try:
            v = self.ev(e.elt, inner, scope)
        finally:
            self.loops.pop()
            CUR_DEPTH[0] = len(self.loops)
        return ("listtab", itdesc, v, kname)

    def _iteration(self, it, node, env, scope, kname):
        """(iteration domain, value of the loop target in iteration k, cells the target components are views of)"""
        k = atom(kname)

        def one(X, xnode):
            if is_term(X) and X[0] == "listtab":
                if len(X) > 3 and X[3] != kname:
                    raise Unsupported("list built at another loop depth")
                return ("range", iter_len(X[1])), X[2], None
            if is_term(X):
                cell = None
                if xnode is not None:
                    try:
                        cell = self.cell_of(xnode, env, scope)
                    except Unsupported:
                        cell = None
                return ("range", length(X)), self._elem_of_iterable(X, k), (cell if cell is not None else "opaque")
            raise Unsupported("iteration over a value that is not an array")
        if isinstance(it, tuple) and not isinstance(it, Tup) and it and it[0] == "enumerate()":
            xn = node.args[0] if isinstance(node, ast.Call) and node.args else None
            d, v, c = one(it[1], xn)
            return d, Tup((k, v)), (None, c)
        if isinstance(it, tuple) and not isinstance(it, Tup) and it and it[0] == "zip()":
            parts = [one(X, (node.args[i] if isinstance(node, ast.Call) and len(node.args) == len(it[1]) else None)) for i, X in enumerate(it[1])]
            d0 = parts[0][0]
            if any(p_[0] != d0 for p_ in parts[1:]):
                raise Unsupported("zip of iterables whose lengths are not provably equal")
            return d0, Tup(p_[1] for p_ in parts), tuple(p_[2] for p_ in parts)
        if isinstance(it, tuple) and not isinstance(it, Tup) and it and it[0] == "range()":
            return ("range", it[1]), k, None
        d, v, c = one(it, node)
        return d, v, c

    def _finalize_pend(self, t, lc):
        _, var, base, stores = t
        k = atom(var)
        n_it = iter_len(lc.it)
        sb = shape(base)
        # (1) every store addresses block k of the array: tabulate
        def lead(idx):
            if isinstance(idx, Poly):
                return idx, ()
            if isinstance(idx, Tup) and idx and isinstance(idx[0], Poly):
                return idx[0], tuple(idx[1:])
            return None, None
        if all(lead(i)[0] == k for (i, v) in stores) and isinstance(sb, tuple) and len(sb) >= 1:
            if sb[0] != n_it:
                return ("misfit", f"a loop of {show(n_it)} iterations fills, block by block, an array with {show(sb[0])} blocks", base, tuple(stores))
            blk = elem(base, k)
            for (i, v) in stores:
                rest = lead(i)[1]
                blk = self._store_block(blk, rest, v)
            return ("tab", lc.it, blk)
        # (2) one slice store [b : b + w] with b the running offset: concatenate
        if len(stores) == 1 and isinstance(stores[0][0], SliceV) and stores[0][0].step is None:
            s, v = stores[0]
            for n, (pre, init) in lc.pre.items():
                inc = lc.inc.get(n)
                if inc is None or not isinstance(s.lo, Poly) or not isinstance(s.hi, Poly):
                    continue
                if s.lo == atom(pre) and s.hi - s.lo == inc and init == P(0):
                    if not is_term(v):
                        return unknown("scalar written to a slice")
                    if rank(v) != 1 or not (length(v) == inc):
                        if rank(v) == 1:
                            # NumPy raises (or broadcasts a single value) when the lengths differ: a definite misfit, not an unmodelled idiom
                            return ("misfit", f"each iteration fills a slice of width {show(inc)} with {show(length(v))} values", v)
                        return unknown("slice filled with a non-vector")
                    total = sum_over(lc.it, inc, lc.var)
                    if base[0] == "const" and len(base[2]) == 1 and base[2][0] == total:
                        return ("cat", lc.it, v, total)
                    if base[0] == "const" and len(base[2]) == 1:
                        return ("misfit", f"an array of length {show(base[2][0])} is filled with {show(total)} entries in all", v)
                    return unknown("slices written into an array that is not freshly allocated")
            s, v = stores[0]
            if isinstance(s.lo, Poly) and isinstance(s.hi, Poly):
                w = s.hi - s.lo
                if s.lo == atom(f"prefix[{lc.var}]({w!r})"):
                    # the slice comes from a list of consecutive ranges built beforehand (offset 0, widths w(k)): same concatenation
                    if not is_term(v):
                        return unknown("scalar written to a slice")
                    if rank(v) != 1 or not (length(v) == w):
                        if rank(v) == 1:
                            return ("misfit", f"each iteration fills a slice of width {show(w)} with {show(length(v))} values", v)
                        return unknown("slice filled with a non-vector")
                    total = sum_over(lc.it, w, lc.var)
                    if base[0] == "const" and len(base[2]) == 1 and base[2][0] == total:
                        return ("cat", lc.it, v, total)
                    if base[0] == "const" and len(base[2]) == 1:
                        return ("misfit", f"an array of length {show(base[2][0])} is filled with {show(total)} entries in all", v)
                    return unknown("slices written into an array that is not freshly allocated")
        # (3) general
        return ("forstores", base, lc.it, tuple(stores))

    def _store_block(self, blk, rest, v):
        if not rest:
            if is_term(v) or isinstance(v, Poly):
                return v
            if is_term(blk) and isinstance(shape(blk), tuple):
                return const(v, shape(blk))
            return v
        if is_term(blk) and len(rest) == 2 and isinstance(v, bool) and v is False:
            o = as_outer(blk)
            if o is not None:
                r, c = o
                a, b = rest
                if isinstance(a, tuple) and is_term(a) and dtype(a) == "bool" and isinstance(b, SliceV) and b.is_all:
                    return outer_and(and_(r, not_(a)), c)
                if isinstance(b, tuple) and is_term(b) and dtype(b) == "bool" and isinstance(a, SliceV) and a.is_all:
                    return outer_and(r, and_(c, not_(b)))
        return unknown(f"store at [{show(Tup(rest))}] = {show(v)} into a block")

    # ----- stores
    def store(self, arr, idx, v):
        if not is_term(arr):
            raise Unsupported("subscript store into a non-array")
        if self.loops:
            lc = self.loops[-1]
            if arr[0] == "pend" and arr[1] == lc.var:
                return ("pend", lc.var, arr[2], arr[3] + ((idx, v),))
            return ("pend", lc.var, arr, ((idx, v),))
        if is_term(idx) and dtype(idx) == "bool":
            return mscat(arr, idx, v)
        if is_term(idx):
            return scatter(arr, idx, v)
        return ("scatter", arr, idx, v)

    # ----- expressions
    def cond(self, e, env, scope):
        if isinstance(e, ast.BoolOp):
            vals = [self.cond(x, env, scope) for x in e.values]
            if all(isinstance(x, bool) for x in vals):
                return all(vals) if isinstance(e.op, ast.And) else any(vals)
            out = None
            for x in vals:
                if isinstance(x, bool):
                    if isinstance(e.op, ast.And) and x is False:
                        return False
                    if isinstance(e.op, ast.Or) and x is True:
                        return True
                    continue
                out = x if out is None else (("cand" if isinstance(e.op, ast.And) else "cor"), out, x)
            return out
        if isinstance(e, ast.UnaryOp) and isinstance(e.op, ast.Not):
            c = self.cond(e.operand, env, scope)
            return (not c) if isinstance(c, bool) else c_not(c)
        v = self.ev(e, env, scope)
        if isinstance(v, bool):
            return v
        if v is None:
            return False
        if is_term(v) and v[0] in ("all_", "any_", "none_", "cnot", "cor", "cand", "cmp"):
            return v
        if isinstance(v, Poly):
            c = pconst(v)
            if c is not None:
                return c != 0
            return ("cmp", "!=", v, P(0))
        return ("cmp", "truth", v if is_term(v) else unknown("condition"), None)

    def binop(self, op, a, b):
        pa, pb = as_poly(a), as_poly(b)
        if pa is not None and pb is not None:
            if isinstance(op, ast.Add):
                return pa + pb
            if isinstance(op, ast.Sub):
                return pa - pb
            if isinstance(op, ast.Mult):
                return pa * pb
            if isinstance(op, ast.Pow) and pconst(pb) is not None and pconst(pb) >= 0:
                return pa.pow(pconst(pb))
            if isinstance(op, ast.FloorDiv) and pconst(pa) is not None and pconst(pb):
                return P(pconst(pa) // pconst(pb))
            return atom(f"unknown({type(op).__name__})")
        if isinstance(op, ast.Mult):
            # tuple repetition, constant array scaling
            for x, y in ((a, b), (b, a)):
                if isinstance(x, Tup) and pconst(as_poly(y)) is not None:
                    return Tup(tuple(x) * pconst(as_poly(y)))
                if is_term(x) and x[0] == "const" and not isinstance(x[1], bool) and as_poly(y) is not None and pconst(as_poly(y)) is not None:
                    return const(x[1] * pconst(as_poly(y)), x[2])
        if isinstance(op, ast.Add) and isinstance(a, Tup) and isinstance(b, Tup):
            return Tup(tuple(a) + tuple(b))
        if isinstance(op, (ast.Add, ast.Sub)) and is_term(a) and dtype(a) == "int" and pb is not None and pconst(pb) is not None:
            c = pb if isinstance(op, ast.Add) else P(0) - pb
            return a if c == P(0) else ("addc", a, c)
        if isinstance(op, ast.BitAnd) and is_term(a) and is_term(b):
            return and_(a, b)
        if isinstance(op, ast.BitOr) and is_term(a) and is_term(b):
            return not_(and_(not_(a), not_(b)))
        return unknown(f"{type(op).__name__} of {show(a)[:40]} and {show(b)[:40]}")

    def index_value(self, s, env, scope):
        if isinstance(s, ast.Slice):
            return SliceV(self.ev(s.lower, env, scope) if s.lower else None, self.ev(s.upper, env, scope) if s.upper else None,
                          self.ev(s.step, env, scope) if s.step else None)
        if isinstance(s, ast.Tuple):
            return Tup(self.index_value(x, env, scope) for x in s.elts)
        v = self.ev(s, env, scope)
        p = as_poly(v)
        return p if p is not None else v

    def subscript(self, a, idx):
        if isinstance(a, ShapeOf):
            k = pconst(idx) if isinstance(idx, Poly) else None
            if k is None:
                raise Unsupported("shape index")
            return a.dim(k)
        if isinstance(a, (Tup,)):
            k = pconst(idx) if isinstance(idx, Poly) else None
            if k is not None and -len(a) <= k < len(a):
                return a[k]
            if isinstance(idx, SliceV):
                lo = pconst(idx.lo) if idx.lo is not None else None
                hi = pconst(idx.hi) if idx.hi is not None else None
                return Tup(tuple(a)[lo:hi])
            raise Unsupported("tuple index")
        if isinstance(a, tuple) and a and a[0] == "at()":
            return ("at[]", a[1], idx)
        if not is_term(a):
            raise Unsupported(f"subscript of {type(a).__name__}")
        # arrays being filled in the current loop: forward the value stored in this iteration
        if a[0] == "pend":
            for (i, v) in reversed(a[3]):
                if _same_index(i, idx):
                    return v
            return unknown("read of an array while it is being filled by the loop")
        if isinstance(idx, Poly):
            if a[0] == "tab" and self.loops and any(lc.it == a[1] and atom(lc.var) == idx for lc in self.loops):
                return a[2]
            if a[0] == "tab":
                return ("elem", a, idx)
            return elem(a, idx)
        if isinstance(idx, SliceV):
            if idx.is_all:
                return a
            return index(a, ("sl", idx.lo, idx.hi, idx.step))
        if isinstance(idx, Tup) and a[0] == "tab" and is_term(a[2]) and rank(a[2]) == 1 and len(idx) == 3 \
                and isinstance(idx[0], SliceV) and idx[0].is_all:
            i1, i2 = idx[1], idx[2]
            if isinstance(i1, SliceV) and i1.is_all and i2 is None:
                return tab(a[1], ("col", a[2]))
            if i1 is None and isinstance(i2, SliceV) and i2.is_all:
                return tab(a[1], ("row", a[2]))
        if isinstance(idx, Tup) and idx and all(is_term(i) and i[0] == "axisidx" for i in idx) and len({i[1] for i in idx}) == 1 \
                and [pconst(i[2]) for i in idx] == list(range(len(idx))) and rank(idx[0][1]) == len(idx):
            return sel(a, idx[0][1])          # a[np.nonzero(m)] is a[m]
        if isinstance(idx, Tup):
            items = list(idx)
            # trailing full slices are no-ops
            while len(items) > 1 and isinstance(items[-1], SliceV) and items[-1].is_all:
                last = items.pop()
                if len(items) == 1:
                    first = items[0]
                    if is_term(first) and dtype(first) != "bool":
                        return rows(a, first)
                    if isinstance(first, Poly):
                        return self.subscript(a, first)
                    items.append(last)
                    break
            return index(a, Tup(i.key() if isinstance(i, SliceV) else i for i in items))
        if is_term(idx):
            if idx[0] in ("param", "attr") and dtype(idx) is None:
                return index(a, idx)          # opaque index / slice object
            if dtype(idx) == "bool":
                return sel(a, idx)
            return gather(a, idx)
        raise Unsupported("subscript kind")

    def ev(self, e, env, scope):
        if e is None:
            return None
        if isinstance(e, ast.Constant):
            v = e.value
            if isinstance(v, bool) or v is None or isinstance(v, str):
                return v
            p = as_poly(v)
            return p if p is not None else v
        if isinstance(e, ast.Name):
            if e.id in env:
                return env[e.id].v
            return self.global_value(e, scope)
        if isinstance(e, (ast.Tuple, ast.List)):
            return Tup(self.ev(x, env, scope) for x in e.elts)
        if isinstance(e, ast.Attribute):
            return self.attribute(e, env, scope)
        if isinstance(e, ast.Subscript):
            a = self.ev(e.value, env, scope)
            idx = self.index_value(e.slice, env, scope)
            return self.subscript(a, idx)
        if isinstance(e, ast.UnaryOp):
            v = self.ev(e.operand, env, scope)
            if isinstance(e.op, ast.Invert) and is_term(v):
                return not_(v)
            if isinstance(e.op, ast.Not):
                c = self.cond(e.operand, env, scope)
                return (not c) if isinstance(c, bool) else c_not(c)
            if isinstance(e.op, ast.USub):
                p = as_poly(v)
                if p is not None:
                    return P(0) - p
                if is_term(v) and v[0] == "const" and not isinstance(v[1], bool):
                    return const(-v[1], v[2])
            if isinstance(e.op, ast.UAdd):
                return v
            return unknown(f"unary {type(e.op).__name__}")
        if isinstance(e, ast.BinOp):
            return self.binop(e.op, self.ev(e.left, env, scope), self.ev(e.right, env, scope))
        if isinstance(e, ast.BoolOp):
            return self.cond(e, env, scope)
        if isinstance(e, ast.Compare) and len(e.ops) == 1:
            a, b = self.ev(e.left, env, scope), self.ev(e.comparators[0], env, scope)
            op = e.ops[0]
            if is_term(a) and dtype(a) == "bool" and isinstance(b, bool) and isinstance(op, (ast.Eq, ast.NotEq)):
                pos = (b is True) == isinstance(op, ast.Eq)
                return a if pos else not_(a)
            if is_term(a) and dtype(a) == "int" and isinstance(b, Poly) and b == P(0) and isinstance(op, ast.GtE):
                return ge0(a)
            if is_term(a) and dtype(a) == "int" and isinstance(b, Poly) and b == P(0) and isinstance(op, ast.Lt):
                return not_(ge0(a))
            pa, pb = as_poly(a), as_poly(b)
            if pa is not None and pb is not None:
                ca, cb = pconst(pa), pconst(pb)
                if ca is not None and cb is not None:
                    return {ast.Eq: ca == cb, ast.NotEq: ca != cb, ast.Lt: ca < cb, ast.LtE: ca <= cb, ast.Gt: ca > cb, ast.GtE: ca >= cb}.get(type(op), False)
                if pa == pb and isinstance(op, (ast.Eq, ast.LtE, ast.GtE)):
                    return True
                return ("cmp", type(op).__name__, pa, pb)
            if isinstance(op, (ast.Is, ast.IsNot)) and (a is None or b is None):
                r = (a is None and b is None)
                return r if isinstance(op, ast.Is) else not r
            return ("cmp", type(op).__name__, a if is_term(a) else unknown("operand"), b if is_term(b) else unknown("operand"))
        if isinstance(e, ast.IfExp):
            c = self.cond(e.test, env, scope)
            if isinstance(c, bool):
                return self.ev(e.body if c else e.orelse, env, scope)
            return self._ite_val(c, self.ev(e.body, env, scope), self.ev(e.orelse, env, scope))
        if isinstance(e, ast.Call):
            return self.call(e, env, scope)
        if isinstance(e, ast.Lambda):
            s = self.repo.scope_of(e)
            return Func(s)
        if isinstance(e, ast.ListComp):
            return self.listcomp(e, env, scope)
        raise Unsupported(f"expression {type(e).__name__}")

    def global_value(self, e, scope):
        vals = self.repo.resolve(e, scope)
        for v in vals:
            if isinstance(v, FuncVal):
                return Func(v.scope)
            if isinstance(v, ExtVal):
                return Ext(v.name)
            if isinstance(v, ModVal):
                return v
            if isinstance(v, ClassVal):
                return v
        name = e.id if isinstance(e, ast.Name) else (dotted(e) or "?")
        if name in ("bool", "int", "float"):
            return Ext("builtins." + name)
        return unknown(f"global {name}")

    def attribute(self, e, env, scope):
        d = dotted(e)
        # module-qualified function (onp.full, Mesh.num_nodes, onp.logical_and.outer, ...)
        root = e
        while isinstance(root, ast.Attribute):
            root = root.value
        if isinstance(root, ast.Name) and root.id not in env:
            if d and d.endswith("logical_and.outer"):
                return Ext("numpy.logical_and.outer")
            vals = self.repo.resolve(e, scope)
            for v in vals:
                if isinstance(v, FuncVal):
                    return Func(v.scope)
                if isinstance(v, ExtVal):
                    return Ext(v.name)
            return Ext(d or "?")
        o = self.ev(e.value, env, scope)
        a = e.attr
        if isinstance(o, Obj):
            if a in o.attrs:
                return o.attrs[a].v
            for c in o.cls.children:
                if c.kind == "function" and c.name == a:
                    decos = [(dotted(d) or "").split(".")[-1] for d in c.node.decorator_list]
                    if "staticmethod" in decos:
                        return Func(c)
                    if decos:
                        raise Unsupported(f"decorated method {a}")
                    return Func(c, bound=o)
            return unknown(f"attribute {a} read before it is set")
        if isinstance(o, Ext):
            return Ext(o.name + "." + a)
        if is_term(o):
            if a == "shape":
                s = shape(o)
                return Tup(s) if isinstance(s, tuple) else s
            if a == "size":
                return size(o)
            if a == "ndim":
                return P(rank(o)) if rank(o) is not None else atom(f"ndim[{show(o)}]")
            if a == "T":
                return transpose(o)
            if a == "at" and o[0] not in ("param", "attr"):
                return ("at()", o)
            if a in ("ravel", "flatten", "reshape", "copy", "item", "set", "sum", "tolist", "astype", "tocsc", "any", "all"):
                return ("method()", o, a)
            if o[0] in ("param", "attr", "elem"):
                return ("attr", o, a)
            return unknown(f"attribute .{a} of an array")
        if isinstance(o, tuple) and not isinstance(o, Tup) and o and o[0] == "at[]" and a == "set":
            return ("method()", o, "set")
        if isinstance(o, Poly) and a == "item":
            return ("method()", o, "item")
        raise Unsupported(f"attribute {a} of {type(o).__name__}")

    def call(self, e, env, scope):
        f = self.ev(e.func, env, scope)
        args = []
        for a in e.args:
            if isinstance(a, ast.Starred):
                v = self.ev(a.value, env, scope)
                if not isinstance(v, Tup):
                    raise Unsupported("star argument")
                args += list(v)
            else:
                args.append(self.ev(a, env, scope))
        kw = {k.arg: self.ev(k.value, env, scope) for k in e.keywords if k.arg}
        if isinstance(f, Func):
            return self.call_scope(f.scope, args, kw, bound=f.bound)
        if isinstance(f, tuple) and not isinstance(f, Tup) and f and f[0] == "method()":
            return self.method(f[1], f[2], args, kw)
        if isinstance(f, Ext):
            return self.ext(f, args, kw)
        if isinstance(f, ClassVal):
            return self.instantiate(f.scope, args, kw)
        return unknown(f"call of {show(f)[:60] if is_term(f) else type(f).__name__}")

    def instantiate(self, cls, args, kw):
        """a library class called as a constructor: a NamedTuple record (fields in declaration order) or a plain class whose
        `__init__` is interpreted on a fresh object"""
        node = cls.node
        bases = [dotted(b) or "" for b in getattr(node, "bases", [])]
        if any(b.split(".")[-1] == "NamedTuple" for b in bases):
            fields = [st.target.id for st in node.body if isinstance(st, ast.AnnAssign) and isinstance(st.target, ast.Name)]
            defaults = {st.target.id: st.value for st in node.body if isinstance(st, ast.AnnAssign) and isinstance(st.target, ast.Name)
                        and st.value is not None}
            if len(args) > len(fields) or any(k not in fields for k in kw):
                raise Unsupported("record construction with these arguments")
            o = Obj(cls, name=cls.name)
            for k, v in list(zip(fields, args)) + list(kw.items()):
                if k in o.attrs:
                    raise Unsupported("record field given twice")
                o.attrs[k] = Cell(v)
            for k in fields:
                if k not in o.attrs:
                    if k not in defaults:
                        raise Unsupported("record field without a value")
                    o.attrs[k] = Cell(self.ev(defaults[k], {}, cls))
            o.record = tuple(fields)
            return o
        if bases and not all(b in ("object",) for b in bases):
            raise Unsupported("instantiation of a class with base classes")
        init = next((c for c in cls.children if c.kind == "function" and c.name == "__init__"), None)
        o = Obj(cls, name=cls.name)
        if init is None:
            if args or kw:
                raise Unsupported("constructor arguments without __init__")
            return o
        self.call_scope(init, args, kw, bound=o)
        return o

    def method(self, o, name, args, kw):
        if isinstance(o, Poly):
            return o
        if isinstance(o, tuple) and o and o[0] == "at[]":
            base, idx = o[1], o[2]
            v = args[0]
            if is_term(idx) and dtype(idx) == "bool":
                return mscat(base, idx, v)
            return scatter(base, idx, v)
        if name in ("ravel", "flatten"):
            return ravel(o)
        if name == "copy":
            return o
        if name == "astype":
            return o
        if name == "reshape":
            shp = args[0] if len(args) == 1 and isinstance(args[0], Tup) else Tup(args)
            return self._reshape(o, shp)
        if name == "item":
            return o
        if name == "sum":
            return count(o) if dtype(o) == "bool" else unknown("sum of a non-boolean array")
        if name in ("any", "all"):
            return ("any_" if name == "any" else "all_", o)
        if name == "tocsc":
            return o
        return unknown(f"method {name}")

    def _reshape(self, o, shp):
        dims = []
        for d in shp:
            p = as_poly(d)
            if p is None:
                return unknown("reshape to a non-integer shape")
            dims.append(p)
        if any(pconst(d) == -1 for d in dims):
            known = P(1)
            for d in dims:
                if pconst(d) != -1:
                    known = known * d
            if sum(1 for d in dims if pconst(d) == -1) == 1 and len(dims) == 1:
                return ravel(o)
            # one -1 between a prefix and a suffix that are dimensions of the operand: the -1 is the product of the dimensions in between
            so = shape(o)
            if sum(1 for d in dims if pconst(d) == -1) == 1 and isinstance(so, tuple):
                j = next(i for i, d in enumerate(dims) if pconst(d) == -1)
                pre, suf = dims[:j], dims[j + 1:]
                if len(pre) + len(suf) <= len(so) and all(a == b for a, b in zip(pre, so)) \
                        and all(a == b for a, b in zip(suf, so[len(so) - len(suf):] if suf else ())):
                    mid = P(1)
                    for d in so[len(pre):len(so) - len(suf)]:
                        mid = mid * d
                    return reshape(o, pre + [mid] + suf)
            return unknown("reshape with -1")
        return reshape(o, dims)

    def _shape_arg(self, v):
        if isinstance(v, Tup):
            out = [as_poly(x) for x in v]
            if any(x is None for x in out):
                return None
            return tuple(out)
        p = as_poly(v)
        return (p,) if p is not None else None

    def ext(self, f, args, kw):
        n = f.last
        name = f.name

        def arg(i, key, default=None):
            if len(args) > i:
                return args[i]
            return kw.get(key, default)
        if n in ("full", "zeros", "ones", "empty"):
            shp = self._shape_arg(arg(0, "shape"))
            if shp is None:
                return unknown(f"{n} with a non-integer shape")
            dt = kw.get("dtype", args[2] if n == "full" and len(args) > 2 else (args[1] if n != "full" and len(args) > 1 else None))
            isb = isinstance(dt, Ext) and dt.last in ("bool", "bool_")
            isi = isinstance(dt, Ext) and dt.last.startswith("int")
            if n == "full":
                v = arg(1, "fill_value")
                if isinstance(v, Poly):
                    v = pconst(v)
                if isb:
                    v = bool(v)
            else:
                v = {"zeros": 0, "ones": 1, "empty": None}[n]
                if n == "empty":
                    return unknown("uninitialised array")
                if isb:
                    v = bool(v)
            return const(v, shp)
        if n == "arange" and len(args) == 1:
            p = as_poly(args[0])
            return ("iota", (p,)) if p is not None else unknown("arange")
        if n in ("array", "asarray", "copy", "ascontiguousarray"):
            if isinstance(args[0], Tup) and len(args[0]) == 0:
                return const(0, (P(0),))
            return args[0]
        if n == "append" and len(args) == 2 and not kw:
            a0 = args[0]
            if is_term(a0) and a0[0] == "carried" and self.loops and is_term(args[1]):
                return ("appended", a0[1], args[1])
            return unknown("np.append outside the accumulate-in-a-loop idiom")
        if n == "sort" and len(args) == 1 and is_term(args[0]) and not kw:
            a0 = args[0]
            if a0[0] == "sel" and a0[1][0] == "iota":
                return a0                       # ids selected by a mask are already increasing
            if a0[0] in ("sorted", "uniq"):
                return a0
            return ("sorted", a0)
        if n == "unique" and len(args) == 1 and is_term(args[0]) and not kw:
            return uniq(args[0])
        if n == "prod" and len(args) == 1 and isinstance(args[0], Tup) and all(as_poly(x) is not None for x in args[0]):
            out = P(1)
            for x in args[0]:
                out = out * as_poly(x)
            return out
        if n in ("logical_not", "invert", "bitwise_not") and args and is_term(args[0]):
            return not_(args[0])
        if n == "logical_and" and len(args) == 2 and all(is_term(a) for a in args):
            return and_(args[0], args[1])
        if n == "logical_or" and len(args) == 2 and all(is_term(a) for a in args):
            return not_(and_(not_(args[0]), not_(args[1])))
        if name.endswith("logical_and.outer") and len(args) == 2:
            return outer_and(ravel(args[0]), ravel(args[1]))
        if n == "sum" and args and is_term(args[0]) and args[0][0] == "tab" and isinstance(args[0][2], Poly) and not kw:
            return sum_over(args[0][1], args[0][2], f"k{CUR_DEPTH[0]}")
        if n == "sum" and len(args) == 1 and is_term(args[0]) and args[0][0] == "listtab" and isinstance(args[0][2], Poly) and not kw:
            return sum_over(args[0][1], args[0][2], args[0][3] if len(args[0]) > 3 else f"k{CUR_DEPTH[0]}")
        if n in ("sum", "count_nonzero") and args:
            a = args[0]
            if is_term(a) and dtype(a) == "bool" and not {"axis"} & set(kw):
                return count(a)
            if is_term(a) and dtype(a) is not None and not kw:
                # a different, well-defined quantity (number of non-zero values / total of the values)
                return atom(("nnz" if n == "count_nonzero" else "total") + f"[{show(a)}]")
            return unknown(f"{n} of an array of unknown element type")
        if n == "square" and args:
            p = as_poly(args[0])
            if p is not None:
                return p * p
            a = args[0]
            if is_term(a) and a[0] == "tab" and isinstance(a[2], Poly):
                return tab(a[1], a[2] * a[2])          # elementwise square of a tabulated integer sequence
            return unknown("square of an array")
        if n in ("int", "bool", "float", "abs") and args:
            return args[0]
        if n == "len" and args:
            a = args[0]
            if isinstance(a, Tup):
                return P(len(a))
            if is_term(a):
                return length(a)
        if n == "enumerate" and args:
            return ("enumerate()", args[0])
        if n == "zip" and len(args) >= 2 and not kw:
            return ("zip()", tuple(args))
        if n == "slice" and len(args) in (2, 3) and not kw:
            vals = [None if a is None else as_poly(a) for a in args]
            if any(a is not None and p_ is None for a, p_ in zip(args, vals)):
                return unknown("slice with non-integer bounds")
            return SliceV(*vals)
        if n == "range" and len(args) == 1 and as_poly(args[0]) is not None:
            return ("range()", as_poly(args[0]))
        if n == "tile" and len(args) + len(kw) == 2:
            u, reps = arg(0, "A"), arg(1, "reps")
            if is_term(u) and rank(u) == 1 and isinstance(reps, Tup) and len(reps) == 2 and pconst(as_poly(reps[1])) == 1:
                return rowsrep(u, as_poly(reps[0]))
            return unknown("tile with these repetitions")
        if n == "broadcast_to" and len(args) + len(kw) == 2:
            u, shp = arg(0, "array"), arg(1, "shape")
            if is_term(u) and rank(u) == 1 and isinstance(shp, Tup) and len(shp) == 2 and as_poly(shp[1]) == length(u):
                return rowsrep(u, as_poly(shp[0]))
            if is_term(u) and u[0] == "tab" and is_term(u[2]) and u[2][0] in ("row", "col") and isinstance(shp, Tup) and len(shp) == 3 \
                    and as_poly(shp[0]) == iter_len(u[1]):
                v = u[2][1]
                if u[2][0] == "row" and as_poly(shp[2]) == length(v):
                    return tab(u[1], rowsrep(v, as_poly(shp[1])))
                if u[2][0] == "col" and as_poly(shp[1]) == length(v):
                    return tab(u[1], transpose(rowsrep(v, as_poly(shp[2]))))
            return unknown("broadcast_to with this shape")
        if n in ("concatenate", "hstack") and args and is_term(args[0]) and args[0][0] == "listtab" and not kw:
            _, it, v = args[0][:3]
            if is_term(v) and rank(v) == 1:
                var = args[0][3] if len(args[0]) > 3 else f"k{len(self.loops)}"
                return ("cat", it, v, sum_over(it, length(v), var))
            return unknown("concatenation of non-vectors")
        if n in ("ravel",) and args:
            return ravel(args[0])
        if n == "reshape" and len(args) >= 2:
            return self._reshape(args[0], args[1] if isinstance(args[1], Tup) else Tup(args[1:]))
        if n == "transpose" and len(args) == 1:
            return transpose(args[0])
        if n in ("all", "any") and args and is_term(args[0]):
            return ("all_" if n == "all" else "any_", args[0])
        if n == "where" and len(args) == 3:
            return where_(args[0], args[1], args[2])
        if n in ("nonzero", "where") and len(args) == 1 and not kw and is_term(args[0]) and dtype(args[0]) == "bool" and rank(args[0]) is not None:
            # np.nonzero(m): one index array per axis, the positions of the True entries in row-major order
            m = args[0]
            if rank(m) == 1:
                return Tup((sel(("iota", (length(m),)), m),))
            return Tup(("axisidx", m, P(k_)) for k_ in range(rank(m)))
        if n == "flatnonzero" and len(args) == 1 and is_term(args[0]) and dtype(args[0]) == "bool":
            m = ravel(args[0])
            return sel(("iota", (length(m),)), m)
        if n == "cumsum" and args and is_term(args[0]) and dtype(args[0]) == "bool" and rank(args[0]) == 1 and not ({"axis"} & set(kw)):
            return ("cumsum", args[0])
        if n == "coo_matrix":
            self.calls.append(("coo_matrix", args, kw))
            return ("param", f"coo_matrix#{len(self.calls)}")
        if n == "num_nodes" or n == "print":
            return unknown(n)
        return unknown(f"external function {name}")


def _skip_is_empty(c, width):
    """does condition c imply that a slice of this width is empty?  (n == 0 / n <= 0 / not n for a count n with width = n or n*n)"""
    if c is None or not is_term(c):
        return False
    if c[0] == "cand":
        return _skip_is_empty(c[1], width) or _skip_is_empty(c[2], width)
    n = None
    if c[0] == "cmp" and c[1] in ("Eq", "LtE") and isinstance(c[2], Poly) and isinstance(c[3], Poly) and c[3] == P(0):
        n = c[2]
    if c[0] == "cmp" and c[1] in ("Eq", "GtE") and isinstance(c[2], Poly) and isinstance(c[3], Poly) and c[2] == P(0):
        n = c[3]
    if c[0] == "cnot" and c[1][0] == "cmp" and c[1][1] == "!=" and isinstance(c[1][2], Poly):
        n = c[1][2]
    if c[0] == "cmp" and c[1] == "Lt" and isinstance(c[2], Poly) and isinstance(c[3], Poly) and c[3] == P(1):
        n = c[2]
    return n is not None and isinstance(width, Poly) and (width == n or width == n * n)


def _same_index(a, b):
    if isinstance(a, Poly) and isinstance(b, Poly):
        return a == b
    if isinstance(a, SliceV) and isinstance(b, SliceV):
        return a.key() == b.key()
    if isinstance(a, Tup) and isinstance(b, Tup):
        return len(a) == len(b) and all(_same_index(x, y) for x, y in zip(a, b))
    return type(a) == type(b) and a == b


def sum_over(it, inc, var):
    if inc == P(0):
        return P(0)
    if var not in inc.atoms() and not any(f"{var}" in a for a in inc.atoms()):
        return iter_len(it) * inc
    return atom(f"sum[{var} < {show(it[1])}]({inc!r})")
