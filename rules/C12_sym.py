"""Symbolic interpreter used by the C12 rules (an extension of optilint.tensoreval.Interp; the library is never executed).

What it adds to the constant-propagating interpreter:

  symbolic conditions   a comparison that the constants do not decide becomes an `SBool` in negation normal form over the atoms
                        `d < 0` / `d == 0` (d an exact rational normal form, scaled canonically) and opaque predicates; `&`, `|`, `~`
                        work on them, so `a <= b`, `~(b < a)`, `not (a > b)` and De Morgan variants denote the same condition;
  hypotheses            a table atom -> truth value under which conditions are resolved (a "situation"): rules run a function once
                        per situation instead of matching its branches textually;
  select terms          np.where / if_then_else / lax.cond on an unresolved condition yields a registered atom sel#k = (cond, a, b)
                        (element-wise on arrays; `where(~c, b, a)` and `where(c, a, b)` are the same atom);
  opaque functions      sign, abs, min/max, transcendental functions, norms and analyser supplied functions of symbolic arguments
                        are registered atoms fn#k = (name, args): two applications to the same argument are the same atom;
  let abstraction       a value bound to a local that is large and involves such atoms is replaced by a registered atom let#k,
                        so that later algebra sees the quantities the programmer named (and stays small); `expand` undoes it;
  sorting               argsort / sort give a symbolic ascending permutation `Perm`; indexing with it gives a `Gather`
                        (array, permutation, axis);
  numeric evaluation    of every registered *formula* at a rational/float point (used for sign conventions and witnesses).

Every registry is keyed by the canonical text of exact normal forms, never by names of program variables.
"""
from __future__ import annotations

import ast
import math
from fractions import Fraction

from optilint.expr import Rat, Poly, simplify
from optilint.tensoreval import (Interp, Dual, Arr, Env, Closure, PyFunc, Ext, Unknown, EvalError,
                                 _A, R, rat_const, rat_sign, rat_is_zero, sum_d, d_fun, d_pow)


# ------------------------------------------------------------------------------------------------ symbolic booleans

class SBool:
    """kind: 'lt' (args = (d,), meaning d < 0), 'eq' (d == 0), 'pred' (name, values), 'not', 'and', 'or'."""
    __slots__ = ("kind", "args", "key")

    def __init__(self, kind, args, key):
        self.kind, self.args, self.key = kind, tuple(args), key

    def __bool__(self):
        raise EvalError(f"truth value of the symbolic condition {self.key[:80]}")

    def __repr__(self):
        return self.key

    def atoms(self):
        """atomic conditions (lt / eq / pred) this condition is built from"""
        if self.kind in ("lt", "eq", "pred"):
            return [self]
        out = []
        for a in self.args:
            out += a.atoms()
        return out


def b_not(x):
    if isinstance(x, bool):
        return not x
    if x.kind == "not":
        return x.args[0]
    if x.kind == "and":
        return b_or([b_not(a) for a in x.args])
    if x.kind == "or":
        return b_and([b_not(a) for a in x.args])
    return SBool("not", (x,), "~" + x.key)


def _junction(kind, xs):
    unit = (kind == "and")          # neutral element
    flat = []
    for x in xs:
        if isinstance(x, bool):
            if x != unit:
                return x            # False in an `and`, True in an `or`
            continue
        if not isinstance(x, SBool):
            raise EvalError(f"boolean operation on {x!r}")
        if x.kind == kind:
            flat += list(x.args)
        else:
            flat.append(x)
    seen = {}
    for x in flat:
        seen.setdefault(x.key, x)
    for k, x in seen.items():
        nk = b_not(x).key
        if nk in seen:
            return not unit          # x and ~x  /  x or ~x
    if not seen:
        return unit
    if len(seen) == 1:
        return next(iter(seen.values()))
    items = [seen[k] for k in sorted(seen)]
    return SBool(kind, items, "(" + (" & " if kind == "and" else " | ").join(x.key for x in items) + ")")


def b_and(xs):
    return _junction("and", xs)


def b_or(xs):
    return _junction("or", xs)


# ------------------------------------------------------------------------------------------------ permutations

class Perm:
    """the permutation that sorts the 1-D array `base` ascending (np.argsort(base))"""
    def __init__(self, base: Arr):
        self.base = base

    def same(self, other):
        return isinstance(other, Perm) and other.base.shape == self.base.shape and \
            all(_A.equal(x.a, y.a) for x, y in zip(self.base.data, other.base.data))

    def __repr__(self):
        return f"argsort({self.base!r})"


class Gather:
    """`arr` with the entries along `axis` taken in the order given by `perm`"""
    def __init__(self, arr: Arr, perm: Perm, axis: int):
        self.arr, self.perm, self.axis = arr, perm, axis

    @property
    def shape(self):
        return self.arr.shape

    def T(self):
        if self.arr.ndim != 2:
            return self
        return Gather(self.arr.T(), self.perm, 1 - self.axis)

    def __repr__(self):
        return f"gather({self.arr!r}, {self.perm!r}, axis={self.axis})"


class VmapAxes:
    """jax.vmap(f, in_axes): maps over the leading axis of the arguments whose in_axes entry is 0"""
    def __init__(self, fn, axes):
        self.fn, self.axes = fn, axes


def proportional(p: Poly, q: Poly):
    """mu with p == mu * q (q non-zero), else None"""
    if q.is_zero() or p.is_zero() or set(p.t) != set(q.t):
        return None
    m = next(iter(q.t))
    mu = p.t[m] / q.t[m]
    return mu if all(p.t[k] == mu * q.t[k] for k in q.t) else None


def _split_in(p: Poly, atom):
    """{exponent of atom: Poly in the other atoms}"""
    out = {}
    for m, c in p.t.items():
        e = 0
        rest = m
        for i, (k, x) in enumerate(m):
            if k == atom:
                e = x
                rest = m[:i] + m[i + 1:]
                break
        out.setdefault(e, {})[rest] = c
    return {e: Poly(t) for e, t in out.items()}


def subst(r: Rat, atom, val: Rat) -> Rat:
    """r with `atom` replaced by `val` (one Rat product per distinct exponent instead of one per monomial)"""
    def one(p):
        if atom not in p.atoms():
            return Rat(p)
        parts = _split_in(p, atom)
        if any(e < 0 for e in parts):
            return p.subst(atom, val)
        res = Rat(Poly())
        pw, cur = {}, Rat(Poly.const(1))
        for e in range(max(parts) + 1):
            pw[e] = cur
            cur = cur * val
        for e, c in parts.items():
            res = res + Rat(c) * pw[e]
        return res
    return _A.norm(one(r.n) / one(r.d))


def _size(r: Rat):
    return len(r.n.t) + len(r.d.t)


def _lead(p: Poly):
    m = min(p.t)
    return p.t[m]


# ------------------------------------------------------------------------------------------------ the interpreter

class SymInterp(Interp):
    LET_LIMIT = 10

    def __init__(self, repo, inputs=(), positive=(), abstract=False):
        super().__init__(repo, positive=positive)
        self.tolerant = True
        self.inputs = set(inputs)      # atoms that are free inputs (never abstracted, "pure" part of a value)
        self.abstract = abstract
        self.hyp = {}                  # key of an atomic condition -> bool
        self.generic = set()           # atoms that stand for distinct generic numbers: a non-zero polynomial in them is != 0
        self.sel, self._sel_key = {}, {}
        self.fn, self._fn_key = {}, {}
        self.let, self._let_key = {}, {}
        self.cmp_log = []              # (SBool, left Rat, op name, right Rat, statement) of every comparison that stayed symbolic
        self.sel_log = []              # conditions of selects that stayed unresolved
        self.values = {}               # canonical text -> Rat: every scalar bound to a local somewhere in the interpreted code
        self.bound_names = {}          # canonical text -> name of a local it was bound to (for messages only)
        self.bound_nodes = {}          # canonical text -> statement that bound it (for locations only)
        self.atom_nodes = {}           # registered atom -> statement being interpreted when it was created (for locations only)
        self._cur = None
        self._install()

    # ---- registries
    def _atom(self, table, keytable, key, payload, stem):
        nm = keytable.get(key)
        if nm is None:
            nm = f"{stem}#{len(table) + 1}"
            keytable[key] = nm
            table[nm] = payload
            self.atom_nodes[nm] = self._cur
        return nm

    @staticmethod
    def _vkey(v):
        if isinstance(v, Dual):
            return repr(v.a) if rat_is_zero(v.b) else repr(v)
        if isinstance(v, Rat):
            return repr(v)
        if isinstance(v, Arr):
            return "arr" + repr(v.shape) + "[" + ",".join(SymInterp._vkey(x) for x in v.data) + "]"
        if isinstance(v, (tuple, list)):
            return "(" + ",".join(SymInterp._vkey(x) for x in v) + ")"
        return repr(v)

    def fn_atom(self, name, args) -> Dual:
        """opaque application name(args); args: Duals / Arrs / constants"""
        key = name + "(" + ",".join(self._vkey(a) for a in args) + ")"
        nm = self._atom(self.fn, self._fn_key, key, (name, tuple(args)), name)
        return Dual(_A.atom(nm))

    def let_atom(self, r: Rat) -> Rat:
        key = repr(r)
        nm = self._atom(self.let, self._let_key, key, r, "let")
        return _A.atom(nm)

    # ---- conditions
    def _cmp_atom(self, kind, d: Rat):
        d = simplify(_A.norm(d))
        if d.d.is_const() and not d.n.is_zero():
            c = _lead(d.n) / d.d.const_value()
            s = abs(c) if kind == "lt" else c
            d = Rat(Poly({m: v / d.d.const_value() / s for m, v in d.n.t.items()}))
        elif kind == "eq":
            n = d.n
            c = _lead(n)
            d = Rat(Poly({m: v / c for m, v in n.t.items()}))
        return SBool(kind, (d,), f"{kind}[{d!r}]")

    def cond_lt(self, a: Rat, b: Rat):
        """a < b"""
        return self._cmp_atom("lt", a - b)

    def resolve(self, c):
        """truth value of a condition under the hypotheses: True / False / None"""
        if isinstance(c, bool):
            return c
        if not isinstance(c, SBool):
            return None
        if c.kind in ("lt", "eq", "pred"):
            r = self.hyp.get(c.key)
            if r is None and c.kind == "eq" and self.generic and c.args[0].atoms() and c.args[0].atoms() <= self.generic \
                    and not c.args[0].n.is_zero():
                return False
            return r
        if c.kind == "not":
            r = self.resolve(c.args[0])
            return None if r is None else (not r)
        rs = [self.resolve(a) for a in c.args]
        if c.kind == "and":
            if any(r is False for r in rs):
                return False
            return True if all(r is True for r in rs) else None
        if any(r is True for r in rs):
            return True
        return False if all(r is False for r in rs) else None

    def assume(self, c, value=True):
        """add the hypothesis that condition c (an atom or a negated atom) has the given truth value"""
        if isinstance(c, SBool) and c.kind == "not":
            return self.assume(c.args[0], not value)
        if not isinstance(c, SBool) or c.kind not in ("lt", "eq", "pred"):
            raise EvalError("only atomic conditions can be assumed")
        self.hyp[c.key] = value

    def compare(self, a, op, b):
        if isinstance(op, (ast.In, ast.NotIn, ast.Is, ast.IsNot)):
            return super().compare(a, op, b)
        simple = (str, type(None), bool)
        if isinstance(a, simple) or isinstance(b, simple):
            return super().compare(a, op, b)
        if isinstance(a, SBool) or isinstance(b, SBool):
            raise EvalError("comparison of conditions")
        plain = lambda t: isinstance(t, (tuple, list)) and all(isinstance(x, (int, str)) and not isinstance(x, bool) for x in t)
        if plain(a) and plain(b) and isinstance(op, (ast.Eq, ast.NotEq)):      # shapes
            return (tuple(a) == tuple(b)) == isinstance(op, ast.Eq)
        a, b = self.num(a), self.num(b)
        if isinstance(a, Arr) or isinstance(b, Arr):
            raise EvalError("array comparison")
        d = _A.norm(a.a - b.a)
        s = self.sign_of(d)
        decided = None
        if s in ("pos", "neg", "zero"):
            v = {"pos": 1, "neg": -1, "zero": 0}[s]
            decided = {ast.Lt: v < 0, ast.LtE: v <= 0, ast.Gt: v > 0, ast.GtE: v >= 0, ast.Eq: v == 0, ast.NotEq: v != 0}[type(op)]
        elif s == "nonneg":        # d >= 0, possibly 0 (a square root of a quantity that may vanish)
            decided = {ast.Lt: False, ast.GtE: True}.get(type(op))
        elif s == "nonpos":
            decided = {ast.Gt: False, ast.LtE: True}.get(type(op))
        if decided is not None:
            return decided
        if isinstance(op, ast.Lt):
            c = self._cmp_atom("lt", d)
        elif isinstance(op, ast.Gt):
            c = self._cmp_atom("lt", -d)
        elif isinstance(op, ast.LtE):          # a <= b  ==  not (b < a)
            c = b_not(self._cmp_atom("lt", -d))
        elif isinstance(op, ast.GtE):
            c = b_not(self._cmp_atom("lt", d))
        elif isinstance(op, ast.Eq):
            c = self._cmp_atom("eq", d)
        elif isinstance(op, ast.NotEq):
            c = b_not(self._cmp_atom("eq", d))
        else:
            raise EvalError("comparison operator")
        self.cmp_log.append((c, a.a, type(op).__name__, b.a, self._cur))
        r = self.resolve(c)
        return c if r is None else r

    def _strict(self, atom, depth=0):
        """the atom denotes a strictly positive number (a positive symbol, or the square root of a strictly positive quantity)"""
        if atom in self.positive:
            return True
        if atom in _A.rules and depth < 6:
            return self._poly_sign(_A.rules[atom], depth + 1) == "pos"
        return False

    def _poly_sign(self, p: Poly, depth=0):
        if p.is_zero():
            return "zero"
        for a in p.atoms():
            if not (a in self.positive or a in _A.rules or (a in self.fn and self.fn[a][0] in ("abs", "norm_inf"))):
                return None
        cs = list(p.t.values())
        if not (all(c > 0 for c in cs) or all(c < 0 for c in cs)):
            return None
        strict = any(all(self._strict(k, depth) for k, _ in m) for m in p.t)
        if cs[0] > 0:
            return "pos" if strict else "nonneg"
        return "neg" if strict else "nonpos"

    def sign_of(self, r: Rat):
        """'pos' / 'neg' / 'zero' / 'nonneg' / 'nonpos' / None.  Square roots, absolute values and norms are non-negative; they are strictly
        positive only when their argument provably is."""
        r = _A.norm(r)
        sn, sd = self._poly_sign(r.n), self._poly_sign(r.d)
        if sn is None or sd is None or sd == "zero":
            return None
        if sn == "zero":
            return "zero"
        flip = sd in ("neg", "nonpos")
        weak = sn in ("nonneg", "nonpos")
        up = sn in ("pos", "nonneg")
        if flip:
            up = not up
        return ("nonneg" if up else "nonpos") if weak else ("pos" if up else "neg")

    def truth(self, v):
        if isinstance(v, SBool):
            r = self.resolve(v)
            if r is None:
                raise EvalError(f"branch on the symbolic condition {v.key[:80]}")
            return r
        return super().truth(v)

    # ---- expressions
    def e_BinOp(self, e, env):
        a, b = self.eval(e.left, env), self.eval(e.right, env)
        return self.binop(e.op, a, b, env)

    def binop(self, op, a, b, env):
        if isinstance(op, ast.Mod) and isinstance(a, int) and isinstance(b, int) and not isinstance(a, bool) and not isinstance(b, bool) and b != 0:
            return a % b
        if isinstance(op, ast.Pow) and isinstance(a, (Dual, Arr)) and self._is_half(b):
            return self.np_call("sqrt", [a], {})
        if isinstance(op, (ast.BitAnd, ast.BitOr, ast.BitXor)) and (isinstance(a, SBool) or isinstance(b, SBool)):
            if not all(isinstance(x, (bool, SBool)) for x in (a, b)):
                raise EvalError("bit operation on a condition and a number")
            if isinstance(op, ast.BitAnd):
                return b_and([a, b])
            if isinstance(op, ast.BitOr):
                return b_or([a, b])
            return b_or([b_and([a, b_not(b)]), b_and([b_not(a), b])])
        if isinstance(a, Arr) and isinstance(b, Arr) and a.shape != b.shape and not isinstance(op, ast.MatMult) and a.size() != 1 and b.size() != 1:
            a, b = self._broadcast(a, b)
        env2 = Env(env.scope, env)
        env2.vars["__l"], env2.vars["__r"] = a, b
        return Interp.e_BinOp(self, ast.BinOp(left=ast.Name(id="__l", ctx=ast.Load()), op=op, right=ast.Name(id="__r", ctx=ast.Load())), env2)

    @staticmethod
    def _broadcast(a: Arr, b: Arr):
        """numpy broadcasting of a matrix with a vector along the last axis / with a column (n, 1) / row (1, n)"""
        def expand_to(v, shape):
            r, c = shape
            if v.shape == (c,) or v.shape == (1, c):
                return Arr([v.data[j] for i in range(r) for j in range(c)], shape)
            if v.shape == (r, 1):
                return Arr([v.data[i] for i in range(r) for j in range(c)], shape)
            return None
        if a.ndim == 2 and b.ndim <= 2:
            nb = expand_to(b, a.shape)
            if nb is not None:
                return a, nb
        if b.ndim == 2 and a.ndim <= 2:
            na = expand_to(a, b.shape)
            if na is not None:
                return na, b
        raise EvalError(f"shape mismatch {a.shape} vs {b.shape}")

    def e_Call(self, e, env):
        if any(k.arg is None for k in e.keywords):
            raise EvalError("call with **keywords")
        return super().e_Call(e, env)

    def e_UnaryOp(self, e, env):
        if isinstance(e.op, (ast.Invert, ast.Not)):
            v = self.eval(e.operand, env)
            if isinstance(v, SBool):
                r = self.resolve(v)
                return b_not(v) if r is None else (not r)
            if isinstance(v, bool):
                return not v
            if isinstance(e.op, ast.Not):
                return not self.truth(v)
            raise EvalError("unary ~ of a number")
        return super().e_UnaryOp(e, env)

    def e_BoolOp(self, e, env):
        vals = [self.eval(v, env) for v in e.values]
        if any(isinstance(v, SBool) for v in vals):
            vals = [v if isinstance(v, (bool, SBool)) else self.truth(v) for v in vals]
            return b_and(vals) if isinstance(e.op, ast.And) else b_or(vals)
        if isinstance(e.op, ast.And):
            return all(self.truth(v) for v in vals)
        return any(self.truth(v) for v in vals)

    def e_IfExp(self, e, env):
        c = self.eval(e.test, env)
        if isinstance(c, SBool) and self.resolve(c) is None:
            return self.select(c, self.eval(e.body, env), self.eval(e.orelse, env))
        return self.eval(e.body if self.truth(c) else e.orelse, env)

    def e_Attribute(self, e, env):
        base = self.eval(e.value, env)
        if isinstance(base, Gather) and e.attr == "T":
            return base.T()
        if isinstance(base, Gather) and e.attr == "shape":
            return base.shape
        if isinstance(base, Arr) and e.attr in ("max", "min", "sum", "all", "any", "transpose", "argsort", "flatten", "copy"):
            return ("method", base, e.attr)
        if isinstance(base, list) and e.attr in ("append", "extend"):
            return ("method", base, e.attr)
        if isinstance(base, (tuple, list)) and e.attr in ("all", "any") and base and all(isinstance(x, (bool, SBool)) for x in base):
            return ("method", tuple(base), e.attr)
        env2 = Env(env.scope, env)
        env2.vars["__b"] = base
        return Interp.e_Attribute(self, ast.Attribute(value=ast.Name(id="__b", ctx=ast.Load()), attr=e.attr, ctx=ast.Load()), env2)

    def call_method(self, base, name, args, kwargs):
        if isinstance(base, tuple) and name in ("all", "any") and not args:
            return b_and(list(base)) if name == "all" else b_or(list(base))
        if isinstance(base, list) and name == "append" and len(args) == 1:
            base.append(args[0])
            return None
        if isinstance(base, list) and name == "extend" and len(args) == 1:
            base.extend(list(args[0]))
            return None
        if isinstance(base, Arr) and name in ("max", "min", "sum"):
            return self.np_call(name, [base] + list(args), kwargs)
        if isinstance(base, Arr) and name == "transpose" and not args:
            return base.T()
        if isinstance(base, Arr) and name == "argsort" and not args and not kwargs:
            return self.np_call("argsort", [base], {})
        if isinstance(base, Arr) and name == "flatten" and not args:
            return base.ravel()
        if isinstance(base, Arr) and name == "copy" and not args:
            return base
        return super().call_method(base, name, args, kwargs)

    def getitem(self, base, key):
        if isinstance(key, Perm):
            key = (key,)
        if isinstance(key, tuple) and any(isinstance(k, Perm) for k in key):
            if not isinstance(base, Arr):
                raise EvalError("permutation index on a non-array")
            pos = [i for i, k in enumerate(key) if isinstance(k, Perm)]
            rest = [k for i, k in enumerate(key) if i not in pos]
            if len(pos) != 1 or any(not (isinstance(k, slice) and k == slice(None)) for k in rest) or pos[0] >= base.ndim:
                raise EvalError("unsupported permutation index")
            if base.shape[pos[0]] != key[pos[0]].base.shape[0]:
                raise EvalError("permutation length")
            return Gather(base, key[pos[0]], pos[0])
        if isinstance(base, (Gather, Perm)):
            raise EvalError("element of a symbolically sorted array")
        if isinstance(base, Arr) and isinstance(key, tuple) and any(isinstance(k, Arr) for k in key):
            # one constant integer array among full slices: take along that axis
            pos = [i for i, k in enumerate(key) if isinstance(k, Arr)]
            rest = [k for i, k in enumerate(key) if i not in pos]
            if len(pos) == 1 and all(isinstance(k, slice) and k == slice(None) for k in rest) and pos[0] < base.ndim and key[pos[0]].ndim == 1:
                ix = [self.as_int(x) for x in key[pos[0]].data]
                ax = pos[0]
                if base.ndim == 2:
                    rows = base if ax == 0 else base.T()
                    out = Arr([x for i in ix for x in rows.index(i).data], (len(ix), rows.shape[1]))
                    return out if ax == 0 else out.T()
        return super().getitem(base, key)

    # ---- selects
    def select(self, c, a, b):
        if isinstance(c, SBool):
            r = self.resolve(c)
            if r is None:
                if c.kind == "not":
                    c, a, b = c.args[0], b, a
                self.sel_log.append(c)
                return self._sel(c, a, b)
            c = r
        return a if self.truth(c) else b

    def _sel(self, c, a, b):
        if isinstance(a, (tuple, list)) and isinstance(b, (tuple, list)) and len(a) == len(b):
            return tuple(self._sel(c, x, y) for x, y in zip(a, b))
        if isinstance(a, Arr) or isinstance(b, Arr):
            if not isinstance(a, Arr):
                a = b.map(lambda _x, a=a: Dual.of(self.num(a)))
            if not isinstance(b, Arr):
                b = a.map(lambda _x, b=b: Dual.of(self.num(b)))
            if a.shape != b.shape:
                raise EvalError("select of arrays of different shapes")
            return Arr([self._sel(c, x, y) for x, y in zip(a.data, b.data)], a.shape)
        if isinstance(a, (Unknown,)) or isinstance(b, (Unknown,)):
            raise EvalError("select of an unknown value")
        if isinstance(a, (bool, SBool)) and isinstance(b, (bool, SBool)):
            return b_or([b_and([c, a]), b_and([b_not(c), b])])
        if isinstance(a, (int, float, Fraction, Dual)) and isinstance(b, (int, float, Fraction, Dual)):
            a, b = Dual.of(self.num(a)), Dual.of(self.num(b))

            mm = self._as_minmax(c, a, b)
            if mm is not None:
                return mm

            def part(x, y):
                if _A.equal(x, y):
                    return x
                key = f"{c.key}?{x!r}:{y!r}"
                return _A.atom(self._atom(self.sel, self._sel_key, key, (c, x, y), "sel"))
            return Dual(part(a.a, b.a), part(a.b, b.b))
        if a is b or (type(a) is type(b) and not isinstance(a, (Closure, PyFunc)) and a == b):
            return a
        raise EvalError(f"select between {a!r} and {b!r}")

    def _as_minmax(self, c, a: Dual, b: Dual):
        """where(x < y, x, y) is min(x, y); where(x < y, y, x) is max(x, y)"""
        if c.kind != "lt" or not rat_is_zero(a.b) or not rat_is_zero(b.b):
            return None
        d = c.args[0]
        for x, y, kind in ((a, b, "min"), (b, a, "max")):
            e = simplify(_A.norm(x.a - y.a))
            if e.n.is_zero() or not e.d.is_const() or not d.d.is_const():
                continue
            mu = proportional(e.n, d.n)
            if mu is not None and mu / e.d.const_value() * d.d.const_value() > 0:
                return self.s_minmax(kind, a, b)
        return None

    # ---- let abstraction and the record of named values
    def pure(self, r: Rat):
        return all(a in self.inputs for a in r.atoms())

    def note_value(self, name, v):
        if isinstance(v, Dual) and rat_is_zero(v.b):
            k = repr(v.a)
            if k not in self.values:
                self.values[k] = v.a
                self.bound_names[k] = name
                self.bound_nodes[k] = self._cur

    def abstract_value(self, v):
        if isinstance(v, Dual):
            if rat_is_zero(v.b) and not self.pure(v.a) and (_size(v.a) > self.LET_LIMIT or not v.a.d.is_const()):
                return Dual(self.let_atom(v.a))
            return v
        if isinstance(v, Arr) and not v.isbool:
            return Arr([self.abstract_value(x) for x in v.data], v.shape)
        if isinstance(v, tuple):
            return tuple(self.abstract_value(x) for x in v)
        return v

    def _bound(self, name, v):
        if isinstance(v, (int, float, Fraction)) and not isinstance(v, bool):
            return v
        if self.abstract:
            v = self.abstract_value(v)
        if isinstance(v, Dual):
            self.note_value(name, v)
        elif isinstance(v, Arr):
            for x in v.data:
                self.note_value(name, x)
        return v

    def assign(self, t, v, env):
        if isinstance(t, ast.Name):
            v = self._bound(t.id, v)
        elif isinstance(t, (ast.Tuple, ast.List)) and isinstance(v, Arr) and v.ndim >= 1:
            v = [v.index(i) for i in range(v.shape[0])]       # unpacking an array iterates over its first axis
        super().assign(t, v, env)

    def stmt(self, st, env):
        prev, self._cur = self._cur, st
        try:
            super().stmt(st, env)
        finally:
            self._cur = prev
        if isinstance(st, ast.AugAssign) and isinstance(st.target, ast.Name) and st.target.id in env.vars:
            env.vars[st.target.id] = self._bound(st.target.id, env.vars[st.target.id])

    def expand(self, r: Rat, depth=8, limit=4000) -> Rat:
        """substitute let atoms by their definitions (recursively)"""
        for _ in range(depth):
            todo = [a for a in r.atoms() if a in self.let]
            if not todo:
                break
            for a in todo:
                r = subst(r, a, self.let[a])
                if _size(r) > limit:
                    raise EvalError("expansion too large")
        return simplify(_A.norm(r))

    def specialise(self, r: Rat, pt, cache=None, depth=12) -> Rat:
        """the value in the situation of the numeric point `pt`: every select atom is replaced by the branch its condition picks there"""
        cache = {} if cache is None else cache
        for _ in range(depth):
            todo = [a for a in r.atoms() if a in self.sel]
            if not todo:
                break
            for a in todo:
                c, x, y = self.sel[a]
                r = subst(r, a, x if self.numeric_cond(c, pt, cache) else y)
        return simplify(_A.norm(r))

    # ---- dependencies between registered atoms
    def atom_parts(self, a):
        """the values an atom is made of"""
        if a in self.let:
            return [self.let[a]]
        if a in self.sel:
            c, x, y = self.sel[a]
            return [x, y] + [t.args[0] for t in c.atoms() if t.kind in ("lt", "eq")]
        if a in self.fn:
            out = []
            for v in self.fn[a][1]:
                if isinstance(v, Dual):
                    out.append(v.a)
                elif isinstance(v, Arr):
                    out += [x.a for x in v.data]
            return out
        if a in _A.rules:
            return [Rat(_A.rules[a])]
        return []

    def reach(self, rats, through_conditions=True):
        """(atoms, values) reachable from the given values through the registries"""
        atoms, vals, work = set(), [], list(rats)
        while work:
            r = work.pop()
            vals.append(r)
            for a in r.atoms():
                if a in atoms:
                    continue
                atoms.add(a)
                if a in self.sel and not through_conditions:
                    work += list(self.sel[a][1:])
                else:
                    work += self.atom_parts(a)
        return atoms, vals

    # ---- numeric evaluation of registered formulas
    def numeric(self, r, pt, cache=None):
        cache = {} if cache is None else cache
        if isinstance(r, Dual):
            r = r.a

        def av(a):
            if a in cache:
                return cache[a]
            if a in pt:
                v = float(pt[a])
            elif a in self.let:
                v = self.numeric(self.let[a], pt, cache)
            elif a in self.sel:
                c, x, y = self.sel[a]
                v = self.numeric(x if self.numeric_cond(c, pt, cache) else y, pt, cache)
            elif a in self.fn:
                v = self._fn_num(a, pt, cache)
            elif a in _A.rules:
                q = self.numeric(Rat(_A.rules[a]), pt, cache)
                v = math.sqrt(q) if q >= 0 else float("nan")
            else:
                raise KeyError(a)
            cache[a] = v
            return v

        def pv(p):
            tot = 0.0
            for m, c in p.t.items():
                x = float(c)
                for k, e in m:
                    x *= av(k) ** e
                tot += x
            return tot
        den = pv(r.d)
        return pv(r.n) / den if den != 0 else float("nan")

    def numeric_cond(self, c, pt, cache=None):
        if isinstance(c, bool):
            return c
        if c.kind == "lt":
            return self.numeric(c.args[0], pt, cache) < 0
        if c.kind == "eq":
            return self.numeric(c.args[0], pt, cache) == 0
        if c.kind == "not":
            return not self.numeric_cond(c.args[0], pt, cache)
        if c.kind == "and":
            return all(self.numeric_cond(a, pt, cache) for a in c.args)
        if c.kind == "or":
            return any(self.numeric_cond(a, pt, cache) for a in c.args)
        if c.kind == "pred":
            name, vals = c.args[0], c.args[1]
            xs = [self.numeric(v, pt, cache) if isinstance(v, (Dual, Rat)) else float(v) for v in vals]
            if name == "isclose":
                a, b = xs[0], xs[1]
                rtol = xs[2] if len(xs) > 2 else 1e-5
                atol = xs[3] if len(xs) > 3 else 1e-8
                return abs(a - b) <= atol + rtol * abs(b)
        raise KeyError(c.key)

    def _fn_num(self, a, pt, cache):
        name, args = self.fn[a]
        xs = []
        for v in args:
            if isinstance(v, Dual):
                xs.append(self.numeric(v, pt, cache))
            elif isinstance(v, Arr):
                xs.append([self.numeric(x, pt, cache) for x in v.data])
            else:
                xs.append(float(v))
        x = xs[0] if xs else None
        try:
            if name == "abs":
                return abs(x)
            if name == "sign":
                return (x > 0) - (x < 0)
            if name == "min":
                return min(xs)
            if name == "max":
                return max(xs)
            if name == "cos_acos_third":
                return math.cos(math.acos(max(-1.0, min(1.0, x))) / 3.0)
            if name == "exp":
                return math.exp(x)
            if name == "expm1":
                return math.expm1(x)
            if name == "log":
                return math.log(x)
            if name == "log1p":
                return math.log1p(x)
            if name == "pow":
                return x ** xs[1]
            if name == "norm_inf":
                return max(abs(t) for t in x)
            if name == "amax":
                return max(x)
            if name == "amin":
                return min(x)
        except (ValueError, OverflowError, ZeroDivisionError):
            return float("nan")
        raise KeyError(a)

    # ---- library functions
    def _install(self):
        self.special["optimism.JaxConfig:if_then_else"] = lambda it, args, kw: it.select(*self._bind3(args, kw, ("cond", "val1", "val2")))
        self.special["optimism.Math:safe_sqrt"] = lambda it, args, kw: it.np_call("sqrt", list(args), {})

    @staticmethod
    def _bind3(args, kw, names):
        vals = list(args)
        for n in names[len(vals):]:
            if n not in kw:
                raise EvalError(f"missing argument {n}")
            vals.append(kw[n])
        return vals

    def opaque_function(self, qualname, fname):
        """make calls of the repository function `qualname` opaque applications fname(args)"""
        def f(it, args, kw):
            xs = [it.num(a) for a in list(args) + list(kw.values())]
            if len(xs) == 1 and isinstance(xs[0], Arr):
                return xs[0].map(lambda v: it.fn_atom(fname, [v]))
            return it.fn_atom(fname, xs)
        self.special[qualname] = f

    def call(self, f, args, kwargs):
        if isinstance(f, VmapAxes):
            axes = f.axes
            if not isinstance(axes, (tuple, list)):
                axes = [axes] * len(args)
            if len(axes) != len(args) or kwargs:
                raise EvalError("vmap in_axes")
            mapped = [i for i, ax in enumerate(axes) if ax is not None]
            if any(axes[i] != 0 for i in mapped) or not mapped or any(not isinstance(args[i], Arr) for i in mapped):
                raise EvalError("vmap over a non-leading axis")
            k = args[mapped[0]].shape[0]
            outs = [self.call(f.fn, [self.getitem(a, j) if i in mapped else a for i, a in enumerate(args)], {}) for j in range(k)]
            outs = [self.num(o) for o in outs]
            if all(isinstance(o, Dual) for o in outs):
                return Arr(outs, (k,))
            if all(isinstance(o, Arr) and o.shape == outs[0].shape for o in outs):
                return Arr([x for o in outs for x in o.data], (k,) + tuple(outs[0].shape))
            raise EvalError("vmap output")
        return super().call(f, args, kwargs)

    def call_ext(self, name, args, kwargs):
        if name == "jax.lax.cond" and args and isinstance(args[0], SBool):
            c = args[0]
            r = self.resolve(c)
            ops = list(args[3:]) + ([kwargs["operand"]] if "operand" in kwargs else [])
            if r is None:
                return self.select(c, self.call(args[1], ops, {}), self.call(args[2], ops, {}))
            return self.call(args[1] if r else args[2], ops, {})
        if name == "jax.vmap" and (len(args) > 1 or "in_axes" in kwargs or "out_axes" in kwargs):
            axes = kwargs.get("in_axes", args[1] if len(args) > 1 else 0)
            if kwargs.get("out_axes", args[2] if len(args) > 2 else 0) != 0:
                raise EvalError("vmap with out_axes")
            return VmapAxes(args[0], axes)
        if name == "jax.lax.select" and len(args) == 3:
            return self.select(args[0], args[1], args[2])
        if name == "builtins.abs" and len(args) == 1:
            return self.np_call("abs", args, kwargs)
        if name in ("builtins.max", "builtins.min") and len(args) == 2:
            return self.np_call("maximum" if name.endswith("max") else "minimum", args, kwargs)
        if name == "builtins.float" and len(args) == 1:
            return args[0]
        if name == "builtins.callable" and len(args) == 1:
            from optilint.tensoreval import Vmapped, Deriv
            return isinstance(args[0], (Closure, PyFunc, Ext, Vmapped, Deriv, VmapAxes))
        return super().call_ext(name, args, kwargs)

    def _scalar_or_map(self, x, f):
        x = self.num(x)
        return x.map(f) if isinstance(x, Arr) else f(x)

    def s_abs(self, v: Dual) -> Dual:
        c = rat_const(v.a)
        if c is not None:
            return Dual(abs(c)) if rat_is_zero(v.b) else d_fun("abs", v)
        s = rat_sign(v.a, self.positive)
        if s is not None:
            return v if s >= 0 else -v
        a = v.a
        if a.d.is_const() and not a.n.is_zero() and _lead(a.n) / a.d.const_value() < 0:
            a = -a                                    # |x| == |-x|: one atom for both
        return self.fn_atom("abs", [Dual(a)])

    @staticmethod
    def _is_half(k):
        if isinstance(k, Dual):
            k = rat_const(k.a) if rat_is_zero(k.b) else None
        if isinstance(k, float):
            return k == 0.5
        return isinstance(k, Fraction) and k == Fraction(1, 2)

    @staticmethod
    def _monomial_root(r: Rat):
        """m with m^2 == r when r is c^2 * (monomial with even exponents) / (the same), not a constant; else None"""
        def root(p):
            if len(p.t) != 1:
                return None
            (mono, c), = p.t.items()
            if c <= 0 or any(e % 2 for _, e in mono):
                return None
            sn, sd = math.isqrt(c.numerator), math.isqrt(c.denominator)
            if sn * sn != c.numerator or sd * sd != c.denominator:
                return None
            return Poly({tuple((k, e // 2) for k, e in mono): Fraction(sn, sd)})
        if r.n.is_const() and r.d.is_const():
            return None
        n, d = root(r.n), root(r.d)
        return Rat(n, d) if n is not None and d is not None else None

    def s_minmax(self, kind, a, b):
        a, b = Dual.of(self.num(a)), Dual.of(self.num(b))
        d = _A.norm(a.a - b.a)
        s = rat_sign(d, self.positive)
        if s is not None:
            return (a if s <= 0 else b) if kind == "min" else (a if s >= 0 else b)
        # max(|x|, c) with c <= 0 is |x|
        for x, y in ((a, b), (b, a)):
            cy = rat_const(y.a)
            if kind == "max" and cy is not None and cy <= 0 and len(x.a.atoms()) == 1 and next(iter(x.a.atoms())) in self.fn \
                    and self.fn[next(iter(x.a.atoms()))][0] in ("abs", "norm_inf") and repr(x.a) == next(iter(x.a.atoms())):
                return x
        xs = sorted([a, b], key=lambda v: repr(v.a))
        return self.fn_atom(kind, xs)

    def np_call(self, fn, args, kwargs):
        n = self.num
        if fn == "where" and len(args) == 3:
            c = args[0]
            if isinstance(c, Arr):
                raise EvalError("np.where with an array condition")
            return self.select(c, args[1], args[2])
        if fn in ("logical_and", "logical_or") and len(args) == 2:
            return b_and(list(args)) if fn == "logical_and" else b_or(list(args))
        if fn == "logical_not" and len(args) == 1:
            return b_not(args[0])
        if fn in ("all", "any") and len(args) == 1 and isinstance(args[0], (list, tuple)):
            return b_and(list(args[0])) if fn == "all" else b_or(list(args[0]))
        if fn in ("array", "asarray") and args and isinstance(args[0], (list, tuple)) and args[0] \
                and all(isinstance(x, (bool, SBool)) for x in args[0]) and any(isinstance(x, SBool) for x in args[0]):
            return tuple(args[0])            # a vector of conditions stays a tuple of conditions
        if fn in ("abs", "absolute", "fabs") and len(args) == 1:
            return self._scalar_or_map(args[0], self.s_abs)
        if fn in ("minimum", "maximum", "fmin", "fmax") and len(args) == 2:
            kind = "min" if fn in ("minimum", "fmin") else "max"
            a, b = n(args[0]), n(args[1])
            if isinstance(a, Arr) or isinstance(b, Arr):
                raise EvalError("minimum / maximum of arrays")
            return self.s_minmax(kind, a, b)
        if fn == "clip" and len(args) == 3:
            return self.s_minmax("min", self.s_minmax("max", args[0], args[1]), args[2])
        if fn == "sign" and len(args) == 1:
            def sg(v):
                c = rat_const(v.a)
                if c is not None:
                    return Dual(1 if c > 0 else (-1 if c < 0 else 0))
                s = self.sign_of(v.a)
                if s in ("pos", "neg", "zero"):
                    return Dual({"pos": 1, "neg": -1, "zero": 0}[s])
                return self.fn_atom("sign", [Dual(v.a)])
            return self._scalar_or_map(args[0], sg)
        if fn in ("exp", "expm1", "log", "log1p") and len(args) == 1:
            def tf(v):
                try:
                    return d_fun(fn, v)
                except EvalError:
                    if not rat_is_zero(v.b):
                        raise
                    return self.fn_atom(fn, [v])
            return self._scalar_or_map(args[0], tf)
        if fn == "sqrt" and len(args) == 1:
            def sq(v):
                if rat_const(v.a) == 0 and not rat_is_zero(v.b):
                    raise EvalError("sqrt is not differentiable at 0")
                root = self._monomial_root(v.a) if rat_is_zero(v.b) else None
                if root is not None:
                    return self.s_abs(Dual(root))          # sqrt(x^2) is |x|, not x
                return d_fun("sqrt", v)
            return self._scalar_or_map(args[0], sq)
        if fn == "square" and len(args) == 1:
            return self._scalar_or_map(args[0], lambda v: v * v)
        if fn in ("power", "float_power") and len(args) == 2:
            if self._is_half(args[1]):
                return self.np_call("sqrt", [args[0]], {})

            def pw(v):
                try:
                    return d_pow(v, args[1])
                except EvalError:
                    if not rat_is_zero(v.b):
                        raise
                    return self.fn_atom("pow", [v, Dual.of(n(args[1]))])
            return self._scalar_or_map(args[0], pw)
        if fn == "isclose" and len(args) >= 2:
            a, b = n(args[0]), n(args[1])
            if isinstance(a, Arr) or isinstance(b, Arr):
                raise EvalError("isclose of arrays")
            if _A.equal(a.a, b.a):
                return True
            extra = [n(kwargs[k]) for k in ("rtol", "atol") if k in kwargs] if not args[2:] else [n(x) for x in args[2:]]
            vals = (a, b) + tuple(extra)
            c = SBool("pred", ("isclose", vals), "isclose[" + ",".join(self._vkey(v) for v in vals) + "]")
            self.cmp_log.append((c, a.a, "isclose", b.a, self._cur))
            r = self.resolve(c)
            return c if r is None else r
        if fn in ("argsort", "sort") and len(args) == 1 and not kwargs:
            x = n(args[0])
            if not isinstance(x, Arr) or x.ndim != 1:
                raise EvalError("argsort of a non-vector")
            p = Perm(x)
            return p if fn == "argsort" else Gather(x, p, 0)
        if fn == "take" and len(args) >= 2 and isinstance(args[1], Perm):
            ax = kwargs.get("axis", args[2] if len(args) > 2 else 0)
            x = n(args[0])
            ax = self.as_int(ax)
            ax = ax + x.ndim if ax < 0 else ax
            return Gather(x, args[1], ax)
        if fn in ("column_stack", "stack", "vstack", "row_stack") and len(args) >= 1 and isinstance(args[0], (tuple, list)):
            vs = [n(v) for v in args[0]]
            if not vs or not all(isinstance(v, Arr) and v.ndim == 1 and v.shape == vs[0].shape for v in vs):
                raise EvalError(f"{fn} of non-vectors")
            rows = Arr([x for v in vs for x in v.data], (len(vs), vs[0].shape[0]))
            ax = self.as_int(kwargs.get("axis", args[1] if len(args) > 1 else 0)) if fn == "stack" else (1 if fn == "column_stack" else 0)
            if ax in (1, -1):
                return rows.T()
            if ax == 0:
                return rows
            raise EvalError("stack axis")
        if fn == "transpose" and len(args) == 1:
            x = args[0]
            return x.T() if isinstance(x, (Arr, Gather)) else x
        if fn == "cross" and len(args) == 2:
            a, b = n(args[0]), n(args[1])
            if not (isinstance(a, Arr) and isinstance(b, Arr) and a.shape == (3,) and b.shape == (3,)):
                raise EvalError("cross of non 3-vectors")
            g, h = a.data, b.data
            return Arr([g[1] * h[2] - g[2] * h[1], g[2] * h[0] - g[0] * h[2], g[0] * h[1] - g[1] * h[0]], (3,))
        if fn == "outer" and len(args) == 2:
            a, b = n(args[0]), n(args[1])
            return Arr([x * y for x in a.data for y in b.data], (a.size(), b.size()))
        if fn == "linalg.norm":
            x = n(args[0])
            order = kwargs.get("ord", args[1] if len(args) > 1 else None)
            if kwargs.get("axis") is not None:
                ax = self.as_int(kwargs["axis"])
                if not (isinstance(x, Arr) and x.ndim == 2 and order in (None, 2)) or kwargs.get("keepdims"):
                    raise EvalError("norm along an axis")
                rows = x.T() if ax in (0, -2) else x
                return Arr([d_fun("sqrt", sum_d(v * v for v in rows.index(i).data)) for i in range(rows.shape[0])], (rows.shape[0],))
            if order is None or order == 2 and isinstance(x, Arr) and x.ndim == 1 or order == "fro":
                return d_fun("sqrt", sum_d(v * v for v in (x.data if isinstance(x, Arr) else [x])))
            if isinstance(order, Ext) and order.name.split(".")[-1] in ("inf", "Inf", "infty"):
                return self.fn_atom("norm_inf", [x])
            raise EvalError("norm order")
        if fn in ("sum", "mean", "prod", "cumsum", "all", "any") and (kwargs.get("axis") is not None or len(args) > 1):
            ax = kwargs.get("axis", args[1] if len(args) > 1 else None)
            x = n(args[0])
            if fn == "sum" and isinstance(x, Arr) and x.ndim == 2 and not kwargs.get("keepdims"):
                ax = self.as_int(ax)
                rows = x.T() if ax in (0, -2) else x
                return Arr([sum_d(rows.index(i).data) for i in range(rows.shape[0])], (rows.shape[0],))
            if fn == "sum" and isinstance(x, Arr) and x.ndim == 1 and self.as_int(ax) in (0, -1):
                return sum_d(x.data)
            raise EvalError(f"{fn} along an axis")
        if fn == "einsum" and len(args) >= 2 and isinstance(args[0], str):
            return self._einsum(args[0], [n(a) for a in args[1:]])
        if fn == "linalg.solve" and len(args) == 2:
            Am, Bm = n(args[0]), n(args[1])
            if isinstance(Am, Arr) and Am.is_diagonal():
                k = Am.shape[0]
                inv = Arr([(Dual(1) / Am.data[i * k + i]) if i == j else Dual(0) for i in range(k) for j in range(k)], Am.shape)
                from optilint.tensoreval import matmul as _mm
                return _mm(inv, Bm)
            raise EvalError("solve with a non-diagonal matrix")
        if fn == "polyval" and len(args) == 2:
            cs, xv = n(args[0]), n(args[1])
            if not isinstance(cs, Arr) or cs.ndim != 1 or isinstance(xv, Arr):
                raise EvalError("polyval")
            acc = Dual(0)
            for c in cs.data:
                acc = acc * xv + c
            return acc
        if fn in ("max", "amax", "min", "amin") and len(args) == 1 and not kwargs:
            x = n(args[0])
            if isinstance(x, Arr):
                return self.fn_atom("amax" if fn in ("max", "amax") else "amin", [x])
            return x
        return super().np_call(fn, args, kwargs)

    def _einsum(self, spec, ops):
        """explicit Einstein summation over small symbolic arrays"""
        import itertools
        spec = spec.replace(" ", "")
        if "->" in spec:
            lhs, out = spec.split("->")
        else:
            lhs = spec
            letters = [c for c in lhs if c != ","]
            out = "".join(sorted(c for c in set(letters) if letters.count(c) == 1))
        ins = lhs.split(",")
        if len(ins) != len(ops) or "." in spec:
            raise EvalError("einsum specification")
        dims = {}
        for sub_, op in zip(ins, ops):
            if not isinstance(op, Arr) or op.ndim != len(sub_):
                raise EvalError("einsum operand")
            for c, d in zip(sub_, op.shape):
                if dims.setdefault(c, d) != d:
                    raise EvalError("einsum dimensions")
        summed = [c for c in dims if c not in out]
        res = []
        for oi in itertools.product(*[range(dims[c]) for c in out]):
            env = dict(zip(out, oi))
            tot = Dual(0)
            for si in itertools.product(*[range(dims[c]) for c in summed]):
                env.update(zip(summed, si))
                term = Dual(1)
                for sub_, op in zip(ins, ops):
                    term = term * op.get(tuple(env[c] for c in sub_))
                tot = tot + term
            res.append(tot)
        return Arr(res, tuple(dims[c] for c in out)) if out else res[0]

    # ---- running a repository function
    def run(self, scope, args, kwargs=None):
        mod = scope.module
        f = self.module_value(mod, scope.name) if scope.parent is not None and scope.parent.kind == "module" else Closure(scope, self.module_env(mod))
        return self.call(f, list(args), dict(kwargs or {}))


def generic_matrix(prefix, n=3):
    names = [f"{prefix}{i}{j}" for i in range(n) for j in range(n)]
    return Arr([Dual(_A.atom(x)) for x in names], (n, n)), names


def rat_of(v):
    if isinstance(v, Dual):
        return v.a
    if isinstance(v, (int, float, Fraction)) and not isinstance(v, bool):
        return R(v) if not isinstance(v, float) else _A.const(v)
    raise EvalError(f"not a scalar: {v!r}")
