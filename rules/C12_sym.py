"""Symbolic interpreter used by the C12 rules (an extension of optilint.tensoreval.Interp; the library is never executed).

What it adds to the constant-propagating interpreter:

  symbolic conditions   a comparison that the constants do not decide becomes an `SBool` in negation normal form over the atoms
                        `d < 0` / `d == 0` (d an exact rational normal form, scaled canonically) and opaque predicates; `&`, `|`, `~`
                        work on them, so `a <= b`, `~(b < a)`, `not (a > b)` and De Morgan variants denote the same condition;
  hypotheses            a table atom -> truth value under which conditions are resolved (a "situation"): rules run a function once
                        per situation instead of matching its branches textually;
  select terms          np.where / if_then_else / lax.cond on an unresolved condition yields a registered atom sel#k = (cond, a, b)
                        (element-wise on arrays; `where(~c, b, a)` and `where(c, a, b)` are the same atom);
  opaque functions      sign, abs, min/max, transcendental functions, norms and analyser supplied functions of symbolic arguments
                        are registered atoms fn#k = (name, args): two applications to the same argument are the same atom;
  let abstraction       a value bound to a local that is large and involves such atoms is replaced by a registered atom let#k,
                        so that later algebra sees the quantities the programmer named (and stays small); `expand` undoes it;
  sorting               argsort / sort give a symbolic ascending permutation `Perm`; indexing with it gives a `Gather`
                        (array, permutation, axis);
  numeric evaluation    of every registered *formula* at a rational/float point (used for sign conventions and witnesses).

  python semantics      full calling convention (positional / keyword / default / *args / **kwargs / keyword-only), starred displays,
                        comprehensions, for / while / with / try, zip / enumerate / map / sum / any / all / functools / itertools /
                        operator, NamedTuple / dataclass records (`_replace`, `_asdict`, unpacking), plain classes with __init__ and
                        methods, dictionaries, `functools.partial` (a value that can be unwrapped), module level `f.defjvp(rule)`
                        registrations (recorded);
  arrays                numpy broadcasting, newaxis, element-wise comparisons (`CondArr`) with `np.where` / `&` / `|` / `~` / all / any,
                        np.select, meshgrid, argmax / argmin as a symbolic index (`IdxSel`), entries of a symbolically sorted array as
                        nested selections, vmap over axis 0 / 1 with out_axes, static lax.fori_loop / scan / switch, 2x2 / 3x3 inverse;
  pytrees               `tree_flatten`: leaves of tuples / lists / dictionaries (sorted keys, as jax) / records / objects and a rebuild
                        function (loop carries, argument lists whose roles are read by value);
  call stack            `stack` (functions being interpreted) and `call_hook` (every call of a repository function), used by rules to
                        find a function by its dynamic role instead of its name.

Every registry is keyed by the canonical text of exact normal forms, never by names of program variables.
"""
from __future__ import annotations

import ast
import itertools
import math
from fractions import Fraction

from optilint.expr import Rat, Poly, simplify
from optilint.tensoreval import (Interp, Dual, Arr, Env, Closure, PyFunc, Ext, Unknown, EvalError, Record, Vmapped, Deriv, ReturnSignal,
                                 _A, R, rat_const, rat_sign, rat_is_zero, sum_d, d_fun, d_pow)


# ------------------------------------------------------------------------------------------------ symbolic booleans

class SBool:
    """kind: 'lt' (args = (d,), meaning d < 0), 'eq' (d == 0), 'pred' (name, values), 'not', 'and', 'or'."""
    __slots__ = ("kind", "args", "key")

    def __init__(self, kind, args, key):
        self.kind, self.args, self.key = kind, tuple(args), key

    def __bool__(self):
        raise EvalError(f"truth value of the symbolic condition {self.key[:80]}")

    def __repr__(self):
        return self.key

    def atoms(self):
        """atomic conditions (lt / eq / pred) this condition is built from"""
        if self.kind in ("lt", "eq", "pred"):
            return [self]
        out = []
        for a in self.args:
            out += a.atoms()
        return out


def b_not(x):
    if isinstance(x, bool):
        return not x
    if x.kind == "not":
        return x.args[0]
    if x.kind == "and":
        return b_or([b_not(a) for a in x.args])
    if x.kind == "or":
        return b_and([b_not(a) for a in x.args])
    return SBool("not", (x,), "~" + x.key)


def _junction(kind, xs):
    unit = (kind == "and")          # neutral element
    flat = []
    for x in xs:
        if isinstance(x, bool):
            if x != unit:
                return x            # False in an `and`, True in an `or`
            continue
        if not isinstance(x, SBool):
            raise EvalError(f"boolean operation on {x!r}")
        if x.kind == kind:
            flat += list(x.args)
        else:
            flat.append(x)
    seen = {}
    for x in flat:
        seen.setdefault(x.key, x)
    for k, x in seen.items():
        nk = b_not(x).key
        if nk in seen:
            return not unit          # x and ~x  /  x or ~x
    if not seen:
        return unit
    if len(seen) == 1:
        return next(iter(seen.values()))
    items = [seen[k] for k in sorted(seen)]
    return SBool(kind, items, "(" + (" & " if kind == "and" else " | ").join(x.key for x in items) + ")")


def b_and(xs):
    return _junction("and", xs)


def b_or(xs):
    return _junction("or", xs)


# ------------------------------------------------------------------------------------------------ permutations

class Perm:
    """the permutation that sorts the 1-D array `base` ascending (np.argsort(base))"""
    def __init__(self, base: Arr):
        self.base = base

    def same(self, other):
        return isinstance(other, Perm) and other.base.shape == self.base.shape and \
            all(_A.equal(x.a, y.a) for x, y in zip(self.base.data, other.base.data))

    def __repr__(self):
        return f"argsort({self.base!r})"


class Gather:
    """`arr` with the entries along `axis` taken in the order given by `perm`"""
    def __init__(self, arr: Arr, perm: Perm, axis: int):
        self.arr, self.perm, self.axis = arr, perm, axis

    @property
    def shape(self):
        return self.arr.shape

    def T(self):
        if self.arr.ndim != 2:
            return self
        return Gather(self.arr.T(), self.perm, 1 - self.axis)

    def __repr__(self):
        return f"gather({self.arr!r}, {self.perm!r}, axis={self.axis})"


class VmapAxes:
    """jax.vmap(f, in_axes, out_axes): maps over the given axis (0, or 1 of a matrix) of the arguments whose in_axes entry is not None"""
    def __init__(self, fn, axes, out_axes=0):
        self.fn, self.axes, self.out_axes = fn, axes, out_axes


class Partial(PyFunc):
    """functools.partial(fn, *args, **kwargs): a callable value that can be unwrapped (`inner`, `args`, `kwargs`)"""
    def __init__(self, fn, args, kwargs):
        super().__init__("partial", self._apply)
        self.inner, self.args, self.kwargs = fn, list(args), dict(kwargs)

    def _apply(self, it, a, k):
        return it.call(self.inner, self.args + list(a), dict(self.kwargs, **k))

    def __repr__(self):
        return f"<partial of {self.inner!r}>"


class PermElem:
    """k-th entry of a sorting permutation (np.argsort(base)[k]): an index that is only known symbolically"""
    def __init__(self, perm, k):
        self.perm, self.k = perm, k

    def __repr__(self):
        return f"{self.perm!r}[{self.k}]"


class Obj:
    """instance of a plain repository class (one with an __init__): attribute dictionary + the class scope for methods and properties"""
    def __init__(self, cls, attrs=None):
        self.cls, self.attrs = cls, dict(attrs or {})

    def method(self, name):
        for c in self.cls.children:
            if c.kind == "function" and c.name == name:
                return c
        return None

    def __repr__(self):
        return f"<{self.cls.name} object>"


class CondArr:
    """array of conditions (python bools / SBool): the value of an element-wise comparison of arrays"""
    def __init__(self, data, shape):
        self.data, self.shape = list(data), tuple(shape)

    @property
    def ndim(self):
        return len(self.shape)

    def map(self, f):
        return CondArr([f(x) for x in self.data], self.shape)

    def as_arr(self):
        """the same container with 0/1 placeholders (for index arithmetic only)"""
        return Arr([Dual(i) for i in range(len(self.data))], self.shape)

    def __repr__(self):
        return f"conds{self.shape}"


class IdxSel:
    """an integer index that is only known symbolically: cases [(condition, integer)], mutually exclusive and exhaustive"""
    def __init__(self, cases):
        self.cases = list(cases)

    def __repr__(self):
        return "index{" + ", ".join(f"{c!r}: {k}" for c, k in self.cases) + "}"


def broadcast_shape(s1, s2):
    out = []
    for k in range(1, max(len(s1), len(s2)) + 1):
        a = s1[-k] if k <= len(s1) else 1
        b = s2[-k] if k <= len(s2) else 1
        if a != b and a != 1 and b != 1:
            raise EvalError(f"shape mismatch {tuple(s1)} vs {tuple(s2)}")
        out.append(max(a, b))
    return tuple(reversed(out))


def broadcast_data(data, shape, target):
    """the entries of an array of shape `shape` broadcast to `target` (numpy rules), in C order"""
    shape, target = tuple(shape), tuple(target)
    if shape == target:
        return list(data)
    if len(shape) > len(target):
        raise EvalError(f"cannot broadcast {shape} to {target}")
    pad = (1,) * (len(target) - len(shape)) + shape
    if any(d != t and d != 1 for d, t in zip(pad, target)):
        raise EvalError(f"cannot broadcast {shape} to {target}")
    strides, st = [], 1
    for d in reversed(pad):
        strides.append(st)
        st *= d
    strides = list(reversed(strides))
    out = []
    for ix in itertools.product(*[range(d) for d in target]):
        off = 0
        for i, d, stv in zip(ix, pad, strides):
            if d != 1:
                off += i * stv
        out.append(data[off])
    return out


def is_callable_value(v):
    return isinstance(v, (Closure, PyFunc, Ext, Vmapped, Deriv, VmapAxes)) or (isinstance(v, tuple) and len(v) == 3 and v[0] == "method") \
        or (isinstance(v, Obj) and v.method("__call__") is not None)


def callable_scope(f):
    """the repository scope whose code a callable value finally runs (through partial / vmap / derivative wrappers), or None"""
    for _ in range(8):
        if isinstance(f, Closure):
            return f.scope
        if isinstance(f, Partial):
            f = f.inner
        elif isinstance(f, (Vmapped, VmapAxes, Deriv)):
            f = f.fn
        else:
            return None
    return None


def proportional(p: Poly, q: Poly):
    """mu with p == mu * q (q non-zero), else None"""
    if q.is_zero() or p.is_zero() or set(p.t) != set(q.t):
        return None
    m = next(iter(q.t))
    mu = p.t[m] / q.t[m]
    return mu if all(p.t[k] == mu * q.t[k] for k in q.t) else None


def _split_in(p: Poly, atom):
    """{exponent of atom: Poly in the other atoms}"""
    out = {}
    for m, c in p.t.items():
        e = 0
        rest = m
        for i, (k, x) in enumerate(m):
            if k == atom:
                e = x
                rest = m[:i] + m[i + 1:]
                break
        out.setdefault(e, {})[rest] = c
    return {e: Poly(t) for e, t in out.items()}


def subst(r: Rat, atom, val: Rat) -> Rat:
    """r with `atom` replaced by `val` (one Rat product per distinct exponent instead of one per monomial)"""
    def one(p):
        if atom not in p.atoms():
            return Rat(p)
        parts = _split_in(p, atom)
        if any(e < 0 for e in parts):
            return p.subst(atom, val)
        res = Rat(Poly())
        pw, cur = {}, Rat(Poly.const(1))
        for e in range(max(parts) + 1):
            pw[e] = cur
            cur = cur * val
        for e, c in parts.items():
            res = res + Rat(c) * pw[e]
        return res
    return _A.norm(one(r.n) / one(r.d))


def _size(r: Rat):
    return len(r.n.t) + len(r.d.t)


def _lead(p: Poly):
    m = min(p.t)
    return p.t[m]


# ------------------------------------------------------------------------------------------------ the interpreter

class SymInterp(Interp):
    LET_LIMIT = 10

    def __init__(self, repo, inputs=(), positive=(), abstract=False):
        super().__init__(repo, positive=positive)
        self.tolerant = True
        self.inputs = set(inputs)      # atoms that are free inputs (never abstracted, "pure" part of a value)
        self.abstract = abstract
        self.hyp = {}                  # key of an atomic condition -> bool
        self.generic = set()           # atoms that stand for distinct generic numbers: a non-zero polynomial in them is != 0
        self.sel, self._sel_key = {}, {}
        self.fn, self._fn_key = {}, {}
        self.let, self._let_key = {}, {}
        self.cmp_log = []              # (SBool, left Rat, op name, right Rat, statement) of every comparison that stayed symbolic
        self.sel_log = []              # conditions of selects that stayed unresolved
        self.values = {}               # canonical text -> Rat: every scalar bound to a local somewhere in the interpreted code
        self.bound_names = {}          # canonical text -> name of a local it was bound to (for messages only)
        self.bound_nodes = {}          # canonical text -> statement that bound it (for locations only)
        self.vectors = {}              # canonical text -> (name, Arr, statement): every numeric vector of three scalars bound to a local
        self.atom_nodes = {}           # registered atom -> statement being interpreted when it was created (for locations only)
        self._cur = None
        self.stack = []                # qualified names of the repository functions being interpreted (innermost last)
        self.call_hook = None          # callable(interp, closure, args, kwargs) invoked at every call of a repository function
        self.max_loop = 200            # bound on the iterations of an interpreted python `while`
        self.registrations = []        # (decorated function value, rule value) of every interpreted `f.defjvp(rule)`
        self._install()

    # ---- registries
    def _atom(self, table, keytable, key, payload, stem):
        nm = keytable.get(key)
        if nm is None:
            nm = f"{stem}#{len(table) + 1}"
            keytable[key] = nm
            table[nm] = payload
            self.atom_nodes[nm] = self._cur
        return nm

    @staticmethod
    def _vkey(v):
        if isinstance(v, Dual):
            return repr(v.a) if rat_is_zero(v.b) else repr(v)
        if isinstance(v, Rat):
            return repr(v)
        if isinstance(v, Arr):
            return "arr" + repr(v.shape) + "[" + ",".join(SymInterp._vkey(x) for x in v.data) + "]"
        if isinstance(v, (tuple, list)):
            return "(" + ",".join(SymInterp._vkey(x) for x in v) + ")"
        return repr(v)

    def fn_atom(self, name, args) -> Dual:
        """opaque application name(args); args: Duals / Arrs / constants"""
        key = name + "(" + ",".join(self._vkey(a) for a in args) + ")"
        nm = self._atom(self.fn, self._fn_key, key, (name, tuple(args)), name)
        return Dual(_A.atom(nm))

    def let_atom(self, r: Rat) -> Rat:
        key = repr(r)
        nm = self._atom(self.let, self._let_key, key, r, "let")
        return _A.atom(nm)

    # ---- conditions
    def _cmp_atom(self, kind, d: Rat):
        d = simplify(_A.norm(d))
        if d.d.is_const() and not d.n.is_zero():
            c = _lead(d.n) / d.d.const_value()
            s = abs(c) if kind == "lt" else c
            d = Rat(Poly({m: v / d.d.const_value() / s for m, v in d.n.t.items()}))
        elif kind == "eq":
            n = d.n
            c = _lead(n)
            d = Rat(Poly({m: v / c for m, v in n.t.items()}))
        return SBool(kind, (d,), f"{kind}[{d!r}]")

    def cond_lt(self, a: Rat, b: Rat):
        """a < b"""
        return self._cmp_atom("lt", a - b)

    def resolve(self, c):
        """truth value of a condition under the hypotheses: True / False / None"""
        if isinstance(c, bool):
            return c
        if not isinstance(c, SBool):
            return None
        if c.kind in ("lt", "eq", "pred"):
            r = self.hyp.get(c.key)
            if r is None and c.kind == "eq" and self.generic and c.args[0].atoms() and c.args[0].atoms() <= self.generic \
                    and not c.args[0].n.is_zero():
                return False
            return r
        if c.kind == "not":
            r = self.resolve(c.args[0])
            return None if r is None else (not r)
        rs = [self.resolve(a) for a in c.args]
        if c.kind == "and":
            if any(r is False for r in rs):
                return False
            return True if all(r is True for r in rs) else None
        if any(r is True for r in rs):
            return True
        return False if all(r is False for r in rs) else None

    def assume(self, c, value=True):
        """add the hypothesis that condition c (an atom or a negated atom) has the given truth value"""
        if isinstance(c, SBool) and c.kind == "not":
            return self.assume(c.args[0], not value)
        if not isinstance(c, SBool) or c.kind not in ("lt", "eq", "pred"):
            raise EvalError("only atomic conditions can be assumed")
        self.hyp[c.key] = value

    def compare(self, a, op, b):
        if isinstance(op, (ast.In, ast.NotIn, ast.Is, ast.IsNot)):
            return super().compare(a, op, b)
        simple = (str, type(None), bool)
        if isinstance(a, simple) or isinstance(b, simple):
            return super().compare(a, op, b)
        if isinstance(a, SBool) or isinstance(b, SBool):
            raise EvalError("comparison of conditions")
        plain = lambda t: isinstance(t, (tuple, list)) and all(isinstance(x, (int, str)) and not isinstance(x, bool) for x in t)
        if plain(a) and plain(b) and isinstance(op, (ast.Eq, ast.NotEq)):      # shapes
            return (tuple(a) == tuple(b)) == isinstance(op, ast.Eq)
        if isinstance(a, IdxSel) or isinstance(b, IdxSel):
            if not isinstance(op, (ast.Eq, ast.NotEq)):
                raise EvalError("ordering of a symbolic index")
            sel_, other = (a, b) if isinstance(a, IdxSel) else (b, a)
            k = self.as_int(other)
            c = b_or([cc for cc, kk in sel_.cases if kk == k])
            return c if isinstance(op, ast.Eq) else b_not(c)
        a, b = self.num(a), self.num(b)
        if isinstance(a, Arr) or isinstance(b, Arr):
            # element-wise comparison (numpy broadcasting): an array of conditions
            sa, sb = (a.shape if isinstance(a, Arr) else ()), (b.shape if isinstance(b, Arr) else ())
            shp = broadcast_shape(sa, sb)
            xs = broadcast_data(a.data if isinstance(a, Arr) else [a], sa, shp)
            ys = broadcast_data(b.data if isinstance(b, Arr) else [b], sb, shp)
            return CondArr([self.compare(x, op, y) for x, y in zip(xs, ys)], shp)
        d = _A.norm(a.a - b.a)
        s = self.sign_of(d)
        decided = None
        if s in ("pos", "neg", "zero"):
            v = {"pos": 1, "neg": -1, "zero": 0}[s]
            decided = {ast.Lt: v < 0, ast.LtE: v <= 0, ast.Gt: v > 0, ast.GtE: v >= 0, ast.Eq: v == 0, ast.NotEq: v != 0}[type(op)]
        elif s == "nonneg":        # d >= 0, possibly 0 (a square root of a quantity that may vanish)
            decided = {ast.Lt: False, ast.GtE: True}.get(type(op))
        elif s == "nonpos":
            decided = {ast.Gt: False, ast.LtE: True}.get(type(op))
        if decided is not None:
            return decided
        if isinstance(op, ast.Lt):
            c = self._cmp_atom("lt", d)
        elif isinstance(op, ast.Gt):
            c = self._cmp_atom("lt", -d)
        elif isinstance(op, ast.LtE):          # a <= b  ==  not (b < a)
            c = b_not(self._cmp_atom("lt", -d))
        elif isinstance(op, ast.GtE):
            c = b_not(self._cmp_atom("lt", d))
        elif isinstance(op, ast.Eq):
            c = self._cmp_atom("eq", d)
        elif isinstance(op, ast.NotEq):
            c = b_not(self._cmp_atom("eq", d))
        else:
            raise EvalError("comparison operator")
        self.cmp_log.append((c, a.a, type(op).__name__, b.a, self._cur))
        r = self.resolve(c)
        return c if r is None else r

    def _strict(self, atom, depth=0):
        """the atom denotes a strictly positive number (a positive symbol, or the square root of a strictly positive quantity)"""
        if atom in self.positive:
            return True
        if atom in _A.rules and depth < 6:
            return self._poly_sign(_A.rules[atom], depth + 1) == "pos"
        return False

    def _poly_sign(self, p: Poly, depth=0):
        if p.is_zero():
            return "zero"
        for a in p.atoms():
            if not (a in self.positive or a in _A.rules or (a in self.fn and self.fn[a][0] in ("abs", "norm_inf"))):
                return None
        cs = list(p.t.values())
        if not (all(c > 0 for c in cs) or all(c < 0 for c in cs)):
            return None
        strict = any(all(self._strict(k, depth) for k, _ in m) for m in p.t)
        if cs[0] > 0:
            return "pos" if strict else "nonneg"
        return "neg" if strict else "nonpos"

    def sign_of(self, r: Rat):
        """'pos' / 'neg' / 'zero' / 'nonneg' / 'nonpos' / None.  Square roots, absolute values and norms are non-negative; they are strictly
        positive only when their argument provably is."""
        r = _A.norm(r)
        sn, sd = self._poly_sign(r.n), self._poly_sign(r.d)
        if sn is None or sd is None or sd == "zero":
            return None
        if sn == "zero":
            return "zero"
        flip = sd in ("neg", "nonpos")
        weak = sn in ("nonneg", "nonpos")
        up = sn in ("pos", "nonneg")
        if flip:
            up = not up
        return ("nonneg" if up else "nonpos") if weak else ("pos" if up else "neg")

    def truth(self, v):
        if isinstance(v, SBool):
            r = self.resolve(v)
            if r is None:
                raise EvalError(f"branch on the symbolic condition {v.key[:80]}")
            return r
        return super().truth(v)

    # ---- expressions
    def e_BinOp(self, e, env):
        a, b = self.eval(e.left, env), self.eval(e.right, env)
        return self.binop(e.op, a, b, env)

    def binop(self, op, a, b, env):
        if isinstance(op, ast.Mod) and isinstance(a, int) and isinstance(b, int) and not isinstance(a, bool) and not isinstance(b, bool) and b != 0:
            return a % b
        if isinstance(op, ast.Pow) and (isinstance(a, (Dual, Arr)) or isinstance(b, Dual)) and not isinstance(a, (bool, SBool)) and not isinstance(b, (bool, SBool, Arr)):
            return self.np_call("power", [a, b], {})          # x**0.5 is sqrt(x); a symbolic exponent gives the same opaque power as np.power
        if isinstance(op, (ast.FloorDiv, ast.Mod)) and (isinstance(a, (Dual, Arr)) or isinstance(b, (Dual, Arr))) \
                and not isinstance(a, (bool, SBool, str)) and not isinstance(b, (bool, SBool)):
            # floor division / remainder of real numbers: a // b = floor(a / b), a % b = a - b * floor(a / b) (python and numpy agree)
            return self.np_call("floor_divide" if isinstance(op, ast.FloorDiv) else "mod", [a, b], {})
        if isinstance(op, (ast.BitAnd, ast.BitOr, ast.BitXor)) and (isinstance(a, SBool) or isinstance(b, SBool)):
            if not all(isinstance(x, (bool, SBool)) for x in (a, b)):
                raise EvalError("bit operation on a condition and a number")
            if isinstance(op, ast.BitAnd):
                return b_and([a, b])
            if isinstance(op, ast.BitOr):
                return b_or([a, b])
            return b_or([b_and([a, b_not(b)]), b_and([b_not(a), b])])
        if isinstance(op, (ast.BitAnd, ast.BitOr, ast.BitXor)) and (isinstance(a, CondArr) or isinstance(b, CondArr)):
            a, b = self.cond_array(a), self.cond_array(b)
            shp = broadcast_shape(a.shape, b.shape)
            xs, ys = broadcast_data(a.data, a.shape, shp), broadcast_data(b.data, b.shape, shp)
            f = {ast.BitAnd: lambda x, y: b_and([x, y]), ast.BitOr: lambda x, y: b_or([x, y]),
                 ast.BitXor: lambda x, y: b_or([b_and([x, b_not(y)]), b_and([b_not(x), y])])}[type(op)]
            return CondArr([f(x, y) for x, y in zip(xs, ys)], shp)
        if isinstance(a, Arr) and isinstance(b, Arr) and a.shape != b.shape and not isinstance(op, ast.MatMult) and a.size() != 1 and b.size() != 1:
            try:
                a, b = self._broadcast(a, b)
            except EvalError:
                shp = broadcast_shape(a.shape, b.shape)
                a, b = Arr(broadcast_data(a.data, a.shape, shp), shp), Arr(broadcast_data(b.data, b.shape, shp), shp)
        env2 = Env(env.scope, env)
        env2.vars["__l"], env2.vars["__r"] = a, b
        return Interp.e_BinOp(self, ast.BinOp(left=ast.Name(id="__l", ctx=ast.Load()), op=op, right=ast.Name(id="__r", ctx=ast.Load())), env2)

    @staticmethod
    def _broadcast(a: Arr, b: Arr):
        """numpy broadcasting of a matrix with a vector along the last axis / with a column (n, 1) / row (1, n)"""
        def expand_to(v, shape):
            r, c = shape
            if v.shape == (c,) or v.shape == (1, c):
                return Arr([v.data[j] for i in range(r) for j in range(c)], shape)
            if v.shape == (r, 1):
                return Arr([v.data[i] for i in range(r) for j in range(c)], shape)
            return None
        if a.ndim == 2 and b.ndim <= 2:
            nb = expand_to(b, a.shape)
            if nb is not None:
                return a, nb
        if b.ndim == 2 and a.ndim <= 2:
            na = expand_to(a, b.shape)
            if na is not None:
                return na, b
        raise EvalError(f"shape mismatch {a.shape} vs {b.shape}")

    def e_Call(self, e, env):
        return super().e_Call(e, env)

    # ---- python containers: starred displays, iteration over records / arrays / sorted arrays
    def iterate(self, v):
        """the items a python `for` would see"""
        if isinstance(v, Arr):
            if v.ndim == 0:
                raise EvalError("iteration over a 0-d array")
            return [v.index(i) for i in range(v.shape[0])]
        if isinstance(v, Record):
            return list(v.values)
        if isinstance(v, CondArr):
            if v.ndim == 0:
                raise EvalError("iteration over a 0-d array")
            return [self.getitem(v, i) for i in range(v.shape[0])]
        if isinstance(v, Gather):
            return self.gather_items(v)
        if isinstance(v, Perm):
            return [PermElem(v, k) for k in range(v.base.shape[0])]
        if isinstance(v, (tuple, list)):
            if len(v) == 3 and v and v[0] == "method":
                raise EvalError("iteration over a bound method")
            return list(v)
        if isinstance(v, dict):
            return list(v.keys())
        if isinstance(v, str):
            return list(v)
        raise EvalError(f"iteration over {v!r}")

    def _display(self, elts, env):
        out = []
        for x in elts:
            if isinstance(x, ast.Starred):
                out += self.iterate(self.eval(x.value, env))
            else:
                out.append(self.eval(x, env))
        return out

    def e_Tuple(self, e, env):
        return tuple(self._display(e.elts, env))

    def e_List(self, e, env):
        return self._display(e.elts, env)

    def e_Dict(self, e, env):
        out = {}
        for k, v in zip(e.keys, e.values):
            if k is None:
                d = self.eval(v, env)
                if not isinstance(d, dict):
                    raise EvalError("** of a value that is not a dictionary")
                out.update(d)
            else:
                out[self.eval(k, env)] = self.eval(v, env)
        return out

    def e_NamedExpr(self, e, env):
        v = self.eval(e.value, env)
        self.assign(e.target, v, env)
        return v

    def _comp(self, e, env, make):
        out = []

        def rec(k, env_k):
            if k == len(e.generators):
                out.append(make(env_k))
                return
            g = e.generators[k]
            for x in self.iterate(self.eval(g.iter, env_k)):
                e2 = Env(env_k.scope, env_k)
                self.assign(g.target, x, e2)
                if all(self.truth(self.eval(c, e2)) for c in g.ifs):
                    rec(k + 1, e2)
        rec(0, env)
        return out

    def e_UnaryOp(self, e, env):
        if isinstance(e.op, (ast.Invert, ast.Not)):
            v = self.eval(e.operand, env)
            if isinstance(v, SBool):
                r = self.resolve(v)
                return b_not(v) if r is None else (not r)
            if isinstance(v, bool):
                return not v
            if isinstance(e.op, ast.Invert) and (isinstance(v, CondArr) or (isinstance(v, Arr) and v.isbool)
                                                 or (isinstance(v, tuple) and v and all(isinstance(x, (bool, SBool)) for x in v))):
                return self.cond_array(v).map(b_not)
            if isinstance(e.op, ast.Not):
                return not self.truth(v)
            raise EvalError("unary ~ of a number")
        return super().e_UnaryOp(e, env)

    def e_BoolOp(self, e, env):
        vals = [self.eval(v, env) for v in e.values]
        if any(isinstance(v, SBool) for v in vals):
            vals = [v if isinstance(v, (bool, SBool)) else self.truth(v) for v in vals]
            return b_and(vals) if isinstance(e.op, ast.And) else b_or(vals)
        if isinstance(e.op, ast.And):
            return all(self.truth(v) for v in vals)
        return any(self.truth(v) for v in vals)

    def e_IfExp(self, e, env):
        c = self.eval(e.test, env)
        if isinstance(c, SBool) and self.resolve(c) is None:
            return self.select(c, self.eval(e.body, env), self.eval(e.orelse, env))
        return self.eval(e.body if self.truth(c) else e.orelse, env)

    def e_Attribute(self, e, env):
        return self.attr_of(self.eval(e.value, env), e.attr, env)

    def attr_of(self, base, attr, env):
        e = ast.Attribute(value=None, attr=attr, ctx=ast.Load())
        if isinstance(base, Record):
            if attr in ("_replace", "_asdict"):
                return ("method", base, attr)
            if attr == "_fields":
                return tuple(base.fields)
        if isinstance(base, Obj):
            if attr in base.attrs:
                return base.attrs[attr]
            m_ = base.method(attr)
            if m_ is not None:
                decos = [ast.unparse(d) for d in m_.node.decorator_list]
                cl = Closure(m_, self.module_env(m_.module))
                if "property" in decos or any(d.endswith("cached_property") for d in decos):
                    return self.call_closure(cl, [base], {})
                if "staticmethod" in decos:
                    return cl
                return PyFunc(f"{base.cls.name}.{attr}", lambda it, a, k, cl=cl, base=base: it.call_closure(cl, [base] + list(a), k))
            for st in base.cls.node.body:          # class level constants
                if isinstance(st, ast.Assign) and any(isinstance(t, ast.Name) and t.id == attr for t in st.targets):
                    return self.eval(st.value, self.module_env(base.cls.module))
            raise EvalError(f"attribute {attr} of {base!r}")
        if isinstance(base, Closure) and attr == "defjvp":
            # f.defjvp(rule) / @f.defjvp: the registration is recorded, the rule is returned (as jax does)
            return PyFunc("defjvp", lambda it, a, k, base=base: (it.registrations.append((base, a[0] if a else None)), a[0] if a else None)[1])
        if isinstance(base, Partial) and attr in ("func", "args", "keywords"):
            return {"func": base.inner, "args": tuple(base.args), "keywords": dict(base.kwargs)}[attr]
        if isinstance(base, dict) and attr in ("values", "copy", "update", "setdefault", "pop"):
            return ("method", base, attr)
        if isinstance(base, (tuple, list)) and attr in ("index", "count") and not (len(base) == 3 and base[0] == "method"):
            return ("method", base, attr)
        if isinstance(base, Arr) and attr == "ndim":
            return base.ndim
        if isinstance(base, Arr) and attr in ("astype", "squeeze", "conj", "conjugate", "prod", "mean", "diagonal", "trace", "tolist", "item"):
            return ("method", base, attr)
        if isinstance(base, (Dual, int, float, Fraction)) and not isinstance(base, bool) and attr in ("astype", "item", "real", "conj"):
            return ("method", base, attr) if attr != "real" else base
        if isinstance(base, Gather) and e.attr == "T":
            return base.T()
        if isinstance(base, Gather) and e.attr == "shape":
            return base.shape
        if isinstance(base, Arr) and e.attr in ("max", "min", "sum", "all", "any", "transpose", "argsort", "flatten", "copy"):
            return ("method", base, e.attr)
        if isinstance(base, list) and e.attr in ("append", "extend"):
            return ("method", base, e.attr)
        if isinstance(base, (tuple, list)) and e.attr in ("all", "any") and base and all(isinstance(x, (bool, SBool)) for x in base):
            return ("method", tuple(base), e.attr)
        env2 = Env(env.scope, env)
        env2.vars["__b"] = base
        return Interp.e_Attribute(self, ast.Attribute(value=ast.Name(id="__b", ctx=ast.Load()), attr=e.attr, ctx=ast.Load()), env2)

    def call_method(self, base, name, args, kwargs):
        if isinstance(base, Record) and name == "_replace" and not args:
            vals = list(base.values)
            for k, v in kwargs.items():
                if k not in base.fields:
                    raise EvalError(f"_replace of an unknown field {k}")
                vals[base.fields.index(k)] = v
            return Record(base.tname, base.fields, vals, cls=base.cls)
        if isinstance(base, Record) and name == "_asdict" and not args:
            return dict(zip(base.fields, base.values))
        if isinstance(base, dict):
            if name == "values" and not args:
                return list(base.values())
            if name == "copy" and not args:
                return dict(base)
            if name == "update":
                for a in args:
                    base.update(a if isinstance(a, dict) else dict(a))
                base.update(kwargs)
                return None
            if name == "setdefault" and 1 <= len(args) <= 2:
                return base.setdefault(args[0], args[1] if len(args) > 1 else None)
            if name == "pop" and 1 <= len(args) <= 2:
                if args[0] in base:
                    return base.pop(args[0])
                if len(args) > 1:
                    return args[1]
                raise EvalError(f"missing key {args[0]!r}")
        if isinstance(base, (tuple, list)) and name in ("index", "count") and len(args) == 1 and isinstance(args[0], (int, str, bool, type(None))):
            items = [x for x in base]
            if any(not isinstance(x, (int, str, bool, type(None))) for x in items):
                raise EvalError(f"{name} in a sequence of symbolic values")
            return items.index(args[0]) if name == "index" else items.count(args[0])
        if isinstance(base, (Dual, int, float, Fraction)) and name in ("astype", "item", "conj"):
            return base
        if isinstance(base, Arr):
            if name in ("astype", "conj", "conjugate"):
                return base
            if name == "squeeze" and not args and not kwargs:
                shp = tuple(d for d in base.shape if d != 1)
                return base.data[0] if not shp else base.reshape(shp)
            if name in ("prod", "mean", "trace", "diagonal") and not args and not kwargs:
                if name == "trace":
                    return self.np_call("trace", [base], {})
                if name == "diagonal" and base.ndim == 2:
                    k = min(base.shape)
                    return Arr([base.data[i * base.shape[1] + i] for i in range(k)], (k,))
                if name == "prod":
                    out = Dual(1)
                    for x in base.data:
                        out = out * x
                    return out
                if name == "mean":
                    return sum_d(base.data) / Dual(len(base.data))
            if name == "item" and base.size() == 1:
                return base.data[0]
            if name == "tolist" and base.ndim == 1:
                return list(base.data)
        if isinstance(base, tuple) and name in ("all", "any") and not args:
            return b_and(list(base)) if name == "all" else b_or(list(base))
        if isinstance(base, list) and name == "append" and len(args) == 1:
            base.append(args[0])
            return None
        if isinstance(base, list) and name == "extend" and len(args) == 1:
            base.extend(list(args[0]))
            return None
        if isinstance(base, Arr) and name in ("max", "min", "sum"):
            return self.np_call(name, [base] + list(args), kwargs)
        if isinstance(base, Arr) and name == "transpose" and not args:
            return base.T()
        if isinstance(base, Arr) and name == "argsort" and not args and not kwargs:
            return self.np_call("argsort", [base], {})
        if isinstance(base, Arr) and name == "flatten" and not args:
            return base.ravel()
        if isinstance(base, Arr) and name == "copy" and not args:
            return base
        return super().call_method(base, name, args, kwargs)

    @staticmethod
    def _is_newaxis(k):
        return k is None or (isinstance(k, Ext) and k.name.split(".")[-1] == "newaxis")

    def getitem(self, base, key):
        if isinstance(key, Perm):
            key = (key,)
        if isinstance(base, Arr) and (self._is_newaxis(key) or (isinstance(key, tuple) and any(self._is_newaxis(k) for k in key))):
            # x[None, :], x[:, None], x[..., None]: index without the new axes, then insert axes of length one
            ks = list(key) if isinstance(key, tuple) else [key]
            if any(k is Ellipsis for k in ks):
                i = [j for j, k in enumerate(ks) if k is Ellipsis][0]
                fill = base.ndim - sum(1 for k in ks if not self._is_newaxis(k) and k is not Ellipsis)
                ks = ks[:i] + [slice(None)] * fill + ks[i + 1:]
            plain = [k for k in ks if not self._is_newaxis(k)]
            sub = self.getitem(base, tuple(plain)) if plain else base
            sub = self.num(sub)
            shape, it_ = [], iter(sub.shape if isinstance(sub, Arr) else ())
            for k in ks:
                if self._is_newaxis(k):
                    shape.append(1)
                elif isinstance(k, slice):
                    shape.append(next(it_))
            shape += list(it_)
            data = sub.data if isinstance(sub, Arr) else [sub]
            return Arr(list(data), tuple(shape))
        if isinstance(key, tuple) and any(isinstance(k, Perm) for k in key):
            if not isinstance(base, Arr):
                raise EvalError("permutation index on a non-array")
            pos = [i for i, k in enumerate(key) if isinstance(k, Perm)]
            rest = [k for i, k in enumerate(key) if i not in pos]
            if len(pos) != 1 or any(not (isinstance(k, slice) and k == slice(None)) for k in rest) or pos[0] >= base.ndim:
                raise EvalError("unsupported permutation index")
            if base.shape[pos[0]] != key[pos[0]].base.shape[0]:
                raise EvalError("permutation length")
            return Gather(base, key[pos[0]], pos[0])
        if isinstance(base, CondArr):
            pos = base.as_arr().index(self._norm_key(key))
            if isinstance(pos, Arr):
                return CondArr([base.data[self.as_int(x)] for x in pos.data], pos.shape)
            return base.data[self.as_int(pos)]
        if isinstance(key, IdxSel) or (isinstance(key, tuple) and any(isinstance(k, IdxSel) for k in key)):
            if isinstance(key, IdxSel):
                return self.index_select(key, self.iterate(base))
            pos = [i for i, k in enumerate(key) if isinstance(k, IdxSel)]
            if len(pos) != 1 or not isinstance(base, Arr):
                raise EvalError("unsupported symbolic index")
            i = pos[0]
            items = [self.getitem(base, tuple(key[:i]) + (k,) + tuple(key[i + 1:])) for k in range(base.shape[i])]
            return self.index_select(key[i], items)
        if isinstance(base, Perm):
            if isinstance(key, (int, Dual, Fraction)) and not isinstance(key, bool):
                k = self.as_int(key)
                n = base.base.shape[0]
                if not -n <= k < n:
                    raise EvalError("index out of range")
                return PermElem(base, k % n)
            raise EvalError("slice of a sorting permutation")
        if isinstance(base, Gather):
            # one entry of a symbolically sorted array: a nested selection on the order of the keys
            n = base.perm.base.shape[0]
            if isinstance(key, (int, Dual, Fraction)) and not isinstance(key, bool) and base.axis == 0:
                return self.gather_items(base)[self.as_int(key)]
            if isinstance(key, tuple) and len(key) == 2 and base.arr.ndim == 2 and isinstance(key[base.axis], (int, Dual, Fraction)) \
                    and isinstance(key[1 - base.axis], slice) and key[1 - base.axis] == slice(None):
                items = self.gather_items(base if base.axis == 0 else base.T())
                return items[self.as_int(key[base.axis])]
            raise EvalError("element of a symbolically sorted array")
        if isinstance(key, PermElem) or (isinstance(key, tuple) and any(isinstance(k, PermElem) for k in key)):
            if not isinstance(base, (Arr, tuple, list)):
                raise EvalError("symbolic index into a non-sequence")
            if isinstance(key, PermElem):
                items = self.iterate(base)
                if len(items) != key.perm.base.shape[0]:
                    raise EvalError("permutation length")
                return self.sorted_items(key.perm, items)[key.k]
            if isinstance(base, Arr) and base.ndim == 2 and len(key) == 2 and isinstance(key[1], PermElem) and isinstance(key[0], slice) and key[0] == slice(None):
                cols = self.iterate(base.T())
                return self.sorted_items(key[1].perm, cols)[key[1].k]
            raise EvalError("unsupported symbolic index")
        if isinstance(base, Arr) and isinstance(key, tuple) and any(isinstance(k, Arr) for k in key):
            # one constant integer array among full slices: take along that axis
            pos = [i for i, k in enumerate(key) if isinstance(k, Arr)]
            rest = [k for i, k in enumerate(key) if i not in pos]
            if len(pos) == 1 and all(isinstance(k, slice) and k == slice(None) for k in rest) and pos[0] < base.ndim and key[pos[0]].ndim == 1:
                ix = [self.as_int(x) for x in key[pos[0]].data]
                ax = pos[0]
                if base.ndim == 2:
                    rows = base if ax == 0 else base.T()
                    out = Arr([x for i in ix for x in rows.index(i).data], (len(ix), rows.shape[1]))
                    return out if ax == 0 else out.T()
        return super().getitem(base, key)

    def cond_array(self, v) -> CondArr:
        if isinstance(v, CondArr):
            return v
        if isinstance(v, (bool, SBool)):
            return CondArr([v], ())
        if isinstance(v, Arr):
            cs = [rat_const(x.a) if isinstance(x, Dual) else None for x in v.data]
            if all(c in (0, 1) for c in cs):
                return CondArr([c == 1 for c in cs], v.shape)
            raise EvalError("a numeric array used as an array of conditions")
        if isinstance(v, (tuple, list)) and all(isinstance(x, (bool, SBool)) for x in v):
            return CondArr(list(v), (len(v),))
        if isinstance(v, (tuple, list)):
            rows = [self.cond_array(x) for x in v]
            if rows and all(r.shape == rows[0].shape for r in rows):
                return CondArr([x for r in rows for x in r.data], (len(rows),) + rows[0].shape)
        raise EvalError(f"not an array of conditions: {v!r}")

    def where_array(self, c: CondArr, a, b):
        """np.where with an array of conditions: element-wise selection with numpy broadcasting"""
        a, b = self.num(a), self.num(b)
        sa, sb = (a.shape if isinstance(a, Arr) else ()), (b.shape if isinstance(b, Arr) else ())
        shp = broadcast_shape(broadcast_shape(c.shape, sa), sb)
        cs = broadcast_data(c.data, c.shape, shp)
        xs = broadcast_data(a.data if isinstance(a, Arr) else [a], sa, shp)
        ys = broadcast_data(b.data if isinstance(b, Arr) else [b], sb, shp)
        out = [self.select(cc, x, y) for cc, x, y in zip(cs, xs, ys)]
        return Arr(out, shp) if shp else out[0]

    def index_select(self, idx: IdxSel, items):
        """items[idx] for a symbolic index: nested selection over its cases"""
        cases = [(c, k) for c, k in idx.cases if c is not False]
        if not cases:
            raise EvalError("symbolic index without cases")
        for c, k in cases:
            if not -len(items) <= k < len(items):
                raise EvalError("index out of range")
        r = items[cases[-1][1]]
        for c, k in reversed(cases[:-1]):
            r = self.select(c, items[k], r)
        return r

    def arg_extreme(self, x: Arr, largest=True) -> IdxSel:
        """np.argmax / np.argmin of a vector: index of the FIRST extreme entry"""
        n = x.shape[0]
        if x.ndim != 1 or n > 4:
            raise EvalError("argmax / argmin of an array that is not a short vector")
        cases = []
        for i in range(n):
            cs = []
            for j in range(n):
                if j == i:
                    continue
                # i wins against j: strictly better than every earlier entry, at least as good as every later one
                lt = self.compare(x.data[j], ast.Lt(), x.data[i]) if largest else self.compare(x.data[i], ast.Lt(), x.data[j])
                ge = b_not(self.compare(x.data[i], ast.Lt(), x.data[j]) if largest else self.compare(x.data[j], ast.Lt(), x.data[i]))
                cs.append(lt if j < i else ge)
            cases.append((b_and(cs), i))
        return IdxSel(cases)

    def sorted_items(self, perm: Perm, items):
        """`items` taken in the ascending (stable) order of the keys perm.base, each as a nested selection on the comparisons of the keys"""
        n = len(items)
        keys = list(perm.base.data)
        if n != len(keys):
            raise EvalError("permutation length")
        if n == 1:
            return list(items)
        if n > 3:
            raise EvalError("element of a symbolically sorted array of more than three entries")
        orders = list(itertools.permutations(range(n)))
        conds = []
        for od in orders:
            cs = []
            for t in range(n - 1):
                i, j = od[t], od[t + 1]
                # i before j: key_i < key_j, or equal keys and i < j (argsort is stable)
                cs.append(b_not(self.compare(keys[j], ast.Lt(), keys[i])) if i < j else self.compare(keys[i], ast.Lt(), keys[j]))
            conds.append(b_and(cs))
        out = []
        for k in range(n):
            r = items[orders[-1][k]]
            for od, c in reversed(list(zip(orders[:-1], conds[:-1]))):
                r = self.select(c, items[od[k]], r)
            out.append(r)
        return out

    def gather_items(self, g: Gather):
        """the items along the first axis of a sorted array (axis 0 gathers only)"""
        if g.axis != 0:
            raise EvalError("iteration over an array sorted along another axis")
        return self.sorted_items(g.perm, self.iterate(g.arr))

    # ---- selects
    def select(self, c, a, b):
        if isinstance(c, SBool):
            r = self.resolve(c)
            if r is None:
                if c.kind == "not":
                    c, a, b = c.args[0], b, a
                self.sel_log.append(c)
                return self._sel(c, a, b)
            c = r
        return a if self.truth(c) else b

    def _sel(self, c, a, b):
        if isinstance(a, Record) and isinstance(b, Record) and list(a.fields) == list(b.fields):
            return Record(a.tname, a.fields, [self._sel(c, x, y) for x, y in zip(a.values, b.values)], cls=a.cls)
        if isinstance(a, Record) and isinstance(b, (tuple, list)) and len(b) == len(a.values):
            return Record(a.tname, a.fields, [self._sel(c, x, y) for x, y in zip(a.values, b)], cls=a.cls)
        if isinstance(b, Record) and isinstance(a, (tuple, list)) and len(a) == len(b.values):
            return Record(b.tname, b.fields, [self._sel(c, x, y) for x, y in zip(a, b.values)], cls=b.cls)
        if isinstance(a, dict) and isinstance(b, dict) and list(a) == list(b):
            return {k: self._sel(c, a[k], b[k]) for k in a}
        if isinstance(a, (tuple, list)) and isinstance(b, (tuple, list)) and len(a) == len(b):
            return tuple(self._sel(c, x, y) for x, y in zip(a, b))
        if isinstance(a, Arr) or isinstance(b, Arr):
            if not isinstance(a, Arr):
                a = b.map(lambda _x, a=a: Dual.of(self.num(a)))
            if not isinstance(b, Arr):
                b = a.map(lambda _x, b=b: Dual.of(self.num(b)))
            if a.shape != b.shape:
                raise EvalError("select of arrays of different shapes")
            return Arr([self._sel(c, x, y) for x, y in zip(a.data, b.data)], a.shape)
        if isinstance(a, (Unknown,)) or isinstance(b, (Unknown,)):
            raise EvalError("select of an unknown value")
        if isinstance(a, (bool, SBool)) and isinstance(b, (bool, SBool)):
            return b_or([b_and([c, a]), b_and([b_not(c), b])])
        if isinstance(a, (int, float, Fraction, Dual)) and isinstance(b, (int, float, Fraction, Dual)):
            a, b = Dual.of(self.num(a)), Dual.of(self.num(b))

            mm = self._as_minmax(c, a, b)
            if mm is not None:
                return mm

            def part(x, y):
                if _A.equal(x, y):
                    return x
                if rat_const(y) is None and _A.equal(x, -y):
                    # where(c, -z, z) is z * where(c, -1, 1): a selection of the sign, the same atom as an explicit sign factor
                    return _A.norm(y * part(Rat(Poly.const(Fraction(-1))), Rat(Poly.const(Fraction(1)))))
                key = f"{c.key}?{x!r}:{y!r}"
                return _A.atom(self._atom(self.sel, self._sel_key, key, (c, x, y), "sel"))
            return Dual(part(a.a, b.a), part(a.b, b.b))
        if a is b or (type(a) is type(b) and not isinstance(a, (Closure, PyFunc)) and a == b):
            return a
        raise EvalError(f"select between {a!r} and {b!r}")

    def _as_minmax(self, c, a: Dual, b: Dual):
        """where(x < y, x, y) is min(x, y); where(x < y, y, x) is max(x, y)"""
        if c.kind != "lt" or not rat_is_zero(a.b) or not rat_is_zero(b.b):
            return None
        d = c.args[0]
        for x, y, kind in ((a, b, "min"), (b, a, "max")):
            e = simplify(_A.norm(x.a - y.a))
            if e.n.is_zero() or not e.d.is_const() or not d.d.is_const():
                continue
            mu = proportional(e.n, d.n)
            if mu is not None and mu / e.d.const_value() * d.d.const_value() > 0:
                return self.s_minmax(kind, a, b)
        return None

    # ---- let abstraction and the record of named values
    def pure(self, r: Rat):
        return all(a in self.inputs for a in r.atoms())

    def note_value(self, name, v):
        if isinstance(v, Dual) and rat_is_zero(v.b):
            k = repr(v.a)
            if k not in self.values:
                self.values[k] = v.a
                self.bound_names[k] = name
                self.bound_nodes[k] = self._cur

    def abstract_value(self, v):
        if isinstance(v, Dual):
            if rat_is_zero(v.b) and not self.pure(v.a) and (_size(v.a) > self.LET_LIMIT or not v.a.d.is_const()):
                return Dual(self.let_atom(v.a))
            return v
        if isinstance(v, Arr) and not v.isbool:
            return Arr([self.abstract_value(x) for x in v.data], v.shape)
        if isinstance(v, tuple):
            return tuple(self.abstract_value(x) for x in v)
        return v

    def _bound(self, name, v):
        if isinstance(v, (int, float, Fraction)) and not isinstance(v, bool):
            return v
        if self.abstract:
            v = self.abstract_value(v)
        if isinstance(v, Dual):
            self.note_value(name, v)
        elif isinstance(v, Arr):
            for x in v.data:
                self.note_value(name, x)
            if v.shape == (3,) and not v.isbool and all(isinstance(x, Dual) and rat_is_zero(x.b) for x in v.data):
                self.vectors.setdefault(self._vkey(v), (name, v, self._cur))
            elif v.shape == (3, 3) and not v.isbool and all(isinstance(x, Dual) and rat_is_zero(x.b) for x in v.data):
                for i in range(3):
                    r = Arr(list(v.data[3 * i:3 * i + 3]), (3,))
                    self.vectors.setdefault(self._vkey(r), (f"{name}[{i}]", r, self._cur))
        return v

    def assign(self, t, v, env):
        if isinstance(t, ast.Name):
            v = self._bound(t.id, v)
        elif isinstance(t, (ast.Tuple, ast.List)):
            if not isinstance(v, (tuple, list)) or (len(v) == 3 and v[0] == "method"):
                v = self.iterate(v)           # unpacking an array iterates over its first axis; records, sorted arrays
            stars = [i for i, x in enumerate(t.elts) if isinstance(x, ast.Starred)]
            if stars:
                if len(stars) != 1 or len(v) < len(t.elts) - 1:
                    raise EvalError("unpack width")
                i = stars[0]
                tail = len(t.elts) - 1 - i
                vs = list(v)
                for a, b in zip(t.elts[:i], vs[:i]):
                    self.assign(a, b, env)
                self.assign(t.elts[i].value, vs[i:len(vs) - tail], env)
                for a, b in zip(t.elts[i + 1:], vs[len(vs) - tail:]):
                    self.assign(a, b, env)
                return
        elif isinstance(t, ast.Attribute):
            base = self.eval(t.value, env)
            if not isinstance(base, Obj):
                raise EvalError("store to an attribute")
            base.attrs[t.attr] = v
            return
        super().assign(t, v, env)

    def stmt(self, st, env):
        prev, self._cur = self._cur, st
        try:
            if isinstance(st, ast.For):
                for x in self.iterate(self.eval(st.iter, env)):
                    self.assign(st.target, x, env)
                    self.block(st.body, env)
                self.block(st.orelse, env)
            elif isinstance(st, ast.While):
                n = 0
                while self.truth(self.eval(st.test, env)):
                    n += 1
                    if n > self.max_loop:
                        raise EvalError("python while loop does not terminate within the interpretation bound")
                    self.block(st.body, env)
            elif isinstance(st, ast.AnnAssign):
                if st.value is not None:
                    self.assign(st.target, self.eval(st.value, env), env)
            elif isinstance(st, ast.If):
                c = self.eval(st.test, env)
                self.block(st.body if self.truth(c) else st.orelse, env)
            elif isinstance(st, ast.With):
                # context managers of the numerical code (named scopes, precision / debug contexts) do not change values
                for item in st.items:
                    if item.optional_vars is not None:
                        try:
                            self.assign(item.optional_vars, self.eval(item.context_expr, env), env)
                        except EvalError as ex:
                            for nme in ast.walk(item.optional_vars):
                                if isinstance(nme, ast.Name):
                                    env.vars[nme.id] = Unknown(str(ex))
                self.block(st.body, env)
            elif isinstance(st, ast.Try):
                self.block(st.body, env)
                self.block(st.orelse, env)
                self.block(st.finalbody, env)
            elif isinstance(st, (ast.Global, ast.Nonlocal)):
                raise EvalError("global / nonlocal rebinding")
            else:
                super().stmt(st, env)
        finally:
            self._cur = prev
        if isinstance(st, ast.AugAssign) and isinstance(st.target, ast.Name) and st.target.id in env.vars:
            env.vars[st.target.id] = self._bound(st.target.id, env.vars[st.target.id])

    def expand(self, r: Rat, depth=8, limit=4000) -> Rat:
        """substitute let atoms by their definitions (recursively)"""
        for _ in range(depth):
            todo = [a for a in r.atoms() if a in self.let]
            if not todo:
                break
            for a in todo:
                r = subst(r, a, self.let[a])
                if _size(r) > limit:
                    raise EvalError("expansion too large")
        return simplify(_A.norm(r))

    def specialise(self, r: Rat, pt, cache=None, depth=12, piecewise=False) -> Rat:
        """the value in the situation of the numeric point `pt`: every select atom is replaced by the branch its condition picks there;
        with `piecewise` also min / max / |.| / sign of scalars are replaced by the piece that is active at the point"""
        cache = {} if cache is None else cache
        pw = ("min", "max", "abs", "sign") if piecewise else ()
        for _ in range(depth):
            todo = [a for a in r.atoms() if a in self.sel or (a in self.fn and self.fn[a][0] in pw and all(isinstance(v, Dual) for v in self.fn[a][1]))]
            if not todo:
                break
            for a in todo:
                if a in self.sel:
                    c, x, y = self.sel[a]
                    r = subst(r, a, x if self.numeric_cond(c, pt, cache) else y)
                    continue
                name, args = self.fn[a]
                nums = [self.numeric(v.a, pt, cache) for v in args]
                if any(v != v for v in nums):
                    raise EvalError("not evaluable at the sample point")
                if name in ("min", "max"):
                    k = nums.index(min(nums) if name == "min" else max(nums))
                    r = subst(r, a, args[k].a)
                elif name == "abs":
                    r = subst(r, a, args[0].a if nums[0] >= 0 else -args[0].a)
                else:
                    r = subst(r, a, Rat(Poly.const(Fraction((nums[0] > 0) - (nums[0] < 0)))))
        return simplify(_A.norm(r))

    # ---- dependencies between registered atoms
    def atom_parts(self, a):
        """the values an atom is made of"""
        if a in self.let:
            return [self.let[a]]
        if a in self.sel:
            c, x, y = self.sel[a]
            return [x, y] + [t.args[0] for t in c.atoms() if t.kind in ("lt", "eq")]
        if a in self.fn:
            out = []
            for v in self.fn[a][1]:
                if isinstance(v, Dual):
                    out.append(v.a)
                elif isinstance(v, Arr):
                    out += [x.a for x in v.data]
            return out
        if a in _A.rules:
            return [Rat(_A.rules[a])]
        return []

    def reach(self, rats, through_conditions=True):
        """(atoms, values) reachable from the given values through the registries"""
        atoms, vals, work = set(), [], list(rats)
        while work:
            r = work.pop()
            vals.append(r)
            for a in r.atoms():
                if a in atoms:
                    continue
                atoms.add(a)
                if a in self.sel and not through_conditions:
                    work += list(self.sel[a][1:])
                else:
                    work += self.atom_parts(a)
        return atoms, vals

    # ---- numeric evaluation of registered formulas
    def numeric(self, r, pt, cache=None):
        cache = {} if cache is None else cache
        if isinstance(r, Dual):
            r = r.a

        def av(a):
            if a in cache:
                return cache[a]
            if a in pt:
                v = float(pt[a])
            elif a in self.let:
                v = self.numeric(self.let[a], pt, cache)
            elif a in self.sel:
                c, x, y = self.sel[a]
                v = self.numeric(x if self.numeric_cond(c, pt, cache) else y, pt, cache)
            elif a in self.fn:
                v = self._fn_num(a, pt, cache)
            elif a in _A.rules:
                q = self.numeric(Rat(_A.rules[a]), pt, cache)
                v = math.sqrt(q) if q >= 0 else float("nan")
            else:
                raise KeyError(a)
            cache[a] = v
            return v

        def pv(p):
            tot = 0.0
            for m, c in p.t.items():
                x = float(c)
                for k, e in m:
                    x *= av(k) ** e
                tot += x
            return tot
        den = pv(r.d)
        return pv(r.n) / den if den != 0 else float("nan")

    def numeric_cond(self, c, pt, cache=None):
        if isinstance(c, bool):
            return c
        if c.kind == "lt":
            return self.numeric(c.args[0], pt, cache) < 0
        if c.kind == "eq":
            return self.numeric(c.args[0], pt, cache) == 0
        if c.kind == "not":
            return not self.numeric_cond(c.args[0], pt, cache)
        if c.kind == "and":
            return all(self.numeric_cond(a, pt, cache) for a in c.args)
        if c.kind == "or":
            return any(self.numeric_cond(a, pt, cache) for a in c.args)
        if c.kind == "pred":
            name, vals = c.args[0], c.args[1]
            xs = [self.numeric(v, pt, cache) if isinstance(v, (Dual, Rat)) else float(v) for v in vals]
            if name == "isclose":
                a, b = xs[0], xs[1]
                rtol = xs[2] if len(xs) > 2 else 1e-5
                atol = xs[3] if len(xs) > 3 else 1e-8
                return abs(a - b) <= atol + rtol * abs(b)
        raise KeyError(c.key)

    def _fn_num(self, a, pt, cache):
        name, args = self.fn[a]
        xs = []
        for v in args:
            if isinstance(v, Dual):
                xs.append(self.numeric(v, pt, cache))
            elif isinstance(v, Arr):
                xs.append([self.numeric(x, pt, cache) for x in v.data])
            else:
                xs.append(float(v))
        x = xs[0] if xs else None
        try:
            if name == "abs":
                return abs(x)
            if name == "sign":
                return (x > 0) - (x < 0)
            if name == "min":
                return min(xs)
            if name == "max":
                return max(xs)
            if name == "cos_acos_third":
                return math.cos(math.acos(max(-1.0, min(1.0, x))) / 3.0)
            if name == "exp":
                return math.exp(x)
            if name == "expm1":
                return math.expm1(x)
            if name == "log":
                return math.log(x)
            if name == "log1p":
                return math.log1p(x)
            if name == "pow":
                return x ** xs[1]
            if name == "floor":
                return float(math.floor(x))
            if name == "ceil":
                return float(math.ceil(x))
            if name in ("trunc", "fix"):
                return float(math.trunc(x))
            if name == "rint":
                return float(round(x))
            if name == "norm_inf":
                return max(abs(t) for t in x)
            if name == "amax":
                return max(x)
            if name == "amin":
                return min(x)
        except (ValueError, OverflowError, ZeroDivisionError):
            return float("nan")
        raise KeyError(a)

    # ---- library functions
    def _install(self):
        self.special["optimism.JaxConfig:if_then_else"] = lambda it, args, kw: it.select(*self._bind3(args, kw, ("cond", "val1", "val2")))
        self.special["optimism.Math:safe_sqrt"] = lambda it, args, kw: it.np_call("sqrt", list(args), {})

    @staticmethod
    def _bind3(args, kw, names):
        vals = list(args)
        for n in names[len(vals):]:
            if n not in kw:
                raise EvalError(f"missing argument {n}")
            vals.append(kw[n])
        return vals

    def opaque_function(self, qualname, fname):
        """make calls of the repository function `qualname` opaque applications fname(args)"""
        def f(it, args, kw):
            xs = [it.num(a) for a in list(args) + list(kw.values())]
            if len(xs) == 1 and isinstance(xs[0], Arr):
                return xs[0].map(lambda v: it.fn_atom(fname, [v]))
            return it.fn_atom(fname, xs)
        self.special[qualname] = f

    def call_closure(self, f: Closure, args, kwargs):
        """python calling convention in full: positional / keyword / default / *args / **kwargs / keyword-only parameters"""
        sc = f.scope
        q = sc.qualname
        if self.call_hook is not None:
            self.call_hook(self, f, args, kwargs)
        if q in self.special:
            return self.special[q](self, args, kwargs)
        self.depth += 1
        if self.depth > self.max_depth:
            self.depth -= 1
            raise EvalError("recursion too deep")
        self.stack.append(q)
        try:
            self.visited.add(q)
            env = Env(sc, f.env)
            a = sc.node.args
            ps = sc.params()
            if len(args) > len(ps):
                if a.vararg is None:
                    raise EvalError(f"too many arguments for {q}")
                env.vars[a.vararg.arg] = tuple(args[len(ps):])
            elif a.vararg is not None:
                env.vars[a.vararg.arg] = ()
            for p_, v in zip(ps, args):
                env.vars[p_] = v
            named = set(ps) | set(sc.kwonly())
            extra = {}
            for k, v in kwargs.items():
                if k in named:
                    if k in env.vars:
                        raise EvalError(f"multiple values for argument {k} of {q}")
                    env.vars[k] = v
                elif a.kwarg is not None:
                    extra[k] = v
                else:
                    raise EvalError(f"unexpected keyword argument {k} of {q}")
            if a.kwarg is not None:
                env.vars[a.kwarg.arg] = extra
            for p_ in ps + sc.kwonly():
                if p_ not in env.vars:
                    d = sc.default_of(p_)
                    if d is None:
                        raise EvalError(f"missing argument {p_} of {q}")
                    env.vars[p_] = self.eval(d, f.env)
            # parameters are names the programmer gave to quantities, like locals (recorded; abstracted when the interpreter abstracts)
            for p_ in ps + sc.kwonly():
                env.vars[p_] = self._bound(p_, env.vars[p_])
            if sc.kind == "lambda":
                return self.eval(sc.node.body, env)
            try:
                self.block(sc.node.body, env)
            except ReturnSignal as r:
                return r.value
            return None
        finally:
            self.stack.pop()
            self.depth -= 1

    def _class_record(self, qual, args, kwargs):
        """instance of a NamedTuple / dataclass style class: fields are the annotated class attributes, with their defaults"""
        csc = self.repo.find(qual)
        if csc is None or any(c.kind == "function" and c.name in ("__init__", "__new__", "__post_init__") for c in csc.children):
            return None
        fields, defaults = [], {}
        for st in csc.node.body:
            if isinstance(st, ast.AnnAssign) and isinstance(st.target, ast.Name):
                fields.append(st.target.id)
                if st.value is not None:
                    defaults[st.target.id] = st.value
        if not fields or len(args) > len(fields):
            return None
        vals = dict(zip(fields, args))
        for k, v in kwargs.items():
            if k not in fields:
                raise EvalError(f"unknown field {k} of {qual}")
            if k in vals:
                raise EvalError(f"multiple values for field {k} of {qual}")
            vals[k] = v
        for k in fields:
            if k not in vals:
                if k not in defaults:
                    raise EvalError(f"missing field {k} of {qual}")
                vals[k] = self.eval(defaults[k], self.module_env(csc.module))
        return Record(csc.name, fields, [vals[k] for k in fields], cls=csc)

    def _builtin(self, name, args, kwargs):
        """python builtins / functools / itertools / operator on interpreter values; NotImplemented when the name is not one of them"""
        it = self.iterate
        if name == "builtins.zip":
            return [tuple(t) for t in zip(*[it(a) for a in args])]
        if name == "builtins.enumerate" and args:
            start = self.as_int(kwargs.get("start", args[1] if len(args) > 1 else 0))
            return [(i + start, x) for i, x in enumerate(it(args[0]))]
        if name == "builtins.map" and len(args) >= 2:
            return [self.call(args[0], list(t), {}) for t in zip(*[it(a) for a in args[1:]])]
        if name == "builtins.filter" and len(args) == 2:
            return [x for x in it(args[1]) if self.truth(self.call(args[0], [x], {}) if args[0] is not None else x)]
        if name == "builtins.sum" and args:
            items = it(args[0])
            acc = kwargs.get("start", args[1] if len(args) > 1 else 0)
            for x in items:
                acc = self.binop(ast.Add(), acc, x, Env(None, None))
            return acc
        if name in ("builtins.any", "builtins.all") and len(args) == 1:
            items = [x if isinstance(x, (bool, SBool)) else self.truth(x) for x in it(args[0])]
            return b_and(items) if name.endswith("all") else b_or(items)
        if name == "builtins.len" and len(args) == 1 and isinstance(args[0], (Record, Gather, Perm)):
            return len(it(args[0]))
        if name in ("builtins.tuple", "builtins.list") and len(args) <= 1:
            items = it(args[0]) if args else []
            return tuple(items) if name.endswith("tuple") else list(items)
        if name == "builtins.dict":
            out = {}
            if args:
                out.update(args[0] if isinstance(args[0], dict) else {k: v for k, v in (tuple(it(p_)) for p_ in it(args[0]))})
            out.update(kwargs)
            return out
        if name in ("builtins.max", "builtins.min") and args and not kwargs:
            items = it(args[0]) if len(args) == 1 else list(args)
            if not items:
                raise EvalError("max / min of nothing")
            if all(isinstance(x, int) and not isinstance(x, bool) for x in items):
                return max(items) if name.endswith("max") else min(items)
            acc = items[0]
            for x in items[1:]:
                acc = self.np_call("maximum" if name.endswith("max") else "minimum", [acc, x], {})
            return acc
        if name in ("builtins.float", "builtins.int", "builtins.round", "builtins.complex") and len(args) == 1:
            return args[0]
        if name == "builtins.bool" and len(args) == 1:
            return args[0] if isinstance(args[0], (bool, SBool)) else self.truth(args[0])
        if name == "builtins.getattr" and len(args) in (2, 3) and isinstance(args[1], str):
            try:
                return self.attr_of(args[0], args[1], Env(None, None))
            except EvalError:
                if len(args) == 3:
                    return args[2]
                raise
        if name == "builtins.isinstance" and len(args) == 2:
            kinds = args[1] if isinstance(args[1], (tuple, list)) else (args[1],)
            res = False
            for k in kinds:
                if not isinstance(k, Ext):
                    raise EvalError("isinstance with a class of the repository")
                last = k.name.split(".")[-1]
                table = {"tuple": (tuple, Record), "list": (list,), "dict": (dict,), "str": (str,), "bool": (bool,),
                         "int": (int,), "float": (float, Fraction)}
                if k.name.startswith("builtins.") and last in table:
                    v = args[0]
                    if isinstance(v, tuple) and len(v) == 3 and v[0] == "method":
                        continue
                    if isinstance(v, bool) and last in ("int", "float"):
                        continue
                    res = res or isinstance(v, table[last])
                else:
                    raise EvalError(f"isinstance with {k.name}")
            return res
        if name == "functools.partial" and args:
            return Partial(args[0], args[1:], kwargs)
        if name == "functools.reduce" and len(args) in (2, 3):
            items = it(args[1])
            if len(args) == 3:
                acc = args[2]
            elif items:
                acc, items = items[0], items[1:]
            else:
                raise EvalError("reduce of an empty sequence")
            for x in items:
                acc = self.call(args[0], [acc, x], {})
            return acc
        if name in ("itertools.product", "itertools.combinations", "itertools.permutations", "itertools.chain",
                    "itertools.combinations_with_replacement") and not (kwargs.keys() - {"repeat"}):
            last = name.split(".")[-1]
            if last == "product":
                return [tuple(t) for t in itertools.product(*[it(a) for a in args], repeat=self.as_int(kwargs.get("repeat", 1)))]
            if last == "chain":
                return [x for a in args for x in it(a)]
            if last == "permutations":
                return [tuple(t) for t in itertools.permutations(it(args[0]), *(self.as_int(a) for a in args[1:]))]
            f_ = itertools.combinations if last == "combinations" else itertools.combinations_with_replacement
            return [tuple(t) for t in f_(it(args[0]), self.as_int(args[1]))]
        if name == "itertools.chain.from_iterable" and len(args) == 1:
            return [x for a in it(args[0]) for x in it(a)]
        if name.startswith("operator.") and not kwargs:
            op = name.split(".")[-1]
            table = {"add": ast.Add, "sub": ast.Sub, "mul": ast.Mult, "truediv": ast.Div, "matmul": ast.MatMult, "pow": ast.Pow}
            if op in table and len(args) == 2:
                return self.binop(table[op](), args[0], args[1], Env(None, None))
            if op == "neg" and len(args) == 1:
                return self.neg(args[0])
            if op == "getitem" and len(args) == 2:
                return self.getitem(args[0], args[1])
            if op == "itemgetter" and args:
                keys = list(args)
                return PyFunc("itemgetter", lambda it_, a, k, keys=keys: it_.getitem(a[0], keys[0]) if len(keys) == 1 else tuple(it_.getitem(a[0], kk) for kk in keys))
            if op == "attrgetter" and len(args) == 1 and isinstance(args[0], str):
                return PyFunc("attrgetter", lambda it_, a, k, nm=args[0]: it_.attr_of(a[0], nm, Env(None, None)))
        return NotImplemented

    def call(self, f, args, kwargs):
        if isinstance(f, Obj):
            m_ = f.method("__call__")
            if m_ is None:
                raise EvalError(f"call of {f!r}")
            return self.call_closure(Closure(m_, self.module_env(m_.module)), [f] + list(args), kwargs)
        if isinstance(f, VmapAxes):
            axes = f.axes
            if not isinstance(axes, (tuple, list)):
                # one axis for every argument; python scalars / callables are passed through unmapped (lenient reading of in_axes=0)
                axes = [axes if isinstance(a, Arr) else None for a in args]
            if len(axes) != len(args) or kwargs:
                raise EvalError("vmap in_axes")
            mapped = [i for i, ax in enumerate(axes) if ax is not None]
            if not mapped or any(not isinstance(args[i], Arr) for i in mapped):
                raise EvalError("vmap without a mapped array argument")
            args = list(args)
            for i in mapped:
                ax = self.as_int(axes[i])
                ax = ax + args[i].ndim if ax < 0 else ax
                if ax == 1 and args[i].ndim == 2:
                    args[i] = args[i].T()          # mapping over the columns is mapping over the rows of the transpose
                elif ax != 0:
                    raise EvalError("vmap over an inner axis of an array with more than two axes")
            k = args[mapped[0]].shape[0]
            outs = [self.call(f.fn, [self.getitem(a, j) if i in mapped else a for i, a in enumerate(args)], {}) for j in range(k)]
            out_ax = getattr(f, "out_axes", 0)

            def stack(items):
                if all(isinstance(o, (tuple, list)) and not (len(o) == 3 and o[0] == "method") for o in items) and len({len(o) for o in items}) == 1:
                    return tuple(stack([o[t] for o in items]) for t in range(len(items[0])))
                items = [self.num(o) for o in items]
                if all(isinstance(o, Dual) for o in items):
                    return Arr(items, (k,))
                if all(isinstance(o, Arr) and o.shape == items[0].shape for o in items):
                    res = Arr([x for o in items for x in o.data], (k,) + tuple(items[0].shape))
                    if out_ax in (1, -1) and res.ndim == 2:
                        return res.T()
                    if out_ax != 0:
                        raise EvalError("vmap out_axes")
                    return res
                raise EvalError("vmap output")
            return stack(outs)
        return super().call(f, args, kwargs)

    def call_ext(self, name, args, kwargs):
        if name in self.ext_special:
            return self.ext_special[name](self, args, kwargs)
        if name.split(".")[0] in ("builtins", "functools", "itertools", "operator"):
            r = self._builtin(name, args, kwargs)
            if r is not NotImplemented:
                return r
        if name.startswith("class:"):
            q = name[len("class:"):]
            if q.endswith("._make") and len(args) == 1:
                r = self._class_record(q[:-len("._make")], self.iterate(args[0]), {})
            else:
                r = self._class_record(q, args, kwargs)
            if r is not None:
                return r
            csc = self.repo.find(q)
            if csc is not None and csc.kind == "class":
                obj = Obj(csc)
                init = obj.method("__init__")
                if init is not None:
                    self.call_closure(Closure(init, self.module_env(csc.module)), [obj] + list(args), kwargs)
                elif args or kwargs:
                    raise EvalError(f"arguments for a class without __init__: {q}")
                return obj
        if name in ("jax.jit", "jax.checkpoint", "jax.remat", "jax.named_call") and args:
            return args[0]
        if name == "jax.lax.cond" and args and isinstance(args[0], SBool):
            c = args[0]
            r = self.resolve(c)
            ops = list(args[3:]) + ([kwargs["operand"]] if "operand" in kwargs else [])
            if r is None:
                return self.select(c, self.call(args[1], ops, {}), self.call(args[2], ops, {}))
            return self.call(args[1] if r else args[2], ops, {})
        if name == "jax.vmap" and args:
            axes = kwargs.get("in_axes", args[1] if len(args) > 1 else 0)
            out_axes = kwargs.get("out_axes", args[2] if len(args) > 2 else 0)
            if not isinstance(out_axes, int) or isinstance(out_axes, bool):
                raise EvalError("vmap with structured out_axes")
            return VmapAxes(args[0], axes, out_axes)
        if name == "jax.lax.select" and len(args) == 3:
            return self.np_call("where", list(args), {})
        if name == "jax.lax.select_n" and len(args) == 3:
            return self.np_call("where", [args[0], args[2], args[1]], {})
        if name == "jax.lax.switch" and len(args) >= 2:
            branches = self.iterate(args[1])
            idx = args[0]
            if isinstance(idx, IdxSel):
                return self.index_select(idx, [self.call(b_, list(args[2:]), {}) for b_ in branches])
            k = min(max(self.as_int(idx), 0), len(branches) - 1)
            return self.call(branches[k], list(args[2:]), {})
        if name == "jax.lax.fori_loop" and len(args) == 4:
            lo, hi = self.as_int(args[0]), self.as_int(args[1])
            if hi - lo > self.max_loop:
                raise EvalError("fori_loop too long to unroll")
            carry = args[3]
            for i in range(lo, hi):
                carry = self.call(args[2], [i, carry], {})
            return carry
        if name == "jax.lax.scan" and len(args) >= 3 and not kwargs:
            xs = args[2]
            items = self.iterate(xs) if xs is not None else None
            if items is None or len(items) > self.max_loop:
                raise EvalError("scan that cannot be unrolled")
            carry, ys = args[1], []
            for x in items:
                carry, y = self.iterate(self.call(args[0], [carry, x], {}))
                ys.append(y)
            if ys and all(isinstance(y, (Dual, int, float, Fraction)) and not isinstance(y, bool) for y in ys):
                ys = Arr([self.num(y) for y in ys], (len(ys),))
            elif ys and all(isinstance(y, Arr) and y.shape == ys[0].shape for y in ys):
                ys = Arr([v for y in ys for v in y.data], (len(ys),) + tuple(ys[0].shape))
            return (carry, ys)
        if name == "builtins.abs" and len(args) == 1:
            return self.np_call("abs", args, kwargs)
        if name in ("builtins.max", "builtins.min") and len(args) == 2:
            return self.np_call("maximum" if name.endswith("max") else "minimum", args, kwargs)
        if name == "builtins.float" and len(args) == 1:
            return args[0]
        if name == "builtins.callable" and len(args) == 1:
            from optilint.tensoreval import Vmapped, Deriv
            return isinstance(args[0], (Closure, PyFunc, Ext, Vmapped, Deriv, VmapAxes))
        return super().call_ext(name, args, kwargs)

    def _scalar_or_map(self, x, f):
        x = self.num(x)
        return x.map(f) if isinstance(x, Arr) else f(x)

    def s_abs(self, v: Dual) -> Dual:
        c = rat_const(v.a)
        if c is not None:
            return Dual(abs(c)) if rat_is_zero(v.b) else d_fun("abs", v)
        s = rat_sign(v.a, self.positive)
        if s is not None:
            return v if s >= 0 else -v
        # |clip(x, -c, c)| is min(|x|, c) for a constant c >= 0 (either nesting of min and max)
        one = self._only_atom(v.a)
        if one is not None and one in self.fn and self.fn[one][0] in ("min", "max") and rat_is_zero(v.b):
            outer, (p_, q_) = self.fn[one][0], self.fn[one][1]
            for cst, inner in ((p_, q_), (q_, p_)):
                c_out = rat_const(cst.a)
                ia = self._only_atom(inner.a)
                if c_out is None or ia is None or ia not in self.fn or self.fn[ia][0] != ("max" if outer == "min" else "min"):
                    continue
                (r_, t_) = self.fn[ia][1]
                for c2, x in ((r_, t_), (t_, r_)):
                    c_in = rat_const(c2.a)
                    if c_in is not None and c_in == -c_out and (c_out >= 0 if outer == "min" else c_out <= 0):
                        return self.s_minmax("min", self.s_abs(x), Dual(abs(c_out)))
        a = v.a
        if a.d.is_const() and not a.n.is_zero() and _lead(a.n) / a.d.const_value() < 0:
            a = -a                                    # |x| == |-x|: one atom for both
        return self.fn_atom("abs", [Dual(a)])

    @staticmethod
    def _only_atom(r: Rat):
        """the atom a when r is exactly a"""
        if r.d.is_const() and r.d.const_value() == 1 and len(r.n.t) == 1:
            (mono, c), = r.n.t.items()
            if c == 1 and len(mono) == 1 and mono[0][1] == 1:
                return mono[0][0]
        return None

    @staticmethod
    def _is_half(k):
        if isinstance(k, Dual):
            k = rat_const(k.a) if rat_is_zero(k.b) else None
        if isinstance(k, float):
            return k == 0.5
        return isinstance(k, Fraction) and k == Fraction(1, 2)

    @staticmethod
    def _monomial_root(r: Rat):
        """m with m^2 == r when r is c^2 * (monomial with even exponents) / (the same), not a constant; else None"""
        def root(p):
            if len(p.t) != 1:
                return None
            (mono, c), = p.t.items()
            if c <= 0 or any(e % 2 for _, e in mono):
                return None
            sn, sd = math.isqrt(c.numerator), math.isqrt(c.denominator)
            if sn * sn != c.numerator or sd * sd != c.denominator:
                return None
            return Poly({tuple((k, e // 2) for k, e in mono): Fraction(sn, sd)})
        if r.n.is_const() and r.d.is_const():
            return None
        n, d = root(r.n), root(r.d)
        return Rat(n, d) if n is not None and d is not None else None

    def s_round(self, kind, v) -> Dual:
        """floor / ceil / trunc / rint of a scalar: the exact integer for a constant, else the opaque application kind(v) (piecewise constant:
        no first-order part)"""
        v = Dual.of(self.num(v)) if not isinstance(v, Dual) else v
        c = rat_const(v.a)
        if c is not None:
            c = Fraction(c)
            fl = c.numerator // c.denominator
            if kind == "floor":
                return Dual(fl)
            if kind == "ceil":
                return Dual(-((-c.numerator) // c.denominator))
            if kind in ("trunc", "fix"):
                return Dual(fl if c >= 0 else -((-c.numerator) // c.denominator))
            r = c - fl                                  # rint: to nearest, ties to even
            return Dual(fl + (1 if (r > Fraction(1, 2) or (r == Fraction(1, 2) and fl % 2)) else 0))
        return self.fn_atom(kind, [Dual(v.a)])

    def s_minmax(self, kind, a, b):
        a, b = Dual.of(self.num(a)), Dual.of(self.num(b))
        d = _A.norm(a.a - b.a)
        s = rat_sign(d, self.positive)
        if s is not None:
            return (a if s <= 0 else b) if kind == "min" else (a if s >= 0 else b)
        # max(|x|, c) with c <= 0 is |x|
        for x, y in ((a, b), (b, a)):
            cy = rat_const(y.a)
            if kind == "max" and cy is not None and cy <= 0 and len(x.a.atoms()) == 1 and next(iter(x.a.atoms())) in self.fn \
                    and self.fn[next(iter(x.a.atoms()))][0] in ("abs", "norm_inf") and repr(x.a) == next(iter(x.a.atoms())):
                return x
        xs = sorted([a, b], key=lambda v: repr(v.a))
        return self.fn_atom(kind, xs)

    def np_call(self, fn, args, kwargs):
        n = self.num
        if fn == "vectorize" and len(args) == 1:
            g = args[0]

            def elementwise(it, a, k, g=g):
                vals = [it.num(v) for v in a]
                shp = ()
                for v in vals:
                    shp = broadcast_shape(shp, v.shape if isinstance(v, Arr) else ())
                cols = [broadcast_data(v.data if isinstance(v, Arr) else [v], v.shape if isinstance(v, Arr) else (), shp) for v in vals]
                out = [it.num(it.call(g, list(t), dict(k))) for t in zip(*cols)]
                return Arr(out, shp) if shp else out[0]
            return PyFunc("vectorize", elementwise)
        if fn == "expand_dims" and len(args) + len(kwargs) == 2:
            x = n(args[0])
            ax = self.as_int(kwargs.get("axis", args[1] if len(args) > 1 else None))
            shp = list(x.shape) if isinstance(x, Arr) else []
            ax = ax + len(shp) + 1 if ax < 0 else ax
            shp.insert(ax, 1)
            return Arr(list(x.data) if isinstance(x, Arr) else [x], tuple(shp))
        if fn == "dtype" and len(args) == 1:
            return Ext(f"numpy.dtype.{args[0]}" if isinstance(args[0], str) else "numpy.dtype")
        if fn in ("shape", "ndim", "size") and len(args) == 1 and not kwargs:
            # the function spelling of the static array attributes (np.shape(A) is A.shape, ...): plain python values, known at trace time
            x = args[0]
            if isinstance(x, (Dual, int, float, Fraction)) and not isinstance(x, bool):
                return {"shape": (), "ndim": 0, "size": 1}[fn]
            if isinstance(x, Arr):
                return {"shape": tuple(x.shape), "ndim": len(x.shape), "size": x.size()}[fn]
        if fn in ("float64", "float32", "int64", "int32", "double") and len(args) == 1 and not kwargs:
            return args[0]
        def is_conds(v):
            return isinstance(v, CondArr) or (isinstance(v, Arr) and v.isbool) or \
                (isinstance(v, (tuple, list)) and len(v) > 0 and not (len(v) == 3 and v[0] == "method") and all(isinstance(x, (bool, SBool, CondArr)) for x in v))
        if fn == "where" and len(args) == 3:
            c = args[0]
            if is_conds(c) or isinstance(c, Arr):
                return self.where_array(self.cond_array(c), args[1], args[2])
            return self.select(c, args[1], args[2])
        if fn in ("logical_and", "logical_or", "logical_xor", "bitwise_and", "bitwise_or") and len(args) == 2:
            op = {"logical_and": ast.BitAnd, "bitwise_and": ast.BitAnd, "logical_or": ast.BitOr, "bitwise_or": ast.BitOr, "logical_xor": ast.BitXor}[fn]()
            if is_conds(args[0]) or is_conds(args[1]):
                return self.binop(op, self.cond_array(args[0]), self.cond_array(args[1]), Env(None, None))
            if all(isinstance(x, (bool, SBool)) for x in args):
                if isinstance(op, ast.BitAnd):
                    return b_and(list(args))
                if isinstance(op, ast.BitOr):
                    return b_or(list(args))
                return b_or([b_and([args[0], b_not(args[1])]), b_and([b_not(args[0]), args[1]])])
        if fn in ("logical_not", "invert", "bitwise_not") and len(args) == 1:
            return self.cond_array(args[0]).map(b_not) if is_conds(args[0]) else b_not(args[0])
        if fn in ("all", "any") and len(args) == 1 and not kwargs and (is_conds(args[0]) or isinstance(args[0], (bool, SBool))):
            cs = self.cond_array(args[0]).data
            return b_and(list(cs)) if fn == "all" else b_or(list(cs))
        if fn in ("equal", "not_equal", "less", "less_equal", "greater", "greater_equal") and len(args) == 2:
            op = {"equal": ast.Eq, "not_equal": ast.NotEq, "less": ast.Lt, "less_equal": ast.LtE, "greater": ast.Gt, "greater_equal": ast.GtE}[fn]()
            return self.compare(args[0], op, args[1])
        if fn == "select" and len(args) >= 2:
            conds, choices = self.iterate(args[0]), self.iterate(args[1])
            if len(conds) != len(choices) or not conds:
                raise EvalError("np.select lists")
            r = kwargs.get("default", args[2] if len(args) > 2 else 0)
            for c, v in reversed(list(zip(conds, choices))):
                r = self.np_call("where", [c, v, r], {})
            return r
        if fn in ("argmax", "argmin") and len(args) == 1 and not kwargs:
            x = n(args[0])
            if isinstance(x, Arr) and x.ndim == 1 and all(rat_const(v.a) is not None for v in x.data):
                vals = [rat_const(v.a) for v in x.data]
                return vals.index(max(vals) if fn == "argmax" else min(vals))
            if not isinstance(x, Arr):
                raise EvalError("argmax of a scalar")
            return self.arg_extreme(x, largest=(fn == "argmax"))
        if fn in ("swapaxes", "moveaxis") and len(args) == 3:
            x = n(args[0])
            if isinstance(x, Arr) and x.ndim == 2 and {self.as_int(args[1]) % 2, self.as_int(args[2]) % 2} == {0, 1}:
                return x.T()
            raise EvalError(f"{fn} of an array that is not a matrix")
        if fn == "meshgrid" and len(args) == 2:
            a, b = n(args[0]), n(args[1])
            if not (isinstance(a, Arr) and isinstance(b, Arr) and a.ndim == 1 and b.ndim == 1):
                raise EvalError("meshgrid of non-vectors")
            ij = kwargs.get("indexing", "xy") == "ij"
            rows, cols = (a, b) if ij else (b, a)
            R_ = Arr([x for x in rows.data for _ in cols.data], (rows.shape[0], cols.shape[0]))
            C_ = Arr([y for _ in rows.data for y in cols.data], (rows.shape[0], cols.shape[0]))
            return [R_, C_] if ij else [C_, R_]
        if fn == "linalg.inv" and len(args) == 1:
            A_ = n(args[0])
            if isinstance(A_, Arr) and A_.shape in ((2, 2), (3, 3)) and not A_.is_diagonal():
                k = A_.shape[0]
                g = lambda i, j: A_.data[i * k + j]
                if k == 2:
                    det = g(0, 0) * g(1, 1) - g(0, 1) * g(1, 0)
                    adj = [g(1, 1), -g(0, 1), -g(1, 0), g(0, 0)]
                else:
                    cof = lambda i, j: g((i + 1) % 3, (j + 1) % 3) * g((i + 2) % 3, (j + 2) % 3) - g((i + 1) % 3, (j + 2) % 3) * g((i + 2) % 3, (j + 1) % 3)
                    det = g(0, 0) * cof(0, 0) + g(0, 1) * cof(0, 1) + g(0, 2) * cof(0, 2)
                    adj = [cof(j, i) for i in range(3) for j in range(3)]
                if det.is_zero():
                    raise EvalError("inverse of a singular matrix")
                return Arr([x / det for x in adj], A_.shape)
        if fn in ("array", "asarray") and args and isinstance(args[0], (list, tuple)) and args[0] \
                and all(isinstance(x, (bool, SBool)) for x in args[0]) and any(isinstance(x, SBool) for x in args[0]):
            return tuple(args[0])            # a vector of conditions stays a tuple of conditions
        if fn in ("abs", "absolute", "fabs") and len(args) == 1:
            return self._scalar_or_map(args[0], self.s_abs)
        if fn in ("minimum", "maximum", "fmin", "fmax") and len(args) == 2:
            kind = "min" if fn in ("minimum", "fmin") else "max"
            a, b = n(args[0]), n(args[1])
            if isinstance(a, Arr) or isinstance(b, Arr):
                raise EvalError("minimum / maximum of arrays")
            return self.s_minmax(kind, a, b)
        if fn == "clip" and len(args) == 3:
            return self.s_minmax("min", self.s_minmax("max", args[0], args[1]), args[2])
        if fn == "sign" and len(args) == 1:
            def sg(v):
                c = rat_const(v.a)
                if c is not None:
                    return Dual(1 if c > 0 else (-1 if c < 0 else 0))
                s = self.sign_of(v.a)
                if s in ("pos", "neg", "zero"):
                    return Dual({"pos": 1, "neg": -1, "zero": 0}[s])
                return self.fn_atom("sign", [Dual(v.a)])
            return self._scalar_or_map(args[0], sg)
        if fn in ("exp", "expm1", "log", "log1p") and len(args) == 1:
            def tf(v):
                try:
                    return d_fun(fn, v)
                except EvalError:
                    if not rat_is_zero(v.b):
                        # forward derivative through the opaque value (chain rule): exp' = exp, expm1' = exp, log' = 1/x, log1p' = 1/(1+x)
                        base = Dual(v.a)
                        val = tf(base)
                        if not (isinstance(val, Dual) and rat_is_zero(val.b)):
                            raise
                        if fn == "exp":
                            der = val.a
                        elif fn == "expm1":
                            der = tf_named("exp", base).a
                        elif fn == "log":
                            der = _A.norm(Rat(Poly.const(1)) / v.a)
                        else:
                            der = _A.norm(Rat(Poly.const(1)) / (Rat(Poly.const(1)) + v.a))
                        return Dual(val.a, _A.norm(der * v.b))
                    return self.fn_atom(fn, [v])

            def tf_named(name, v):
                return self.np_call(name, [v], {})
            return self._scalar_or_map(args[0], tf)
        if fn in ("sinh", "cosh", "tanh") and len(args) == 1 and not kwargs:
            # hyperbolic functions by their definition through the exponential: (e^x -+ e^-x)/2
            def hyp(v):
                ep, em = self.np_call("exp", [v], {}), self.np_call("exp", [-v], {})
                half = Dual(Fraction(1, 2))
                return (ep - em) * half if fn == "sinh" else (ep + em) * half if fn == "cosh" else (ep - em) / (ep + em)
            return self._scalar_or_map(args[0], hyp)
        if fn in ("floor", "ceil", "trunc", "rint", "fix") and len(args) == 1 and not kwargs:
            def rnd(v):
                return self.s_round(fn, v)
            return self._scalar_or_map(args[0], rnd)
        if fn in ("floor_divide", "mod", "remainder") and len(args) == 2 and not kwargs:
            a, b = n(args[0]), n(args[1])
            if isinstance(a, Arr) or isinstance(b, Arr):
                shp = broadcast_shape(a.shape if isinstance(a, Arr) else (), b.shape if isinstance(b, Arr) else ())
                xs = broadcast_data(a.data if isinstance(a, Arr) else [a], a.shape if isinstance(a, Arr) else (), shp)
                ys = broadcast_data(b.data if isinstance(b, Arr) else [b], b.shape if isinstance(b, Arr) else (), shp)
                return Arr([self.np_call(fn, [x, y], {}) for x, y in zip(xs, ys)], shp)
            q = self.s_round("floor", a / b)
            return q if fn == "floor_divide" else a - b * q
        if fn == "sqrt" and len(args) == 1:
            def sq(v):
                if rat_const(v.a) == 0 and not rat_is_zero(v.b):
                    raise EvalError("sqrt is not differentiable at 0")
                root = self._monomial_root(v.a) if rat_is_zero(v.b) else None
                if root is not None:
                    return self.s_abs(Dual(root))          # sqrt(x^2) is |x|, not x
                return d_fun("sqrt", v)
            return self._scalar_or_map(args[0], sq)
        if fn == "square" and len(args) == 1:
            return self._scalar_or_map(args[0], lambda v: v * v)
        if fn == "reciprocal" and len(args) == 1 and not kwargs:
            return self._scalar_or_map(args[0], lambda v: Dual(1) / v)
        if fn in ("power", "float_power") and len(args) == 2:
            if self._is_half(args[1]):
                return self.np_call("sqrt", [args[0]], {})

            def pw(v):
                try:
                    return d_pow(v, args[1])
                except EvalError:
                    if not rat_is_zero(v.b):
                        # forward derivative through the opaque power (chain rule): d x^k = k x^(k-1) dx for an exponent that does not depend on eps
                        k_ = Dual.of(n(args[1]))
                        if not rat_is_zero(k_.b):
                            raise
                        base = Dual(v.a)
                        val, low = pw(base), self.num(self.np_call(fn, [base, k_ - Dual(1)], {}))
                        if not (isinstance(val, Dual) and isinstance(low, Dual) and rat_is_zero(val.b) and rat_is_zero(low.b)):
                            raise
                        return Dual(val.a, _A.norm(k_.a * low.a * v.b))
                    return self.fn_atom("pow", [v, Dual.of(n(args[1]))])
            return self._scalar_or_map(args[0], pw)
        if fn == "isclose" and len(args) >= 2:
            a, b = n(args[0]), n(args[1])
            if isinstance(a, Arr) or isinstance(b, Arr):
                sa, sb = (a.shape if isinstance(a, Arr) else ()), (b.shape if isinstance(b, Arr) else ())
                shp = broadcast_shape(sa, sb)
                xs = broadcast_data(a.data if isinstance(a, Arr) else [a], sa, shp)
                ys = broadcast_data(b.data if isinstance(b, Arr) else [b], sb, shp)
                return CondArr([self.np_call("isclose", [x, y] + list(args[2:]), kwargs) for x, y in zip(xs, ys)], shp)
            if _A.equal(a.a, b.a):
                return True
            extra = [n(kwargs[k]) for k in ("rtol", "atol") if k in kwargs] if not args[2:] else [n(x) for x in args[2:]]
            vals = (a, b) + tuple(extra)
            c = SBool("pred", ("isclose", vals), "isclose[" + ",".join(self._vkey(v) for v in vals) + "]")
            self.cmp_log.append((c, a.a, "isclose", b.a, self._cur))
            r = self.resolve(c)
            return c if r is None else r
        if fn in ("argsort", "sort") and len(args) == 1 and not kwargs:
            x = n(args[0])
            if not isinstance(x, Arr) or x.ndim != 1:
                raise EvalError("argsort of a non-vector")
            p = Perm(x)
            return p if fn == "argsort" else Gather(x, p, 0)
        if fn == "take" and len(args) >= 2 and isinstance(args[1], Perm):
            ax = kwargs.get("axis", args[2] if len(args) > 2 else 0)
            x = n(args[0])
            ax = self.as_int(ax)
            ax = ax + x.ndim if ax < 0 else ax
            return Gather(x, args[1], ax)
        if fn in ("column_stack", "stack", "vstack", "row_stack") and len(args) >= 1 and isinstance(args[0], (tuple, list)):
            vs = [n(v) for v in args[0]]
            if not vs or not all(isinstance(v, Arr) and v.ndim == 1 and v.shape == vs[0].shape for v in vs):
                raise EvalError(f"{fn} of non-vectors")
            rows = Arr([x for v in vs for x in v.data], (len(vs), vs[0].shape[0]))
            ax = self.as_int(kwargs.get("axis", args[1] if len(args) > 1 else 0)) if fn == "stack" else (1 if fn == "column_stack" else 0)
            if ax in (1, -1):
                return rows.T()
            if ax == 0:
                return rows
            raise EvalError("stack axis")
        if fn == "transpose" and len(args) == 1:
            x = args[0]
            return x.T() if isinstance(x, (Arr, Gather)) else x
        if fn == "cross" and len(args) == 2:
            a, b = n(args[0]), n(args[1])
            if not (isinstance(a, Arr) and isinstance(b, Arr) and a.shape == (3,) and b.shape == (3,)):
                raise EvalError("cross of non 3-vectors")
            g, h = a.data, b.data
            return Arr([g[1] * h[2] - g[2] * h[1], g[2] * h[0] - g[0] * h[2], g[0] * h[1] - g[1] * h[0]], (3,))
        if fn == "outer" and len(args) == 2:
            a, b = n(args[0]), n(args[1])
            return Arr([x * y for x in a.data for y in b.data], (a.size(), b.size()))
        if fn == "linalg.norm":
            x = n(args[0])
            order = kwargs.get("ord", args[1] if len(args) > 1 else None)
            if kwargs.get("axis") is not None:
                ax = self.as_int(kwargs["axis"])
                if not (isinstance(x, Arr) and x.ndim == 2 and order in (None, 2)) or kwargs.get("keepdims"):
                    raise EvalError("norm along an axis")
                rows = x.T() if ax in (0, -2) else x
                return Arr([d_fun("sqrt", sum_d(v * v for v in rows.index(i).data)) for i in range(rows.shape[0])], (rows.shape[0],))
            if order is None or order == 2 and isinstance(x, Arr) and x.ndim == 1 or order == "fro":
                return d_fun("sqrt", sum_d(v * v for v in (x.data if isinstance(x, Arr) else [x])))
            if isinstance(order, Ext) and order.name.split(".")[-1] in ("inf", "Inf", "infty"):
                return self.fn_atom("norm_inf", [x])
            raise EvalError("norm order")
        if fn in ("sum", "mean", "prod", "cumsum", "all", "any") and (kwargs.get("axis") is not None or len(args) > 1):
            ax = kwargs.get("axis", args[1] if len(args) > 1 else None)
            x = n(args[0])
            if fn == "sum" and isinstance(x, Arr) and x.ndim == 2 and not kwargs.get("keepdims"):
                ax = self.as_int(ax)
                rows = x.T() if ax in (0, -2) else x
                return Arr([sum_d(rows.index(i).data) for i in range(rows.shape[0])], (rows.shape[0],))
            if fn == "sum" and isinstance(x, Arr) and x.ndim == 1 and self.as_int(ax) in (0, -1):
                return sum_d(x.data)
            raise EvalError(f"{fn} along an axis")
        if fn == "einsum" and len(args) >= 2 and isinstance(args[0], str):
            return self._einsum(args[0], [n(a) for a in args[1:]])
        if fn == "linalg.solve" and len(args) == 2:
            Am, Bm = n(args[0]), n(args[1])
            if isinstance(Am, Arr) and Am.is_diagonal():
                k = Am.shape[0]
                inv = Arr([(Dual(1) / Am.data[i * k + i]) if i == j else Dual(0) for i in range(k) for j in range(k)], Am.shape)
                from optilint.tensoreval import matmul as _mm
                return _mm(inv, Bm)
            if isinstance(Am, Arr) and Am.shape in ((2, 2), (3, 3)):
                from optilint.tensoreval import matmul as _mm
                return _mm(self.np_call("linalg.inv", [Am], {}), Bm)
            raise EvalError("solve with a non-diagonal matrix")
        if fn == "polyval" and len(args) == 2:
            cs, xv = n(args[0]), n(args[1])
            if not isinstance(cs, Arr) or cs.ndim != 1 or isinstance(xv, Arr):
                raise EvalError("polyval")
            acc = Dual(0)
            for c in cs.data:
                acc = acc * xv + c
            return acc
        if fn in ("max", "amax", "min", "amin") and len(args) == 1 and not kwargs:
            x = n(args[0])
            if isinstance(x, Arr):
                return self.fn_atom("amax" if fn in ("max", "amax") else "amin", [x])
            return x
        return super().np_call(fn, args, kwargs)

    def _einsum(self, spec, ops):
        """explicit Einstein summation over small symbolic arrays"""
        import itertools
        spec = spec.replace(" ", "")
        if "->" in spec:
            lhs, out = spec.split("->")
        else:
            lhs = spec
            letters = [c for c in lhs if c != ","]
            out = "".join(sorted(c for c in set(letters) if letters.count(c) == 1))
        ins = lhs.split(",")
        if len(ins) != len(ops) or "." in spec:
            raise EvalError("einsum specification")
        dims = {}
        for sub_, op in zip(ins, ops):
            if not isinstance(op, Arr) or op.ndim != len(sub_):
                raise EvalError("einsum operand")
            for c, d in zip(sub_, op.shape):
                if dims.setdefault(c, d) != d:
                    raise EvalError("einsum dimensions")
        summed = [c for c in dims if c not in out]
        res = []
        for oi in itertools.product(*[range(dims[c]) for c in out]):
            env = dict(zip(out, oi))
            tot = Dual(0)
            for si in itertools.product(*[range(dims[c]) for c in summed]):
                env.update(zip(summed, si))
                term = Dual(1)
                for sub_, op in zip(ins, ops):
                    term = term * op.get(tuple(env[c] for c in sub_))
                tot = tot + term
            res.append(tot)
        return Arr(res, tuple(dims[c] for c in out)) if out else res[0]

    # ---- running a repository function
    def run(self, scope, args, kwargs=None):
        mod = scope.module
        f = self.module_value(mod, scope.name) if scope.parent is not None and scope.parent.kind == "module" else Closure(scope, self.module_env(mod))
        return self.call(f, list(args), dict(kwargs or {}))


def tree_flatten(v):
    """(leaves, rebuild): the leaves of a python container value (tuples, lists, dictionaries, NamedTuple / dataclass records, nested) in the
    order jax flattens a pytree of that shape, and a function that rebuilds the same container from a list of new leaves"""
    if isinstance(v, Record):
        parts = [tree_flatten(x) for x in v.values]
        make = lambda vals, v=v: Record(v.tname, v.fields, vals, cls=v.cls)
    elif isinstance(v, Obj) and v.method("__call__") is None:
        keys = list(v.attrs)
        parts = [tree_flatten(v.attrs[k]) for k in keys]
        make = lambda vals, v=v, keys=keys: Obj(v.cls, dict(zip(keys, vals)))
    elif isinstance(v, tuple) and not (len(v) == 3 and v[0] == "method"):
        parts = [tree_flatten(x) for x in v]
        make = tuple
    elif isinstance(v, list):
        parts = [tree_flatten(x) for x in v]
        make = list
    elif isinstance(v, dict):
        try:
            keys = sorted(v)              # jax flattens dictionaries in the order of their sorted keys
        except TypeError:
            keys = list(v)
        parts = [tree_flatten(v[k]) for k in keys]
        make = lambda vals, keys=keys: dict(zip(keys, vals))
    else:
        return [v], (lambda leaves: leaves[0])
    sizes = [len(p_[0]) for p_ in parts]
    leaves = [x for p_ in parts for x in p_[0]]

    def rebuild(new):
        if len(new) != len(leaves):
            raise EvalError("pytree size")
        out, at = [], 0
        for (_, rb), k in zip(parts, sizes):
            out.append(rb(new[at:at + k]))
            at += k
        return make(out)
    return leaves, rebuild


def generic_matrix(prefix, n=3):
    names = [f"{prefix}{i}{j}" for i in range(n) for j in range(n)]
    return Arr([Dual(_A.atom(x)) for x in names], (n, n)), names


def rat_of(v):
    if isinstance(v, Dual):
        return v.a
    if isinstance(v, (int, float, Fraction)) and not isinstance(v, bool):
        return R(v) if not isinstance(v, float) else _A.const(v)
    raise EvalError(f"not a scalar: {v!r}")
