"""Semantic rules for the unconstrained trust-region driver (C01), decided on the symbolic paths of rules/C01_symx.py.

Nothing here looks at the names of locals or at the shape of statements.  Roles are derived from values:

  start point / objective / settings / callback   public parameters of the driver
  current iterate `$cur`                          ghost value: the start point, then the last point handed to the callback
  iterate variable                                the program variable that a loop relation ties to `$cur`
  reduction ratio                                 a quotient atom N/M that occurs in the comparisons decided on an accepting path
  trust-region radius                             the variable that holds `settings.tr_size` when the main loop is entered
  reference objective value                       the term of the ratio's numerator that is not the objective at the trial point

The obligations are statements over *all* symbolic paths (every combination of branch outcomes, one generic iteration of each loop
under the relations that every iteration preserves).
"""
from __future__ import annotations

import ast
from fractions import Fraction

from optilint.core import Incomplete
from optilint.model import FuncVal
from optilint.expr import Poly
from .common import src
from .C01_symx import (SymX, Budget, Unsupported, Num, Opq, Rec, NTType, FuncRef, Closure, Ext, Cmp, key, normalize_diff,
                       NEG, ZER, POS, UNO, ALL, vars_get, ref_get, ref_name)


def short(v, n=90):
    s = v if isinstance(v, str) else key(v)
    return s if len(s) <= n else s[:n - 3] + "..."


class Snap:
    __slots__ = ("rel", "truths", "vars", "decisions", "writes", "escaped")

    def __init__(self, st):
        self.rel = dict(st.rel)
        self.truths = dict(st.truths)
        self.vars = dict(st.rootvars())
        self.decisions = st.decisions
        self.writes = st.writes
        self.escaped = st.escaped


def path_text(decisions, n=6):
    ds = decisions.to_list() if hasattr(decisions, "to_list") else list(decisions)
    ds = [d for d in ds if not str(d[0]).startswith("for ")]
    return "; ".join(f"`{short(t, 60)}` is {b}" for (t, b) in ds[-n:])


# ------------------------------------------------------------------ the analysed driver

class DriverModel:
    """symbolic paths of the driver in one mode, with the ghost `$cur`"""

    def __init__(self, ctx, module, func, conv_name="is_converged", incremental=False, levels=(0, 1)):
        self.ctx = ctx
        self.sc = ctx.need(f"{module}:{func}")
        self.conv = ctx.need(f"{module}:{conv_name}")
        ps = self.sc.params()
        if len(ps) < 3:
            raise Incomplete(f"{func}: fewer than 3 parameters")
        self.obj_p, self.x_p = ps[0], ps[1]
        self.cb_p = "callback" if "callback" in ps + self.sc.kwonly() else None
        if self.cb_p is None:
            cands = [p for p in ps if isinstance(self.sc.default_of(p), ast.Constant) and self.sc.default_of(p).value is None]
            if not cands:
                raise Incomplete(f"{func}: no callback parameter")
            self.cb_p = cands[-1]
        self.settings_p = "settings" if "settings" in ps else [p for p in ps[2:] if p != self.cb_p][0]
        self.incremental = incremental
        assumptions = {f"T:{self.cb_p}": True, f"T:{self.settings_p}.use_incremental_objective": bool(incremental)}
        self.X = None
        err = None
        for level in levels:
            X = SymX(ctx.repo, self.sc, assumptions=assumptions, opaque={self.conv.qualname}, hooks=[self._hook], inline_level=level,
                     max_steps=250000, watch={self.cb_p})
            try:
                self.recs = X.analyse(ghost={"$cur": lambda st: st.rootvars()[self.x_p]})
                self.X = X
                break
            except Budget as e:
                err = e
        if self.X is None:
            raise Incomplete(f"{func}: too many symbolic paths ({err})")
        X = self.X
        for q, fsc in X.visited.items():
            ctx.touch(fsc)
        self.obj = X.sym(self.obj_p)
        self.settings = X.sym(self.settings_p)
        cps = self.conv.params()
        if len(cps) < 5:
            raise Incomplete("convergence test has fewer than 5 parameters")
        self.conv_point_i, self.conv_meas_i = 1, 4
        # loops, outermost first
        self.loops = sorted(X.loops.values(), key=lambda i: (len(i.header.loops), i.header.idx))
        # the iterate variable of every loop: the program variable that the loop's relation (kept or refuted) ties to `$cur`
        self.iter_var = None      # ref of the iterate variable of the outermost loop
        self.iter_vars = {}       # header idx -> ref of the variable (or tuple / record component) the loop's `$cur` relation names
        self.iter_alias = {}      # header idx -> refs of all program variables / components that hold `$cur` at the loop head
        for info in self.loops:
            for (ref, tmpl, deps) in list(info.kept) + [d[:3] for d in info.dropped]:
                if ref == ("g", "$cur") and len(deps) == 1 and deps[0][0] == key(tmpl):
                    self.iter_vars[info.header.idx] = deps[0][1]
                    if self.iter_var is None:
                        self.iter_var = deps[0][1]
                    break
            cur = info.head.ghost.get("$cur") if info.head is not None else None
            refs = set()
            if cur is not None:
                for ref in info.fresh:
                    if ref[0] == "g":
                        continue
                    v = ref_get(info.head, ref)
                    if v is not None and not isinstance(v, (str, bool, tuple)) and key(v) == key(cur):
                        refs.add(ref)
            if info.header.idx in self.iter_vars:
                refs.add(self.iter_vars[info.header.idx])
            self.iter_alias[info.header.idx] = refs

    def _hook(self, X, st, ev):
        if ev.fn == "store" or not ev.args or key(ev.fn) != self.cb_p:
            return
        P = ev.args[0]
        old = st.ghost.get("$cur")
        if old is not None and key(P) == key(old):
            return
        st.log = st.log.add(("report", ev, P, old, Snap(st)))
        st.ghost["$cur"] = P

    # ---- helpers on values
    def value_at(self, P):
        return self.X.mk_call(self.X.mk_attr(self.obj, "value"), [P], [])

    def gradient_at(self, P):
        return self.X.mk_call(self.X.mk_attr(self.obj, "gradient"), [P], [])

    def conv_calls(self, truths, want=True):
        """[(Opq call)] convergence-test calls decided `want` on the path"""
        out = []
        for k, b in truths.items():
            if b is not want or not isinstance(k, str) or not k.startswith("T:"):
                continue
            v = self.X.tvals.get(k)
            if isinstance(v, Opq) and v.kind == "call" and isinstance(v.parts[0], FuncRef) and v.parts[0].scope is self.conv:
                out.append(v)
        return out

    def conv_args(self, call):
        f, args, kwargs, _ = call.parts
        cps = self.conv.params()
        m = dict(zip(cps, args))
        m.update({n: v for n, v in kwargs})
        return m.get(cps[self.conv_point_i]), m.get(cps[self.conv_meas_i])

    def converged_at(self, truths, P):
        for c in self.conv_calls(truths):
            pt, ms = self.conv_args(c)
            if pt is not None and key(pt) == key(P):
                return c
        return None

    def unknown_callee(self, call):
        """an un-inlined repository function that received the objective or the callback (it may test convergence, accept or report)"""
        f, args, kwargs, _ = call.parts
        vals = list(args) + [x for _, x in kwargs]
        return any(not isinstance(a, (str, bool, type(None), tuple)) and key(a) in (self.obj_p, self.cb_p) for a in vals)

    def reports(self, rec):
        return [r for r in rec.st.log.to_list() if r[0] == "report"]

    def loop_of_node(self, node):
        return node.loops[-1] if node is not None and node.loops else None


def all_calls(X, v, _memo=None, _out=None):
    """all call terms inside a value"""
    if _memo is None:
        _memo, _out = set(), []
    if isinstance(v, (str, bool, type(None))) or not isinstance(v, (Num, Opq, tuple, Cmp, Rec)):
        return _out
    kv = key(v)
    if kv in _memo:
        return _out
    _memo.add(kv)
    subs = []
    if isinstance(v, tuple):
        subs = list(v)
    elif isinstance(v, Num):
        subs = [X.atoms[a] for a in v.p.atoms() if a in X.atoms]
    elif isinstance(v, Cmp):
        subs = [v.a, v.b]
    elif isinstance(v, Rec):
        subs = list(v.vals.values())
    elif isinstance(v, Opq):
        if v.kind == "call":
            _out.append(v)
            subs = [v.parts[0]] + list(v.parts[1]) + [x for _, x in v.parts[2]]
        elif v.kind == "attr":
            subs = [v.parts[0]]
        elif v.kind in ("item", "quot"):
            subs = [v.parts[0], v.parts[1]]
        elif v.kind == "op" and v.parts and v.parts[0] in ("@", "**", "//", "%"):
            subs = [v.parts[1], v.parts[2]]
    for x in subs:
        all_calls(X, x, _memo, _out)
    return _out


def escaped(M, st_or_snap):
    """the callback was handed to code that is not analysed on this path: reports may happen out of sight"""
    return M.cb_p in getattr(st_or_snap, "escaped", ())


def hidden_uses(M, truths, atoms):
    """decided truth values of opaque terms (calls of functions that are not analysed, ...) that mention one of the atoms"""
    X = M.X
    out = []
    for k, b in truths.items():
        if not isinstance(k, str) or not k.startswith("T:"):
            continue
        v = X.tvals.get(k)
        if v is None:
            continue
        if any(X.occurs(a, v) for a in atoms):
            out.append(v)
    return out


def unanalysed_guards(M, truths):
    """results of repository functions that could not be analysed (they contain a loop, ...) and on which a decision of the path depends:
    what was tested there is out of sight"""
    out = []
    for k, b in truths.items():
        if not isinstance(k, str) or not k.startswith("T:"):
            continue
        v = M.X.tvals.get(k)
        if v is None:
            continue
        out += [c for c in M.X.unanalysed_calls(v, skip=(M.conv.qualname,)) if M.unknown_callee(c)]
    return out


def settings_default(ctx, module, field):
    """literal default of a settings field in the module's settings factory (a function most of whose parameters are named like the
    fields of a namedtuple of the module), or None"""
    mod = ctx.need_module(module)
    cache = ctx.__dict__.setdefault("_c01_defaults", {})
    if (module, field) in cache:
        return cache[(module, field)]
    out = None
    X = SymX(ctx.repo, mod.scope.children[0]) if mod.scope.children else None
    nts = []
    if X is not None:
        for name in list(mod.scope.bindings):
            v = X.module_global(name)
            if isinstance(v, NTType):
                nts.append(v)
    for sc in mod.scope.children:
        if sc.kind == "function" and field in sc.params() + sc.kwonly():
            d = sc.default_of(field)
            if isinstance(d, ast.UnaryOp) and isinstance(d.op, ast.USub) and isinstance(d.operand, ast.Constant) and isinstance(d.operand.value, (int, float)):
                d = ast.Constant(value=-d.operand.value)
            if isinstance(d, ast.Constant) and isinstance(d.value, (int, float)) and not isinstance(d.value, bool):
                ps = set(sc.params() + sc.kwonly())
                if any(field in nt.fields and len(ps & set(nt.fields)) * 2 >= len(nt.fields) for nt in nts):
                    out = d.value
                    break
    cache[(module, field)] = out
    return out


def intrinsic_sign(X, p: Poly):
    """+1 if the polynomial is >= 0 for all values of its atoms because every monomial is a non-negative constant times even powers
    and intrinsically non-negative atoms (abs, norm, sqrt, square, v@v); -1 for <= 0; None otherwise"""
    def nonneg_atom(a):
        o = X.atoms.get(a)
        if not isinstance(o, Opq):
            return False
        if o.kind == "op" and o.parts and o.parts[0] == "@":
            return key(o.parts[1]) == key(o.parts[2])
        if o.kind == "call":
            f, args, kwargs, _ = o.parts
            name = (f.name if isinstance(f, Ext) else key(f)).split(".")[-1]
            if name in ("abs", "fabs", "absolute", "norm", "sqrt", "square", "exp"):
                return True
            if name in ("dot", "vdot", "inner") and len(args) == 2 and key(args[0]) == key(args[1]):
                return True
        return False
    signs = set()
    for m, c in p.t.items():
        for a, e in m:
            if e % 2 and not nonneg_atom(a):
                return None
        signs.add(1 if c > 0 else -1)
    if signs == {1}:
        return 1
    if signs == {-1}:
        return -1
    return None


def poly_sign_from_settings(M: DriverModel, p: Poly, module):
    """'>=0' / '<=0' / None for a polynomial whose atoms are admissible-nonnegative settings fields (literal default >= 0)"""
    signs = set()
    used = []
    for m, c in p.t.items():
        s = 1 if c > 0 else -1
        for a, e in m:
            pref = M.settings_p + "."
            if not a.startswith(pref) or "." in a[len(pref):] or "(" in a:
                return None, used
            d = settings_default(M.ctx, module, a[len(pref):])
            if d is None or d < 0:
                return None, used
            used.append(a)
        signs.add(s)
    if not signs or signs == {1}:
        return ">=0", used
    if signs == {-1}:
        return "<=0", used
    return None, used


# ------------------------------------------------------------------ D1: honest flag

def d1_flag(ctx, M: DriverModel, tag=""):
    rule = "D1/T1-guarded-success"
    sc, X = M.sc, M.X
    rets = [r for r in M.recs if r.kind == "return"]
    by_node = {}
    for r in rets:
        by_node.setdefault(r.node.idx, []).append(r)
    all_returns = [n for n in X.cfg.returns()]
    unreached = [n for n in all_returns if n.idx not in by_node and id(n) in X.cfg.reachable_entry()]
    for n in unreached:
        ctx.undecided(rule, sc, n.ast, construct=f"exit{tag}:{src(n.ast)}", detail="this return statement is not reached by the analysed paths")
    def understood(v):
        """the value is built from objective.gradient / hessian_vec / value at known points only: if it is not the gradient at the tested
        point as a term, it is not that gradient (results of other methods or functions might be)"""
        for c in all_calls(X, v):
            f = c.parts[0]
            if not (isinstance(f, Opq) and f.kind == "attr" and key(f.parts[0]) == M.obj_p and f.parts[1] in ("gradient", "hessian_vec", "value")):
                return False
        return True

    def judge(r):
        """(kind, verdict, reasons) of one returning path"""
        v = r.value
        if not (isinstance(v, tuple) and len(v) == 2):
            return "?", None, ["return value is not a (point, flag) pair"]
        P, flag = v
        if flag is False:
            return "failure", True, []
        if flag is True:
            calls = M.conv_calls(r.st.truths)
        elif isinstance(flag, Opq) and flag.kind == "call" and isinstance(flag.parts[0], FuncRef) and flag.parts[0].scope is M.conv:
            calls = [flag]
        else:
            return "?", None, [f"the flag `{short(flag)}` is neither a literal nor the value of the convergence test"]
        if not calls:
            ug = unanalysed_guards(M, r.st.truths)
            if ug:
                return "success", None, [f"success is reported behind `{short(ug[0])}`, a function this analysis cannot look into"]
            return "success", False, [f"success is reported on a path without a successful convergence test ({path_text(r.st.decisions)})"]
        maybe, local = False, []
        for c in calls:
            pt, ms = M.conv_args(c)
            same_pt = pt is not None and key(pt) == key(P)
            same_ms = ms is not None and pt is not None and key(ms) == key(M.gradient_at(pt))
            if same_pt and same_ms:
                return "success", True, []
            if not same_pt:
                if pt is not None and not X.definitely_differ(pt, P)[0]:
                    maybe = True
                local.append(f"convergence is tested at `{short(pt)}` but `{short(P)}` is returned")
            if not same_ms:
                if ms is not None and pt is not None and (not X.definitely_differ(ms, M.gradient_at(pt))[0] or not understood(ms)):
                    maybe = True
                local.append(f"the tested quantity is `{short(ms)}`, not the gradient at the tested point `{short(pt)}`")
        return "success", (None if maybe else False), local

    n_success = 0
    for k, idx in enumerate(sorted(by_node)):
        node = by_node[idx][0].node
        per_kind = {}
        for r in by_node[idx]:
            kind, verdict, why = judge(r)
            cur = per_kind.setdefault(kind, [True, []])
            if verdict is False or (verdict is None and cur[0] is True):
                cur[0] = verdict
            cur[1] += [w for w in why if w not in cur[1]]
        for kind in sorted(per_kind):
            verdict, why = per_kind[kind]
            if kind == "success":
                n_success += 1
            ctx.decide(rule, verdict, sc, node.ast, construct=f"exit{tag}#{k}:{kind}",
                       detail=("failure exit reports False" if kind == "failure" else
                               "success is reported only behind the convergence test of the returned point's own gradient"),
                       bad_detail="; ".join(why[:3]))
    if n_success < 1:
        ctx.undecided(rule, sc, None, construct=f"success-exits{tag}", detail="no success exit found")


def _norm_degree(X, v, meas_key, depth=0):
    """degree of homogeneity of a norm-like (non-negative, zero only at zero) function of the measure, or None"""
    if depth > 6:
        return None
    if isinstance(v, Num):
        v = X.simplify(v)
    if isinstance(v, Num):
        # monomial of norm-like atoms
        if len(v.p.t) != 1:
            return None
        (m, c), = v.p.t.items()
        if c <= 0:
            return None
        tot = Fraction(0)
        for a, e in m:
            o = X.atoms.get(a)
            d = _norm_degree(X, o, meas_key, depth + 1) if o is not None else None
            if d is None:
                return None
            tot += d * e
        return tot
    if not isinstance(v, Opq):
        return None
    if v.kind == "op" and v.parts and v.parts[0] == "@":
        if key(v.parts[1]) == meas_key and key(v.parts[2]) == meas_key:
            return Fraction(2)
        return None
    if v.kind == "call":
        f, args, kwargs, _ = v.parts
        name = (f.name if isinstance(f, Ext) else key(f)).split(".")[-1]
        if name in ("dot", "vdot", "inner") and len(args) == 2 and key(args[0]) == meas_key and key(args[1]) == meas_key:
            return Fraction(2)
        if name == "norm" and len(args) >= 1 and key(args[0]) == meas_key:
            return Fraction(1)
        if name == "sqrt" and len(args) == 1:
            d = _norm_degree(X, args[0], meas_key, depth + 1)
            return None if d is None else d / 2
        if name in ("max", "amax") and len(args) == 1:
            return _norm_degree(X, args[0], meas_key, depth + 1)
        if name in ("abs", "fabs", "absolute") and len(args) == 1 and key(args[0]) == meas_key:
            return Fraction(1)
        if name in ("sum",) and len(args) == 1:
            a = args[0]
            if isinstance(a, Num):
                a = X.simplify(a)
            if isinstance(a, Num) and len(a.p.t) == 1:
                (m, c), = a.p.t.items()
                if c > 0 and len(m) == 1 and m[0][0] == meas_key and m[0][1] % 2 == 0:
                    return Fraction(m[0][1])
    return None


def _mentions(X, v, k):
    return X.occurs(k, v)


def d1_conv(ctx, module, conv_name="is_converged"):
    """`True` is returned only under an upper bound on a norm of the optimality measure that is homogeneous with settings.tol"""
    rule = "D1/T1-convergence-test"
    conv = ctx.need(f"{module}:{conv_name}")
    cps = conv.params()
    meas, settings_p = cps[4], cps[-1]
    X = SymX(ctx.repo, conv, max_steps=60000)
    try:
        recs = X.analyse()
    except Budget as e:
        raise Incomplete(f"{conv_name}: {e}")
    tol_atom = f"{settings_p}.tol"
    rets = [r for r in recs if r.kind == "return"]
    n_true = 0
    verdict, shown = True, []
    other_ok, other_why = True, []
    for r in rets:
        v = r.value
        if v is False:
            continue
        if v is not True:
            other_ok = None
            other_why.append(f"returns `{short(v)}`")
            continue
        n_true += 1
        good = None
        local = []
        for k, (p, allowed) in r.st.rel.items():
            atoms = p.atoms()
            if not any(_mentions(X, X.atoms[a], meas) for a in atoms if a in X.atoms):
                continue
            # split into measure part and tolerance part
            mpart = {m: c for m, c in p.t.items() if any(a != tol_atom for a, _ in m)}
            tpart = {m: c for m, c in p.t.items() if m and all(a == tol_atom for a, _ in m)}
            cpart = p.t.get((), 0)
            al = allowed - {UNO} if allowed - {UNO} else allowed
            txt = f"{short(repr(p), 70)} in {sorted(allowed)}"
            if len(mpart) != 1 or len(tpart) != 1 or cpart != 0:
                local.append(txt + " [not of the form norm(measure)^k vs tol^k]")
                if good is None:
                    good = None
                continue
            (mm, mc), = mpart.items()
            (tm, tc), = tpart.items()
            dm = _norm_degree(X, Num(Poly({mm: abs(mc)})), meas)
            dt = Fraction(sum(e for _, e in tm))
            upper = (mc > 0 and tc < 0 and al <= {NEG, ZER}) or (mc < 0 and tc > 0 and al <= {POS, ZER})
            lower = (mc > 0 and tc < 0 and al <= {POS, ZER}) or (mc < 0 and tc > 0 and al <= {NEG, ZER})
            if dm is None:
                local.append(txt + " [measure part is not a recognised norm]")
                continue
            if UNO in allowed and upper:
                upper = False   # the bound does not hold for a NaN measure
                lower = True
            if upper and dm == dt and dm > 0:
                good = True
                local.append(txt + f" [upper bound, degree {dm} = {dt}]")
            else:
                if good is None:
                    good = False
                local.append(txt + f" [upper bound: {upper}, degree(measure) = {dm}, degree(tol) = {dt}]")
        if good is None and not local:
            good = False
            local.append("no comparison on the optimality measure is decided on this path")
        shown += local
        if good is not True:
            verdict = good if verdict is True or good is False else verdict
    if n_true:
        ctx.decide(rule, verdict, conv, conv.node, construct="return True",
                   detail="True only under " + "; ".join(dict.fromkeys(shown)),
                   bad_detail="`True` is not returned only under an upper bound on a norm of the optimality measure that is homogeneous with "
                              "settings.tol: " + "; ".join(dict.fromkeys(shown)))
    else:
        ctx.undecided(rule, conv, None, construct="true-exits", detail="no path returns True")
    ctx.decide(rule, other_ok, conv, conv.node, construct="otherwise False", detail="every other path returns False",
               bad_detail="; ".join(other_why))


# ------------------------------------------------------------------ D3: reported / returned iterate

def d3_reported(ctx, M: DriverModel, tag=""):
    rule = "D3/T2-reported-iterate"
    sc, X = M.sc, M.X
    # (a) loop relation: the iterate variable is the last reported point at every loop head
    if not M.loops:
        ctx.undecided(rule, sc, None, construct=f"main-loop{tag}", detail="the driver has no loop")
    for li, info in enumerate(M.loops):
        kept = [c for c in info.kept if c[0] == ("g", "$cur")]
        drop = [d for d in info.dropped if d[0] == ("g", "$cur")]
        hnode = info.header.ast if info.header.kind == "for" else info.header.stmt
        if kept:
            ctx.proved(rule, sc, hnode, construct=f"report-after-accept{tag}:loop{li}",
                       detail=f"at every iteration the iterate variable `{ref_name(kept[0][2][0][1])}` is the last point handed to the callback")
        elif drop:
            d = drop[0]
            pe, want, got = d[3], d[4], d[5]
            if escaped(M, pe.st):
                ctx.undecided(rule, sc, hnode, construct=f"report-after-accept{tag}:loop{li}",
                              detail="the callback is handed to a function this analysis cannot look into; reports may happen there")
                continue
            if got is not None and X.possibly_equal(want, got):
                ctx.undecided(rule, sc, hnode, construct=f"report-after-accept{tag}:loop{li}",
                              detail=f"cannot relate the iterate variable (`{short(want)}`) to the last reported point (`{short(got)}`) after the path [{path_text(pe.st.decisions)}]")
                continue
            ctx.refuted(rule, sc, hnode, construct=f"report-after-accept{tag}:loop{li}",
                        detail=f"an accepted iterate can reach the next iteration without being reported to the callback: on the path [{path_text(pe.st.decisions)}] "
                               f"the iterate variable `{ref_name(d[2][0][1])}` becomes `{short(want)}` while the last reported point is `{short(got)}`")
        else:
            ctx.undecided(rule, sc, hnode, construct=f"report-after-accept{tag}:loop{li}",
                          detail="no program variable holds the current iterate when the loop is entered")
    # (b) every new point handed to the callback is the converged point or becomes the value of the iterate variable (before the next report,
    #     the next iteration or the exit)
    bad, n_rep = [], 0
    for r in M.recs:
        reps = M.reports(r)
        for i, (_, ev, P, old, snap) in enumerate(reps):
            n_rep += 1
            if M.converged_at(snap.truths, P) is not None:
                continue
            ivs = set(M.iter_vars.values())
            for al in M.iter_alias.values():
                ivs |= al
            holds = lambda vars_, refs: any(vars_get(vars_, {}, rf) is not None and key(vars_get(vars_, {}, rf)) == key(P) for rf in refs)
            if holds(snap.vars, ivs):
                continue
            if i + 1 < len(reps):
                nxt = reps[i + 1][4].vars
                if holds(nxt, ivs):
                    continue
                later = vars_get(nxt, {}, M.iter_var) if M.iter_var else None
            elif r.kind == "return" and isinstance(r.value, tuple) and r.value:
                later = r.value[0]
            elif r.kind == "back" and r.loop is not None:
                iv = M.iter_vars.get(r.loop.idx)
                later = ref_get(r.st, iv) if iv else None
                if holds(r.st.rootvars(), M.iter_alias.get(r.loop.idx, ())):
                    continue
            else:
                continue        # the path goes on (loop exit / entry of a nested loop): judged at its end
            if later is not None and key(later) == key(P):
                continue
            bad.append((ev, P, old, snap, r, later is not None and not X.definitely_differ(later, P)[0]))
    seen = set()
    bad.sort(key=lambda b: b[5])
    for (ev, P, old, snap, r, maybe) in bad:
        k = (getattr(ev.top, "idx", None))
        if k in seen:
            continue
        seen.add(k)
        ctx.decide(rule, None if (escaped(M, r.st) or maybe) else False, sc, ev.top.ast if ev.top is not None and ev.top.ast is not None else ev.node,
                   construct=f"reported-point{tag}@{len(seen)}",
                   bad_detail=f"the point `{short(P)}` is handed to the callback although it is neither the iterate the solver continues from / returns "
                              f"(`{short(vars_get(snap.vars, {}, M.iter_var)) if M.iter_var else '?'}`) nor a point that passed the convergence test "
                              f"(path: {path_text(snap.decisions)})")
    if not bad:
        ctx.decide(rule, True if n_rep else None, sc, None, construct=f"reported-points{tag}",
                   detail=f"every point handed to the callback is the iterate the solver continues from, or the converged point ({n_rep} report events on the analysed paths)",
                   bad_detail="no callback event found on any path")
    # (c) every exit returns the last reported point (or the start point when nothing was reported)
    by_node = {}
    for r in M.recs:
        if r.kind == "return":
            by_node.setdefault(r.node.idx, []).append(r)
    for k, idx in enumerate(sorted(by_node)):
        paths = by_node[idx]
        verdict, why = True, []
        for r in paths:
            v = r.value
            if not (isinstance(v, tuple) and len(v) >= 1):
                verdict = None
                why.append("return value is not a tuple")
                break
            P = v[0]
            cur = r.st.ghost.get("$cur")
            if cur is not None and key(P) == key(cur):
                continue
            if escaped(M, r.st):
                verdict = None if verdict is True else verdict
                why.append("the callback is handed to a function this analysis cannot look into; reports may happen there")
                continue
            if cur is not None and not X.definitely_differ(P, cur)[0]:
                verdict = None if verdict is True else verdict
                why.append(f"cannot relate the returned `{short(P)}` to the last reported iterate `{short(cur)}`")
                continue
            verdict = False
            why.insert(0, f"returns `{short(P)}` while the last reported / accepted iterate is `{short(cur)}` (path: {path_text(r.st.decisions)})")
        ctx.decide(rule, verdict, sc, paths[0].node.ast, construct=f"returned-point{tag}#{k}",
                   detail="returns the last point handed to the callback (the start point if none was)",
                   bad_detail="; ".join(list(dict.fromkeys(why))[:2]))


# ------------------------------------------------------------------ D2: descent

def _quot_atoms(X, p: Poly):
    """quotient atoms the polynomial is linear in, standing alone in their monomial: the comparison is a comparison *of that quotient*"""
    return [a for a in p.atoms() if a in X.quot and p.degree_in(a) == 1 and ((a, 1),) in p.t
            and sum(1 for m in p.t if any(x == a for x, _ in m)) == 1]


def _ratio_facts(M, snap, module):
    """[(Q atom, 'lower'|'upper', bound Poly, sign of bound, text)] from the decided comparisons that are linear in a quotient atom"""
    X = M.X
    out, seen_q = [], []
    for k, (p, allowed) in snap.rel.items():
        for q in _quot_atoms(X, p):
            if p.degree_in(q) != 1:
                continue
            cq = None
            rest = {}
            okq = True
            for m, c in p.t.items():
                dm = dict(m)
                if q in dm:
                    if len(m) != 1:
                        okq = False
                        break
                    cq = c
                else:
                    rest[m] = c
            if not okq or cq is None:
                continue
            seen_q.append((q, p, allowed))
            # cq*Q + R  in allowed
            bound = Poly({m: -c / cq for m, c in rest.items()})
            al = allowed
            if al <= {POS, ZER}:
                kind = "lower" if cq > 0 else "upper"
            elif al <= {NEG, ZER}:
                kind = "upper" if cq > 0 else "lower"
            else:
                continue
            if bound.is_const():
                cv = bound.const_value()
                sgn, used = (">=0" if cv > 0 else "<=0" if cv < 0 else "=0"), []
            else:
                sgn, used = poly_sign_from_settings(M, bound, module)
            out.append((q, kind, bound, sgn, used))
    return out, seen_q


def d2_descent(ctx, M: DriverModel, module):
    rule = "D2/T8-descent"
    sc, X = M.sc, M.X
    accepts = []
    seen_ev = set()
    for r in M.recs:
        for (_, ev, P, old, snap) in M.reports(r):
            if ev.seq in seen_ev:
                continue
            seen_ev.add(ev.seq)
            if M.converged_at(snap.truths, P) is not None:
                continue
            accepts.append((ev, P, old, snap))
    if not accepts:
        ctx.undecided(rule, sc, None, construct="accepted-steps", detail="no path reports a new (non-converged) iterate")
        return
    node = accepts[0][0].top.ast if accepts[0][0].top is not None else None
    res = {k: [True, []] for k in ("accept=>ratio>=c>=0", "ratio-denominator-sign", "actual-reduction-definition",
                                   "reference-objective-is-current", "accepted-point-is-trial-point", "descent")}

    def fail(k, verdict, msg):
        cur = res[k][0]
        if verdict is False or cur is True:
            res[k][0] = verdict if not (cur is False) else False
        if msg not in res[k][1]:
            res[k][1].append(msg)
    assumed = set()
    stale_ref = False
    stale_definite = [False]
    for (ev, P, old, snap) in accepts:
        pt = path_text(snap.decisions, 8)
        facts, seen_q = _ratio_facts(M, snap, module)
        signed = []      # (Q, sign of Q: +1 means Q >= 0, -1 means Q <= 0)
        for (q, kind, bound, sgn, used) in facts:
            if kind == "lower" and sgn in (">=0", "=0"):
                signed.append((q, +1, bound, used))
            elif kind == "upper" and sgn in ("<=0", "=0"):
                signed.append((q, -1, bound, used))
        if not signed:
            lows = [f"ratio {'>=' if kind == 'lower' else '<='} {short(repr(bound), 40)}" for (q, kind, bound, sgn, used) in facts]
            if any(sgn is None and kind == "lower" for (q, kind, bound, sgn, used) in facts):
                fail("accept=>ratio>=c>=0", None, f"on the accepting path [{pt}] the ratio is bounded below by `{lows[0]}`, whose sign is not known "
                                                 f"(no literal non-negative default of that setting found)")
                continue
            def sign_forgetting(a):
                o = X.atoms.get(a)
                if isinstance(o, Opq) and o.kind == "call":
                    f = o.parts[0]
                    return (f.name if isinstance(f, Ext) else key(f)).split(".")[-1] in ("abs", "fabs", "absolute", "square")
                return False
            # quotients that look like the reduction ratio: tested on this path, or built from objective values
            rq = sorted({q for (q, _, _) in seen_q} | {q for q in X.quot if any(
                isinstance(X.atoms.get(a), Opq) and X.atoms[a].kind == "call" and isinstance(X.atoms[a].parts[0], Opq) and X.atoms[a].parts[0].kind == "attr"
                and X.atoms[a].parts[0].parts[1] == "value" for a in X.quot[q][0].atoms())})
            hid = hidden_uses(M, snap.truths, rq) + [p for (p, al) in snap.rel.values() if not _quot_atoms(X, p) and any(
                X.occurs(q, X.atoms[a]) and not sign_forgetting(a) for a in p.atoms() if a in X.atoms for q in rq)]
            if hid or escaped(M, snap):
                fail("accept=>ratio>=c>=0", None, f"on the accepting path [{pt}] the reduction ratio is tested inside a construct this analysis cannot look into "
                                                 f"(`{short(hid[0]) if hid else 'callback escapes'}`)")
            else:
                fail("accept=>ratio>=c>=0", False, f"a step is accepted on the path [{pt}] without the reduction ratio being bounded below by a non-negative "
                                                  f"threshold ({'; '.join(lows) if lows else 'no lower bound on a ratio is decided on this path'})")
            continue
        proved_here = False
        msgs = {}
        for (q, qs, bound, used) in signed:
            N, Mden = X.quot[q]
            for a in used:
                assumed.add(a)
            # sign of the denominator from the decided comparisons
            kM = repr(Mden)
            ent = snap.rel.get(kM)
            al = (ent[1] - {UNO}) if ent is not None else ALL
            intr = intrinsic_sign(X, Mden)
            if intr is not None:
                al = al & ({POS, ZER} if intr > 0 else {NEG, ZER})
            if al <= {POS, ZER}:
                ms = +1
            elif al <= {NEG, ZER}:
                ms = -1
            else:
                msgs.setdefault("ratio-denominator-sign", (None, f"the sign of the denominator `{short(repr(Mden), 70)}` of the reduction ratio is not decided on "
                                                                 f"the accepting path [{pt}]"))
                continue
            ns = qs * ms        # sign of N
            # N must be k * (value(T) - ref)
            vP, vold = key(M.value_at(P)), key(M.value_at(old)) if old is not None else None
            atoms = sorted(N.atoms())
            val_atoms = []
            for a in atoms:
                o = X.atoms.get(a)
                if isinstance(o, Opq) and o.kind == "call" and isinstance(o.parts[0], Opq) and o.parts[0].kind == "attr" \
                        and o.parts[0].parts[1] == "value" and key(o.parts[0].parts[0]) == M.obj_p and len(o.parts[1]) == 1:
                    val_atoms.append(a)
            lin = all(len(m) == 1 and m[0][1] == 1 for m in N.t)
            if not lin or len(N.t) != 2 or sum(N.t.values()) != 0 or not val_atoms:
                # a call of something this analysis cannot look into may well compute the difference of objective values
                hidden = [a for a in atoms if isinstance(X.atoms.get(a), Opq) and X.atoms[a].kind in ("call", "item", "attr", "fresh", "gen") and a not in val_atoms
                          and not (X.atoms[a].kind == "call" and isinstance(X.atoms[a].parts[0], Opq) and X.atoms[a].parts[0].kind == "attr"
                                   and key(X.atoms[a].parts[0].parts[0]) == M.obj_p)]
                msgs.setdefault("actual-reduction-definition", (False if (not val_atoms and len(signed) == 1 and not hidden) else None,
                                f"in default mode the numerator of the reduction ratio is `{short(repr(N), 90)}`, not a difference "
                                f"objective.value(trial point) - reference value"))
                continue
            # which atom is the trial value
            trial = vP if vP in atoms else None
            others = [a for a in atoms if a != trial]
            if trial is None:
                tv = [a for a in val_atoms if a != vold]
                shown = tv[0] if tv else val_atoms[0]
                definite = X.definitely_differ(X.atoms[shown], M.value_at(P))[0]
                msgs.setdefault("accepted-point-is-trial-point", (False if definite else None,
                                                                  f"the accepted / reported point is `{short(P)}` but the reduction was measured at `{short(shown)}`"))
                continue
            ref = others[0]
            if ref != vold:
                extra = ""
                if old is None or ref not in X.atoms:
                    definite = True
                else:
                    definite, wit = X.definitely_differ(X.atoms[ref], M.value_at(old))
                    if wit is not None:
                        extra = (f": after an iteration along the path [{path_text(wit.st.decisions)}] the loop goes on with the iterate "
                                 f"`{short(wit.st.ghost.get('$cur'))}` while the reference value is still measured at the earlier point")
                if definite:
                    stale_definite[0] = True
                msgs.setdefault("reference-objective-is-current", (False if definite else None,
                                                                   f"the reduction is measured against `{short(ref)}`, which is not the objective at the current iterate "
                                                                   f"`{short(old)}` (stale or foreign reference value)" + extra))
                stale_ref = True
                continue
            kcoef = N.t[((trial, 1),)]     # N = kcoef * (value(P) - value(old))
            dsign = ns * (1 if kcoef > 0 else -1)      # sign of value(P) - value(old)
            if dsign <= 0:
                proved_here = True
            else:
                msgs.setdefault("descent", (False, f"on the accepting path [{pt}] the ratio `{short(q, 70)}` is {'>=' if qs > 0 else '<='} 0 with a "
                                                   f"{'non-negative' if ms > 0 else 'non-positive'} denominator `{short(repr(Mden), 50)}`: this implies "
                                                   f"objective.value({short(P, 30)}) - objective.value({short(old, 30)}) >= 0, i.e. the accepted step does not decrease the objective"))
                # a definite wrong sign of the denominator is the broken construct
                msgs.setdefault("ratio-denominator-sign", (False, f"the denominator `{short(repr(Mden), 70)}` of the reduction ratio has the wrong sign on the path [{pt}]: "
                                                                  f"ratio >= 0 does not imply an actual reduction there"))
        if not proved_here:
            if not msgs:
                msgs["descent"] = (None, f"descent not derived on the path [{pt}]")
            for k, (v, m) in msgs.items():
                fail(k, v, m)
    # a failure of an earlier link leaves the later ones undecided rather than proved
    order = ["accept=>ratio>=c>=0", "ratio-denominator-sign", "actual-reduction-definition", "accepted-point-is-trial-point",
             "reference-objective-is-current", "descent"]
    broken = False
    for k in order:
        v, msgs = res[k]
        if broken and v is True:
            continue        # not reached: neither proved nor refuted (the refutation above stands)
        ctx.decide(rule, v, sc, node, construct=k, detail={
            "accept=>ratio>=c>=0": "every accepting path decides ratio >= c with c >= 0",
            "ratio-denominator-sign": "the denominator of the ratio has a decided sign on every accepting path",
            "actual-reduction-definition": "numerator = -(objective.value(trial) - reference)",
            "reference-objective-is-current": "reference value = objective.value(current iterate) by the loop relations",
            "accepted-point-is-trial-point": "the reported point is the trial point whose reduction was measured",
            "descent": "objective.value(accepted) - objective.value(current) <= 0 on every accepting path"}[k],
            bad_detail=" | ".join(msgs[:2]))
        if v is not True:
            broken = True
    for a in sorted(assumed):
        ctx.assume(f"{a} >= 0 (admissible acceptance threshold; its default is non-negative)")
    # the reference value is kept fresh across the iterations of every loop
    for li, info in enumerate(M.loops):
        hnode = info.header.ast if info.header.kind == "for" else info.header.stmt
        dropped = []
        for d in info.dropped:
            tmpl = d[1]
            if isinstance(tmpl, Opq) and tmpl.kind == "call" and isinstance(tmpl.parts[0], Opq) and tmpl.parts[0].kind == "attr" and tmpl.parts[0].parts[1] == "value":
                dropped.append(d)
        if dropped and stale_ref and stale_definite[0]:
            d = dropped[0]
            ctx.refuted(rule, sc, hnode, construct=f"reference-objective-fresh:loop{li}",
                        detail=f"the variable `{ref_name(d[0])}` holds objective.value of the iterate when the loop is entered, but on the path [{path_text(d[3].st.decisions)}] "
                               f"the iterate becomes `{short(ref_get(d[3].st, M.iter_var)) if M.iter_var else '?'}` and `{ref_name(d[0])}` stays `{short(d[5])}`: "
                               f"later reductions are measured against a stale value")
        else:
            ctx.proved(rule, sc, hnode, construct=f"reference-objective-fresh:loop{li}",
                       detail="the reference objective value follows the iterate through every iteration")


# ------------------------------------------------------------------ D4: NaN polarity

def d4_nan(ctx, M: DriverModel, module, tag=""):
    rule = "D4/T12-nan-polarity"
    sc, X = M.sc, M.X
    if not M.loops:
        ctx.undecided(rule, sc, None, construct="main-loop", detail="no loop")
        return
    # radius role: variables that hold settings.tr_size when the outermost loop is entered
    outer = M.loops[0]
    outer_entry = outer.entry if outer.entry is not None else outer.pre
    trk = key(X.mk_attr(M.settings, "tr_size"))
    def prog_refs(info):
        return [rf for rf in info.fresh if rf[0] != "g"]

    def scalar(v):
        return v is not None and not isinstance(v, (str, bool, tuple, Rec))
    radius = [rf for rf in prog_refs(outer) if scalar(ref_get(outer_entry, rf)) and key(ref_get(outer_entry, rf)) == trk]
    if not radius:
        radius = [rf for rf in prog_refs(outer) if scalar(ref_get(outer_entry, rf)) and X.occurs(trk, ref_get(outer_entry, rf))]
    nan_paths = []
    for r in M.recs:
        if r.loop is None or r.st.origin != r.loop.idx:
            continue
        # only facts decided on this path segment (not inherited from the loop entry)
        info = X.loops.get(r.loop.idx)
        inherited = set(info.head.rel) if info is not None else set()
        qfacts = [(p, al) for k, (p, al) in r.st.rel.items() if _quot_atoms(X, p) and (k not in inherited or info.head.rel[k][1] != al)]
        if not qfacts:
            continue
        if all(UNO in al for (p, al) in qfacts):
            nan_paths.append(r)
    if not nan_paths:
        ctx.undecided(rule, sc, None, construct=f"nan-ratio-rejects-step{tag}", detail="no path decides a comparison on a reduction ratio")
        return
    acc = []
    for r in nan_paths:
        for (_, ev, P, old, snap) in M.reports(r):
            if M.converged_at(snap.truths, P) is None:
                acc.append((r, P))
        for iv in sorted(M.iter_alias.get(r.loop.idx, ()), key=repr):
            info = X.loops.get(r.loop.idx)
            h0 = ref_get(info.head, iv)
            now = ref_get(r.st, iv)
            if h0 is not None and now is not None and key(h0) != key(now) and not any(x[0] is r for x in acc):
                acc.append((r, now))
    hid = []
    for (r, P) in acc:
        tested = sorted({q for (p, al) in r.st.rel.values() for q in _quot_atoms(X, p)})
        hid += hidden_uses(M, r.st.truths, tested)
    ctx.decide(rule, (not acc) or (None if hid or any(escaped(M, r.st) for r, _ in acc) else False), sc, None, construct=f"nan-ratio-rejects-step{tag}",
               detail=f"on the {len(nan_paths)} paths where every comparison on the reduction ratio is false (NaN) no step is accepted",
               bad_detail=("with a NaN reduction ratio a step is accepted: on the path [" + path_text(acc[0][0].st.decisions, 8) + f"] the iterate becomes `{short(acc[0][1])}`") if acc else "")
    if not radius:
        ctx.undecided(rule, sc, None, construct=f"nan-ratio-shrinks-radius{tag}", detail="no variable holds settings.tr_size when the main loop is entered")
        return
    # the radius variables of every loop: those that hold the radius of the enclosing loop when the loop is entered
    rad = {outer.header.idx: set(radius)}
    for info in M.loops[1:]:
        parents = [l for l in info.header.loops if l.idx in rad]
        if not parents:
            continue
        par = X.loops.get(parents[-1].idx)
        pvals = {key(ref_get(par.head, rf)) for rf in rad[parents[-1].idx] if ref_get(par.head, rf) is not None}
        rad[info.header.idx] = {rf for rf in prog_refs(info) if scalar(ref_get(info.pre, rf)) and key(ref_get(info.pre, rf)) in pvals}
    verdict, why = True, []
    rv = ref_name(radius[0])
    for r in nan_paths:
        info = X.loops.get(r.loop.idx)
        refs = rad.get(r.loop.idx) or set()
        curs = {rf: ref_get(info.head, rf) for rf in refs if ref_get(info.head, rf) is not None}
        if not curs:
            verdict = None if verdict is True else verdict
            why.append("radius unknown at the loop head")
            continue
        rv = ref_name(sorted(curs, key=repr)[0])
        changes = {}        # ref -> (position of the write, new value)
        for i, (name, val, node) in enumerate(r.st.writes.to_list()):
            for rf in curs:
                if rf in changes:
                    continue
                if rf[0] == "h":
                    nv = val if name == rf else None
                elif isinstance(name, str) and rf[1] == name:
                    nv = vars_get({name: val}, {}, rf)
                else:
                    nv = None
                if nv is not None and key(nv) != key(curs[rf]):
                    changes[rf] = (i, nv)
        if not changes:
            verdict = False
            why.insert(0, f"with a NaN reduction ratio the radius `{rv}` is left unchanged on the path [{path_text(r.st.decisions, 8)}]: the solver can stall on NaN steps")
            continue
        # the variable that is changed first carries the update
        rf0 = min(changes, key=lambda rf: changes[rf][0])
        rv, val, cur = ref_name(rf0), changes[rf0][1], curs[rf0]
        ratio = X.div(val, cur) if not isinstance(val, (str, bool, type(None), tuple)) else None
        c = X.const_of(ratio) if isinstance(ratio, Num) else None
        f = None
        if c is None and isinstance(ratio, Opq) and ratio.kind == "attr" and key(ratio.parts[0]) == M.settings_p:
            f = settings_default(ctx, module, ratio.parts[1])
            if f is not None:
                ctx.assume(f"{key(ratio)} keeps the side of 1 of its default {f} (admissible radius update factor)")
        fac = c if c is not None else f
        if fac is None:
            if verdict is True:
                verdict = None
            why.append(f"with a NaN ratio the radius becomes `{short(val)}`; cannot tell whether that is smaller")
        elif not (0 <= fac < 1):
            verdict = False
            why.append(f"with a NaN reduction ratio the radius is multiplied by {short(ratio)} (= {float(fac):g}) on the path [{path_text(r.st.decisions, 8)}]: it does not shrink")
    ctx.decide(rule, verdict, sc, None, construct=f"nan-ratio-shrinks-radius{tag}",
               detail=f"on every NaN path the first change of the radius `{rv}` multiplies it by a factor in [0, 1)",
               bad_detail="; ".join(list(dict.fromkeys(why))[:2]))


# ------------------------------------------------------------------ D1: parameters before the solve

def _stores_parameters(ctx):
    """predicate(scope): a function of another module that is load-step glue -- it (or a function it calls, depth 3) assigns a `.p`
    attribute or calls a method that does.  Such helpers are executed in line by the path executor, so that the assignment of the
    objective's parameters is seen wherever the maintainers moved it."""
    repo = ctx.repo
    setters = set()
    for s_ in repo.functions():
        if s_.cls is not None and s_.name != "__init__":
            if any(isinstance(n, ast.Attribute) and isinstance(n.ctx, ast.Store) and n.attr == "p" for n in ast.walk(s_.node)):
                setters.add(s_.name)
    cache = {}

    def touches(sc, depth, seen):
        if id(sc) in seen or depth > 3:
            return False
        seen.add(id(sc))
        for n in ast.walk(sc.node):
            if isinstance(n, ast.Attribute) and isinstance(n.ctx, ast.Store) and n.attr == "p":
                return True
            if isinstance(n, ast.Call) and isinstance(n.func, ast.Attribute) and n.func.attr in setters:
                return True
        for n in ast.walk(sc.node):
            if isinstance(n, ast.Call):
                try:
                    vals = repo.resolve(n.func, sc)
                except Exception:
                    vals = ()
                for v in vals:
                    if isinstance(v, FuncVal) and touches(v.scope, depth + 1, seen):
                        return True
        return False

    def tiny(sc):
        """a pure expression helper: a few assignments and a return, no calls of repository functions"""
        body = [st for st in sc.node.body if not (isinstance(st, ast.Expr) and isinstance(st.value, ast.Constant))]
        if not body or len(body) > 4 or not all(isinstance(st, (ast.Assign, ast.Return)) for st in body) or not isinstance(body[-1], ast.Return):
            return False
        for n in ast.walk(sc.node):
            if isinstance(n, ast.Call):
                try:
                    vals = repo.resolve(n.func, sc)
                except Exception:
                    return False
                if any(isinstance(v, FuncVal) for v in vals):
                    return False
        return True

    def pred(sc):
        k = id(sc)
        if k not in cache:
            cache[k] = sc.kind == "function" and sc.cls is None and not sc.module.is_test and (touches(sc, 0, set()) or tiny(sc))
        return cache[k]
    return pred


def d1_params(ctx, module, func, driver_func):
    rule = "D1/T2-parameters-before-solve"
    sc = ctx.need(f"{module}:{func}")
    drv = ctx.need(f"{module}:{driver_func}")
    ps = sc.params() + sc.kwonly()
    obj_p = sc.params()[0]
    if "p" not in ps:
        raise Incomplete(f"{func} has no parameter `p`")
    solver_ps = []
    for p_ in ps:
        d = sc.default_of(p_)
        if d is not None and any(getattr(v, "scope", None) is drv for v in ctx.repo.resolve(d, sc.parent)):
            solver_ps.append(p_)
    X = SymX(ctx.repo, sc, max_steps=80000, inline_other=_stores_parameters(ctx))
    try:
        recs = X.analyse()
    except Budget as e:
        raise Incomplete(f"{func}: {e}")
    rets = [r for r in recs if r.kind == "return"]
    if not rets:
        raise Incomplete(f"{func}: no path returns")

    def is_solve(ev):
        if ev.fn == "store":
            return False
        if isinstance(ev.fn, FuncRef):
            return ev.fn.scope is drv
        return key(ev.fn) in solver_ps or key(ev.fn) == "solver_algorithm"

    def is_warm(ev):
        # the predictor: a function of the warm-start module that was not inlined (i.e. not a piece of load-step glue that assigns the
        # parameters), whatever it is called
        return ev.fn != "store" and isinstance(ev.fn, FuncRef) and (ev.fn.scope.name.startswith("warm_start_increment") or
                                                                    ev.fn.scope.module.name == "optimism.WarmStart")
    cell = (obj_p, "p")
    # methods of repository classes whose body is `self.p = <parameter>`: a call `objective.m(v)` assigns the parameters like `objective.p = v`
    setter_arg = {}
    for s_ in ctx.repo.functions():
        if s_.cls is None or s_.name == "__init__" or len(s_.params()) < 2:
            continue
        for n in ast.walk(s_.node):
            if isinstance(n, ast.Assign) and len(n.targets) == 1 and isinstance(n.targets[0], ast.Attribute) and n.targets[0].attr == "p" \
                    and isinstance(n.targets[0].value, ast.Name) and n.targets[0].value.id == s_.params()[0] and isinstance(n.value, ast.Name) \
                    and n.value.id in s_.params()[1:]:
                setter_arg.setdefault(s_.name, set()).add((s_.params().index(n.value.id) - 1, n.value.id))

    def setter_value(ev):
        """the value a call `objective.<setter>(...)` stores in objective.p, else None"""
        f = ev.fn
        if ev.fn == "store" or not (isinstance(f, Opq) and f.kind == "attr" and len(f.parts) == 2 and key(f.parts[0]) == obj_p and f.parts[1] in setter_arg):
            return None
        vals = set()
        for pos, pname in setter_arg[f.parts[1]]:
            kw = dict(ev.kwargs)
            v = kw.get(pname, ev.args[pos] if pos < len(ev.args) else None)
            vals.add(key(v) if v is not None else None)
        if len(vals) == 1 and None not in vals:
            (pos, pname), = list(setter_arg[f.parts[1]])[:1]
            return dict(ev.kwargs).get(pname, ev.args[pos] if pos < len(ev.args) else None)
        return None

    def cell_at(evs, e):
        """objective.p when the event e happens: the last direct store or setter call before it"""
        last = None
        for e2 in evs:
            if e2.seq >= e.seq:
                break
            sv = setter_value(e2)
            if sv is not None:
                last = (e2.seq, sv)
            elif e2.fn == "store" and len(e2.args) == 3 and key(e2.args[0]) == obj_p and e2.args[1] == "p":
                last = (e2.seq, e2.args[2])
        if last is not None:
            return last[1]
        return e.heap.get(cell)
    v1, w1 = True, []
    v2, w2 = True, []
    v3, w3 = True, []
    v4, w4 = True, []
    n_solve = n_warm = 0
    solve_node = warm_node = None
    for r in rets:
        evs = r.st.events.to_list()
        solves = [e for e in evs if is_solve(e)]
        if not solves:
            v1 = None if v1 is True else v1
            w1.append(f"no nonlinear solve on the path [{path_text(r.st.decisions)}]")
        for e in solves:
            n_solve += 1
            solve_node = solve_node or e.node
            hv = cell_at(evs, e)
            if hv is None:
                v1 = False
                w1.append(f"the path [{path_text(r.st.decisions)}] reaches the nonlinear solve without `{obj_p}.p = p`: the solve (and its success flag) "
                          f"would refer to the previous load step's parameters")
            elif key(hv) != "p":
                v1 = False
                w1.append(f"`{obj_p}.p` is `{short(hv)}` when the solve starts, not the parameters the caller asked to solve for")
            if not e.args or key(e.args[0]) != obj_p:
                v1 = None if v1 is True else v1
                w1.append(f"the solver is called on `{short(e.args[0]) if e.args else '?'}`, not on the objective")
        for e in [e for e in evs if is_warm(e)]:
            n_warm += 1
            warm_node = warm_node or e.node
            if cell_at(evs, e) is not None:
                v2 = False
                w2.append(f"`{obj_p}.p` is assigned before the warm start (path [{path_text(r.st.decisions)}]), so the predictor sees p_new - p_new = 0")
            cps = e.fn.scope.params()
            m = dict(zip(cps, e.args))
            m.update(dict(e.kwargs))
            a0, a2 = m.get(cps[0]), m.get(cps[2]) if len(cps) > 2 else None
            if not (a0 is not None and key(a0) == obj_p and a2 is not None and key(a2) == "p"):
                v3 = False
                w3.append(f"warm start is called as {e.fn.scope.name}({', '.join(short(a, 30) for a in e.args)})")
        # the flag returned to the caller is the flag of that solve
        v = r.value
        okf = False
        if isinstance(v, tuple) and len(v) == 2 and solves:
            want = X.getitem(solves[-1].result, X.num(1))
            okf = key(v[1]) == key(want)
        if not okf:
            v4 = False
            w4.append(f"{func} returns `{short(v)}`; the flag is not the solver's own success flag")
    if n_solve == 0:
        raise Incomplete(f"{func}: nonlinear solve call not found")
    if n_warm == 0:
        raise Incomplete(f"{func}: warm start call not found")
    ctx.decide(rule, v1, sc, solve_node, construct="params-assigned-before-solve", detail=f"`{obj_p}.p` is the requested `p` whenever the solve starts ({n_solve} solve events)",
               bad_detail="; ".join(list(dict.fromkeys(w1))[:2]))
    ctx.decide(rule, v2, sc, warm_node, construct="warm-start-sees-old-params", detail="no assignment of the new parameters precedes the warm start",
               bad_detail="; ".join(list(dict.fromkeys(w2))[:2]))
    ctx.decide(rule, v3, sc, warm_node, construct="warm-start-arguments", detail=f"warm start receives the objective and the new parameters",
               bad_detail="; ".join(list(dict.fromkeys(w3))[:2]))
    ctx.decide(rule, v4, sc, rets[0].node.ast, construct="flag-is-solver-flag", detail="returned flag is the second result of the solver call",
               bad_detail="; ".join(list(dict.fromkeys(w4))[:2]))
    # the solver works in scaled coordinates: it starts from objective.scaling * x0 (plus the warm-start increment) and its result is mapped back with
    # objective.invScaling
    x0_p = sc.params()[1]
    v5, w5 = True, []
    for r in rets:
        evs = r.st.events.to_list()
        solves = [e for e in evs if is_solve(e)]
        v = r.value
        if not (isinstance(v, tuple) and len(v) == 2 and solves):
            v5 = None if v5 is True else v5
            continue
        e = solves[-1]
        want_back = X.mul(X.mk_attr(X.sym(obj_p), "invScaling"), X.getitem(e.result, X.num(0)))
        if key(v[0]) != key(want_back):
            attrs = [a for a in (X.num(v[0]).p.atoms() if not isinstance(v[0], (str, bool, tuple, type(None))) else []) if a.startswith(obj_p + ".")]
            definite = bool(attrs) and X.occurs(key(X.getitem(e.result, X.num(0))), v[0])
            v5 = False if definite else (None if v5 is True else v5)
            w5.append(f"the solver's point is mapped back as `{short(v[0])}`, not as {obj_p}.invScaling * (solver point)")
        start = e.args[1] if len(e.args) > 1 else None
        want_start = X.mul(X.mk_attr(X.sym(obj_p), "scaling"), X.sym(x0_p))
        if start is None or isinstance(start, (str, bool, tuple)) or not (key(start) == key(want_start) or X.occurs(key(want_start), start) or
                                                                         all(a in X.num(start).p.atoms() for a in X.num(want_start).p.atoms())):
            v5 = None if v5 is True else v5
            w5.append(f"the solver starts from `{short(start)}`; expected {obj_p}.scaling * {x0_p} (plus the warm-start increment)")
    ctx.decide(rule, v5, sc, rets[0].node.ast, construct="scaled-coordinates-round-trip", detail=f"start = {obj_p}.scaling * {x0_p} (+ warm start), result = {obj_p}.invScaling * solver point",
               bad_detail="; ".join(list(dict.fromkeys(w5))[:2]))
    ok = bool(solver_ps)
    d = sc.default_of(solver_ps[0]) if solver_ps else sc.default_of("solver_algorithm")
    ctx.decide(rule, ok, sc, d, construct="default-solver", detail=f"default solver is {driver_func}",
               bad_detail=f"no parameter of {func} defaults to {driver_func} (default solver is `{src(d)}`)")


# ------------------------------------------------------------------ D1: Objective evaluates under its current parameters

def _strip_jit(v):
    while isinstance(v, Opq) and v.kind == "call" and isinstance(v.parts[0], Ext) and v.parts[0].name.split(".")[-1] in ("jit", "filter_jit", "checkpoint") \
            and len(v.parts[1]) >= 1:
        v = v.parts[1][0]
    return v


_DERIVATIVE_OF = ("grad", "value_and_grad", "jacfwd", "jacrev", "jacobian", "hessian")


def evaluations_at(X, st, v, xkeys, node, budget=4000):
    """Parameter flow of a computed value.  Returns (leaves, blocked): `leaves` are the evaluations (callee, arguments, keyword arguments,
    inside a jit-compiled function?) of
    functions this analysis cannot look into (functions handed to the constructor, members of such objects) that take place at the
    call-time point -- a value in which one of `xkeys` occurs -- while `v` is computed; `blocked` lists repository code on the way that
    could not be interpreted.  Seen through: jit wrappers, closures / partial applications / repository functions (stored on the object
    or built by helper factories), the derivative transforms (d F at (x, p, ...) evaluates F at (x, p, ...); jvp / vjp / linearize of G
    at the primals evaluate G at the primals) and library functions of their arguments."""
    from .C01_symx import Decider, Partial, BoundMethod, ClassRef, DictV
    leaves, blocked, memo = [], [], set()
    left = [budget]
    jit_depth = [0]

    def at_point(args):
        return any(not isinstance(a, (str, bool, type(None))) and X.occurs(k, a) for a in args for k in xkeys)

    def apply(f, args, kwargs, origin):
        """the value of f(*args, **kwargs) with f a callable value"""
        g = _strip_jit(f)
        jit_depth[0] += g is not f
        try:
            apply_plain(g, args, kwargs, origin)
        finally:
            jit_depth[0] -= g is not f

    def apply_plain(f, args, kwargs, origin):
        if isinstance(f, (Closure, Partial, FuncRef)):
            try:
                r = X.call(f, list(args), list(kwargs), st, Decider([], []), node)
            except (Unsupported, Budget) as e:
                blocked.append(f"{short(f, 40)}: {e}")
                return
            if isinstance(r, Opq) and r.kind == "call" and isinstance(r.parts[0], (Closure, Partial, FuncRef)):
                # not inlined (contains a loop, other module, ...): an evaluation this analysis did not follow
                if at_point(list(r.parts[1]) + [x for _, x in r.parts[2]]):
                    blocked.append(f"{short(r.parts[0], 40)} is not interpreted")
                for a in list(r.parts[1]) + [x for _, x in r.parts[2]]:
                    walk(a)
                return
            walk(r)
            return
        if isinstance(f, Opq) and f.kind == "call" and isinstance(f.parts[0], Ext) and f.parts[0].name.split(".")[-1] in _DERIVATIVE_OF and f.parts[1]:
            apply(f.parts[1][0], args, kwargs, origin)
            return
        if isinstance(f, Opq) and f.kind == "call" and isinstance(f.parts[0], Ext) and f.parts[0].name == "functools.partial" and f.parts[1]:
            apply(f.parts[1][0], list(f.parts[1][1:]) + list(args), list(f.parts[2]) + list(kwargs), origin)
            return
        if isinstance(f, Ext):
            for a in list(args) + [x for _, x in kwargs]:
                walk(a)
            return
        if isinstance(f, (Opq, Num, BoundMethod)):
            allargs = list(args) + [x for _, x in kwargs]
            if at_point(allargs):
                leaves.append((f, list(args), list(kwargs), jit_depth[0] > 0))
            for a in allargs:
                walk(a)
            if isinstance(f, (Opq, Num)):
                walk(f)
            return
        blocked.append(f"`{short(f, 40)}` is called; not a function value this analysis knows")

    def walk(w):
        if isinstance(w, (str, bool, type(None), Closure, FuncRef, Ext, NTType, BoundMethod, Partial, ClassRef)):
            return
        left[0] -= 1
        if left[0] < 0:
            if not blocked or blocked[-1] != "value too large":
                blocked.append("value too large")
            return
        if isinstance(w, DictV):
            for x in w.items.values():
                walk(x)
            return
        kw = (key(w), jit_depth[0] > 0)
        if kw in memo:
            return
        memo.add(kw)
        if isinstance(w, tuple):
            for x in w:
                walk(x)
        elif isinstance(w, Num):
            for a in w.p.atoms():
                if a in X.atoms:
                    walk(X.atoms[a])
        elif isinstance(w, Cmp):
            walk(w.a)
            walk(w.b)
        elif isinstance(w, Rec):
            for x in w.vals.values():
                walk(x)
            if w.base is not None:
                walk(w.base)
        elif isinstance(w, Opq):
            if w.kind == "call":
                f, args, kwargs, _ = w.parts
                g = _strip_jit(f)
                if isinstance(g, Ext):
                    last = g.name.split(".")[-1]
                    if last == "jvp" and len(args) >= 2 and isinstance(args[1], tuple):
                        apply(args[0], list(args[1]), [], w)
                        for a in args[2:]:
                            walk(a)
                        return
                    if last in ("vjp", "linearize") and len(args) >= 2:
                        apply(args[0], list(args[1:]), [], w)
                        return
                apply(f, args, kwargs, w)
            elif w.kind == "attr":
                walk(w.parts[0])
            elif w.kind in ("item", "quot"):
                walk(w.parts[0])
                walk(w.parts[1])
            elif w.kind == "op":
                for x in w.parts[1:]:
                    if isinstance(x, (Num, Opq, Cmp, Rec, tuple)):
                        walk(x)
            elif w.kind == "sym" and w.parts and isinstance(w.parts[0], (Rec, tuple, DictV)):
                walk(w.parts[0])
    walk(v)
    return leaves, blocked


def objective_classes(ctx, base):
    """the classes of the base's module that implement the objective interface by inheriting from `base` (the objects handed to the same solver)"""
    out = []

    def rec(sc):
        for ch in sc.children:
            if ch.kind == "class":
                try:
                    mro = list(ctx.repo.class_mro(ch))
                except Exception:
                    mro = [ch]
                if ch is not base and base in mro:
                    out.append(ch)
            rec(ch)
    for m_ in ctx.repo.modules.values():
        rec(m_.scope)
    return out


def d1_objective_methods(ctx, cls_qual="optimism.Objective:Objective"):
    """For the objective class and for every class derived from it: `value` / `gradient` / `hessian_vec`, executed on an object as the
    constructor (the whole chain, super().__init__ included) leaves it but with `self.p` replaced afterwards,
    evaluate stored functions at (x, <the replaced p>, ...); the stored functions are F and d F / d x of one F; and every evaluation at the
    call-time point of a function the constructor was given (what F wraps) receives the replaced p -- not the parameters the constructor
    stored.  Indirections (helper methods, closures stored on the object, partial applications, temporaries) are followed."""
    base = ctx.need(cls_qual)
    _objective_class(ctx, base, base)
    for sub in objective_classes(ctx, base):
        ctx.guard(_objective_class, ctx, sub, base)


def _within_classes(sc, classes):
    """is the function a method of one of the classes, or nested in one"""
    while sc is not None and sc.kind != "module":
        if sc.kind == "class":
            return sc in classes
        sc = sc.parent
    return False


def _objective_class(ctx, cls, base):
    from .C01_symx import Decider
    rule = "D1/T5-objective-uses-current-parameters"
    cname = cls.name
    is_base = cls is base
    probe = SymX(ctx.repo, next(ch for ch in base.children if ch.kind == "function"))
    init = probe.member_of(cls, "__init__")
    if init is None:
        raise Incomplete(f"{cname} has no constructor in the source tree")
    ctx.touch(init)
    ips = init.params()
    if len(ips) < 2:
        raise Incomplete(f"{cname}.__init__ has no function parameter")
    try:
        mro = list(ctx.repo.class_mro(cls))
    except Exception:
        mro = [cls]
    # methods of the base classes are interpreted also when they live in another module
    X = SymX(ctx.repo, init, max_steps=60000, inline_other=lambda sc_: _within_classes(sc_, mro))
    X.cls = cls               # members are resolved on the class that is instantiated, also inside inherited constructors
    X.unique_frames = True    # the closures the constructor builds on different paths / the stored functions build per call are kept apart
    ends = [r for r in X.analyse() if r.kind == "return"]
    if not ends:
        raise Incomplete(f"{cname}.__init__ has no analysable path")
    selfv = X.sym(ips[0])
    fkey = ips[1]
    pnow = X.sym("p_current")
    ptrace = X.sym("p_when_traced")
    load_p = ast.Attribute(value=ast.Name(id=ips[0], ctx=ast.Load()), attr="p", ctx=ast.Load())
    stored = {}      # method -> values of the stored function it evaluates (jit stripped)
    flows = {}       # method -> [(leaves, blocked, stale parameters)]
    for mname in ("value", "gradient", "hessian_vec"):
        m = X.member_of(cls, mname)
        if m is None:
            raise Incomplete(f"{cname}.{mname} not found in the source tree")
        ctx.touch(m)
        ps = m.params()
        verdict, shown, why = True, [], []
        for r in ends:
            st = r.st.copy()
            try:
                p_ctor = X.eval(load_p, st, st.root, Decider([], []), init.module)      # what the constructor left as the object's parameters
            except (Unsupported, Budget):
                p_ctor = None
            # objective.p = <new parameters>, through the property setter if the class has one
            tgt = ast.Attribute(value=ast.Name(id=ips[0], ctx=ast.Load()), attr="p", ctx=ast.Store())
            X.assign(tgt, pnow, st, st.root, Decider([], []), init.module, init.node)
            args = {ps[0]: selfv}
            for q in ps[1:]:
                args[q] = X.sym("arg_" + q)
            try:
                v = X.run_inline(m.node, m, args, None, st, Decider([], []), m.module)
            except (Unsupported, Budget) as e:
                verdict = None
                why.append(str(e))
                continue
            shown.append(short(v))
            ok = isinstance(v, Opq) and v.kind == "call"
            if ok:
                cargs = list(v.parts[1]) + [x for _, x in v.parts[2]]
                ok = len(cargs) >= 2 and key(cargs[0]) == "arg_" + ps[1]
                if ok and key(cargs[1]) != pnow.key:
                    ok = False
                    why.append(f"the parameters it evaluates with are `{short(cargs[1])}`, not the current `self.p`")
                stored.setdefault(mname, []).append(_strip_jit(v.parts[0]))
            if not ok:
                verdict = False
                continue
            # the arguments of the stored function are fixed now; whatever is read from the object *while the stored function runs* is read
            # when that function is traced if it is jit-compiled (and kept for later calls), at call time otherwise
            X.assign(tgt, ptrace, st, st.root, Decider([], []), init.module, init.node)
            leaves, blocked = evaluations_at(X, st, v, ["arg_" + ps[1]], m.node)
            flows.setdefault(mname, []).append((leaves, blocked, p_ctor))
        ctx.decide(rule, verdict, m, m.node, construct=f"{cname}.{mname}", detail=f"evaluates {shown[0] if shown else '?'} with the current self.p",
                   bad_detail=f"{cname}.{mname}(x) evaluates `{'; '.join(dict.fromkeys(shown))}`, not a stored function at (x, self.p, ...): it would not follow the "
                              f"current parameters" + ("; " + "; ".join(dict.fromkeys(why)) if why else ""))
    fvals = stored.get("value", [])
    for mname, what in (("value", "f"), ("gradient", "grad")):
        vals = stored.get(mname, [])
        verdict = True if vals else None
        for i, inner in enumerate(vals):
            if isinstance(inner, Opq) and inner.kind in ("attr", "item") and X.occurs(selfv.key, inner):
                verdict = None if verdict is True else verdict     # an attribute this analysis did not see being assigned
                continue
            # the base class stores the function it was given; a derived class may store a function it built around it: then value and gradient must
            # still be those of one function (what that function evaluates is the parameter-flow obligation below)
            want = fkey if is_base else (key(fvals[i]) if i < len(fvals) else None)
            if what == "f":
                ok = key(inner) == want
            else:
                ok = isinstance(inner, Opq) and inner.kind == "call" and isinstance(inner.parts[0], Ext) and inner.parts[0].name.split(".")[-1] == "grad"
                if ok:
                    args, kwargs = inner.parts[1], dict(inner.parts[2])
                    ok = len(args) >= 1 and want is not None and key(_strip_jit(args[0])) == want
                    an = args[1] if len(args) > 1 else kwargs.get("argnums")
                    ok = ok and (an is None or key(an) == "0")
            if not ok:
                verdict = False
        shown = short(vals[0]) if vals else "?"
        expect = ("f" if what == "f" else "grad(f, 0)") + " with f the function handed to the constructor" if is_base else \
            ("the function the constructor stored" if what == "f" else f"grad(F, 0) with F = `{short(fvals[0], 50) if fvals else '?'}`, the function {cname}.value evaluates")
        ctx.decide(rule, verdict, init, init.node, construct=f"{cname}.{mname}:stored-function",
                   detail=f"{cname}.{mname} evaluates {shown}",
                   bad_detail=f"{cname}.{mname} evaluates `{shown}`; expected {expect} (value and gradient of the same function w.r.t. x)")
    # parameter flow: what the stored functions evaluate at the call-time point receives the current parameters
    for mname in ("value", "gradient", "hessian_vec"):
        fl = flows.get(mname)
        if not fl:
            continue        # already reported above
        m = X.member_of(cls, mname)
        verdict, why, shown = True, [], []
        for leaves, blocked, p_ctor in fl:
            stale = []
            for f, args, kwargs, in_jit in leaves:
                allargs = list(args) + [x for _, x in kwargs]
                vals_ = [a for a in allargs if not isinstance(a, (str, bool, type(None)))]
                if any(X.occurs(pnow.key, a) for a in vals_) or (not in_jit and any(X.occurs(ptrace.key, a) for a in vals_)):
                    shown.append(f"{short(f, 40)}({', '.join(short(a, 40) for a in allargs)})".replace(ptrace.key, pnow.key))
                    continue
                if any(key(a) == ptrace.key for a in vals_):
                    stale.append(f"`{short(f, 40)}` is evaluated at the call-time point with the object's parameters read inside a jit-compiled function: they are "
                                 f"read when the function is traced and the trace is reused, so later `objective.p = p` assignments are not seen "
                                 f"(the parameters must be an argument of the compiled function)")
                    continue
                if p_ctor is not None and not isinstance(p_ctor, (str, bool, type(None))) and \
                        any(not isinstance(a, (str, bool, type(None))) and key(a) == key(p_ctor) for a in allargs):
                    stale.append(f"`{short(f, 40)}` is evaluated at the call-time point with `{short(p_ctor, 40)}`, the parameters the constructor received and stored, "
                                 f"not with the parameters passed at call time (the current self.p): after `objective.p = p` the solver still minimises, and tests "
                                 f"convergence of, the objective under the old parameters")
                else:
                    verdict = None if verdict is True else verdict
                    why.append(f"`{short(f, 40)}({', '.join(short(a, 30) for a in allargs)})` is evaluated at the call-time point without the current parameters")
            if stale:
                verdict = False
                why = stale + why
            elif blocked:
                verdict = None if verdict is True else verdict
                why.append("not interpreted: " + "; ".join(dict.fromkeys(blocked)))
            elif not leaves:
                verdict = None if verdict is True else verdict
                why.append("no evaluation of a function given to the constructor at the call-time point was found")
        ctx.decide(rule, verdict, init, m.node if is_base else init.node, construct=f"{cname}.{mname}:parameter-flow",
                   detail=f"at the call-time point {cname}.{mname} evaluates {'; '.join(list(dict.fromkeys(shown))[:2])}: with the current self.p",
                   bad_detail=f"{cname}.{mname}: " + "; ".join(list(dict.fromkeys(why))[:2]))


# ------------------------------------------------------------------ D1/T6: step-type labels

def boundary_labels(ctx, rule, module, producer, consumer="is_on_boundary"):
    """The radius is enlarged only after steps that `is_on_boundary` recognises.  Every label the inner solver attaches to a step that was
    projected onto the trust-region boundary must be recognised, and no label of an interior step may be."""
    prod = ctx.need(f"{module}:{producer}")
    cons = ctx.need(f"{module}:{consumer}")
    # the projection helpers stay opaque (their result is recognised as "a point on the boundary"); other small helpers are looked into
    proj = {c.qualname for c in prod.module.scope.children if c.kind == "function" and "project" in c.name and "boundary" in c.name}
    recs = None
    for kw in ({"opaque": proj}, {"inline": False}):
        X = SymX(ctx.repo, prod, max_steps=120000, **kw)
        try:
            recs = [r for r in X.analyse() if r.kind == "return"]
            break
        except Budget as e:
            err = e
    if recs is None:
        raise Incomplete(f"{producer}: {err}")
    on_b, interior = set(), set()

    def projected(v, depth=0):
        if isinstance(v, Opq) and v.kind == "call":
            f = v.parts[0]
            nm = f.scope.name if isinstance(f, FuncRef) else key(f)
            return "project" in nm and "boundary" in nm
        return False
    for r in recs:
        v = r.value
        if not isinstance(v, tuple) or len(v) < 2:
            continue
        labels = [x for x in v if isinstance(x, str)]
        if not labels:
            continue
        (on_b if projected(v[0]) else interior).add(labels[0])
    if not on_b:
        ctx.undecided(rule, prod, None, construct="producer-labels", detail="no labelled boundary exits found in the inner solver")
        return
    recog, unk = set(), []
    for lab in sorted(on_b | interior):
        Xc = SymX(ctx.repo, cons, max_steps=20000)
        rs = [r for r in Xc.analyse(param_values={cons.params()[0]: lab}) if r.kind == "return"]
        vals = {r.value if isinstance(r.value, bool) else None for r in rs}
        if vals == {True}:
            recog.add(lab)
        elif vals != {False}:
            unk.append(lab)
    if unk:
        ctx.undecided(rule, cons, cons.node, construct=f"{consumer}-is-decidable", detail=f"{consumer}({unk[0]!r}) does not evaluate to a constant")
        return
    ok = on_b <= recog and not (recog & interior)
    ctx.decide(rule, ok, cons, cons.node, construct=f"{module.split('.')[-1]}:{consumer}~boundary-labels",
               detail=f"boundary exits are labelled {sorted(on_b)}, interior exits {sorted(interior)}; {consumer} recognises {sorted(recog)}",
               bad_detail=f"{producer} labels its boundary-projected steps {sorted(on_b)} (interior: {sorted(interior)}) but {consumer} recognises "
                          f"{sorted(recog)}: " + (f"the trust region is not enlarged after {sorted(on_b - recog)} steps, so a convex problem whose minimiser is far "
                                                  f"from the start is not reached within the iteration budget" if on_b - recog else
                                                  f"the trust region is enlarged after interior steps {sorted(recog & interior)}"))


# ------------------------------------------------------------------ settings factories

def settings_wiring(ctx, rule, module):
    """Every module-level function that returns a settings record built from its own parameters puts each parameter into the field of the
    same name; a record derived from another record copies every field it does not set explicitly from the field of the same name."""
    mod = ctx.need_module(module)
    n = 0
    for sc in mod.scope.children:
        if sc.kind != "function":
            continue
        if any(isinstance(x, (ast.For, ast.While)) for x in ast.walk(sc.node)):
            continue
        X = SymX(ctx.repo, sc, max_steps=30000)
        if not any(isinstance(n_, ast.Name) and isinstance(X.module_global(n_.id), NTType) for n_ in ast.walk(sc.node)) and "_replace" not in ast.dump(sc.node):
            continue
        try:
            recs = [r for r in X.analyse() if r.kind == "return"]
        except (Budget, Unsupported):
            continue
        recs = [r for r in recs if isinstance(r.value, Rec)]
        if not recs:
            continue
        params = set(sc.params()) | set(sc.kwonly())
        bad, nargs, nf = [], 0, 0
        for r in recs:
            rec = r.value
            nf = len(rec.fields)
            nargs = len(rec.vals) if rec.base is None else nf
            for f in rec.fields:
                v = rec.vals.get(f)
                if v is None:
                    continue
                k = key(v)
                if k in params and k in rec.fields and k != f:
                    bad.append(f"parameter `{k}` in field `{f}`")
                if isinstance(v, Opq) and v.kind == "attr" and key(v.parts[0]) in params and v.parts[1] in rec.fields and v.parts[1] != f:
                    bad.append(f"field `{f}` copied from `{k}`")
            extra = [f for f in rec.vals if f not in rec.fields]
            if extra:
                bad.append(f"unknown field(s) {extra}")
        if not any(key(v) in params or (isinstance(v, Opq) and v.kind == "attr" and key(v.parts[0]) in params) or r.value.base is not None
                   for r in recs for v in r.value.vals.values()):
            continue
        n += 1
        ok = not bad and nargs == nf
        ctx.decide(rule, ok, sc, sc.node, construct=f"{sc.name}->{recs[0].value.tname}:parameters-to-same-named-fields",
                   detail=f"{nargs} values fill {nf} fields by name",
                   bad_detail=f"{module.split('.')[-1]}.{sc.name} builds {recs[0].value.tname} with " +
                              (", ".join(dict.fromkeys(bad)) if bad else f"{nargs} arguments for {nf} fields") +
                              ": settings are exchanged silently (all readers use the field names)")
    if n < 1:
        raise Incomplete(f"{module}: no settings factory found")
    return n
