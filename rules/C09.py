"""C09 -- J2 plasticity update: isochoric, irreversible, consistently wired (structural clauses).

  D1  isochoric: the flow direction is traceless on both outcomes of its degeneracy switch (interpreted on a
      generic symbolic strain); the state increment returned by update_state / compute_state_increment has a
      traceless tensor segment on every path; in finite deformations the new distortion is
      exp_symm(increment segment) @ old distortion (frames checked: rules/frames.py) so det is preserved
      (det exp A = exp tr A); the state vector layout (EQPS, PLASTIC_DISTORTION, NUM_STATE_VARS) agrees
      between initial states, increments and updates;
  D2  irreversible: the bracket handed to the root finder starts at the old equivalent plastic strain and its
      width is (trial Mises stress - current flow stress)/(3 mu), the very quantity whose positivity is the yield
      test; the new value is old + increment and the elastic branch adds zero;
  D3  variational wiring: the residual is d(incremental_potential)/d(eqps) (jacfwd argnum = position of eqps)
      and the root-finding lambda varies that position; for each kinematics option the strain measure of the
      energy closure is the one used inside the selected state-update function.
Not decided: yield consistency to tolerance, minimality, idempotence and commit-invariance as numbers;
the size of the degeneracy tolerance in compute_flow_direction.
"""
from __future__ import annotations

import ast

from optilint.cfg import cfg_of
from optilint.model import dotted, FuncVal, ExtVal
from optilint.core import Incomplete
from optilint.tensoreval import (Dual, Arr, EvalError, Raised, _A, rat_is_zero, rat_sign, Closure, PosVec, Deriv, sum_d)
from optilint.expr import simplify
from .common import src, same, calls_in, const_value
from . import materials as mt
from . import frames
from .tensorid import generic

LEVEL = "other"
RULE_TEXT = ("obligations = (function x comparison outcome: trace of flow direction / increment segment is 0) + (state layout slot) + "
             "(root-finder bracket role) + (derivative argnum / lambda slot) + (kinematics option x strain function pairing)")
EXPLANATION = ("Abstract interpretation of J2Plastic on generic symbolic tensors (exact rational entries, both outcomes of every "
               "undecidable comparison) for tracelessness and state layout; role analysis of the root-finder bracket; slot agreement of "
               "the incremental-potential derivative; per-option pairing of strain measure and state update; frame typing of the "
               "finite-deformation update. Numerical accuracy of the return mapping is not decided.")

J2 = "optimism.material.J2Plastic"


def run(ctx):
    ctx.need_module(J2)
    ctx.need_module("optimism.material.Hardening")
    ctx.guard(d1_traceless, ctx)
    ctx.guard(d1_degenerate_threshold, ctx)
    ctx.guard(d1_layout, ctx)
    ctx.guard(d2_bracket, ctx)
    ctx.guard(d3_wiring, ctx)
    ctx.guard(d3_dispatch, ctx)
    from . import units
    ctx.guard(units.run, ctx, "D3/T8-dimensional-homogeneity", {J2}, min_scenarios=8)
    ctx.guard(frames.run_frames_state_only, ctx, "D1/T9-frames", [f"{J2}:compute_state_new_finite_deformations"])
    from . import tensorid
    ctx.guard(tensorid.run_identities, ctx, "D1/T7-tensor-helper-identities", ["inv", "deviator", "norm_of_deviator_squared"])
    ctx.trust("det exp(A) = exp(tr A); an isotropic function of a symmetric tensor commutes with it")
    ctx.assume("shear modulus > 0; the root returned by find_root lies in the bracket it is given (C17)")


def _interp(ctx, policy=None):
    I = mt.make_interp(ctx.repo)
    I.policy = policy
    rec = {}

    def find_root(interp, args, kw):
        rec["args"] = args
        interp.positive.add("eqpsRoot")
        return (Dual(_A.atom("eqpsRoot")), None)
    I.special["optimism.ScalarRootFind:find_root"] = find_root
    I.special["optimism.ScalarRootFind:get_settings"] = lambda interp, args, kw: None
    return I, rec


def _hardening(ctx, I):
    mod = ctx.need_module("optimism.material.Hardening")
    props = mt.PropDict(I, {"hardening model": "linear"}, {"hardening model", "rate sensitivity"})
    return I.call(I.module_value(mod, "create_hardening_model"), [props], {})


def _trace(M):
    return M.data[0] + M.data[4] + M.data[8]


def d1_traceless(ctx):
    rule = "D1/T9-traceless-flow"
    mod = ctx.need_module(J2)
    fd = ctx.need(f"{J2}:compute_flow_direction")
    for pol in (True, False):
        I, _ = _interp(ctx, pol)
        try:
            N = I.call(I.module_value(mod, "compute_flow_direction"), [generic("e")], {})
            tr = _trace(N)
            ok = rat_is_zero(tr.a)
        except (EvalError, Raised, KeyError, IndexError, TypeError) as ex:
            ctx.undecided(rule, fd, None, construct=f"flow-direction[nonzero={pol}]", detail=str(ex))
            continue
        ctx.decide(rule, ok, fd, None, construct=f"flow-direction[degenerate-switch={'regular' if pol else 'fallback'}]",
                   detail="trace of the flow direction is identically 0 for a generic strain",
                   bad_detail=f"flow direction has trace {tr.a!r} ({'regular branch' if pol else 'fallback matrix'}): plastic flow would change volume")
    # increments on every path
    us = ctx.need(f"{J2}:update_state")
    ci = ctx.need(f"{J2}:compute_state_increment")
    for fname, sc in (("update_state", us), ("compute_state_increment", ci)):
        for pol in (True, False):
            I, rec = _interp(ctx, pol)
            try:
                hm = _hardening(ctx, I)
                state = Arr([Dual(_A.atom(f"s{k}")) for k in range(10)], (10,))
                props = PosVec("p", I)
                dt = Dual(_A.atom("dt"))
                I.positive.add("dt")
                inc = I.call(I.module_value(mod, fname), [generic("e"), state, dt, props, hm], {})
                seg = I.getitem(inc, I.module_value(mod, "PLASTIC_DISTORTION")).reshape((3, 3))
                tr = _trace(seg)
                ok = rat_is_zero(tr.a)
                n = inc.shape[0]
            except (EvalError, Raised, KeyError, IndexError, TypeError, AttributeError) as ex:
                ctx.undecided(rule, sc, None, construct=f"{fname}[comparisons={pol}]", detail=str(ex))
                continue
            ctx.decide(rule, ok and n == 10, sc, None, construct=f"{fname}[comparisons={pol}]:increment-segment-traceless",
                       detail=f"increment vector of length {n}; trace of its tensor segment is identically 0",
                       bad_detail=f"{fname}: tensor segment of the state increment has trace {tr.a!r} (length {n}): the plastic distortion would not stay volume preserving")


def d1_degenerate_threshold(ctx):
    """The flow direction falls back to a fixed dummy direction when |dev E|^2 <= c.  On a yielding step the trial Mises stress
    2 mu dev(E):N must exceed the flow stress >= Y0; with the fallback direction it is at most 2 mu sqrt(c) |N_fallback|.  So the
    fallback can only be taken while yielding if Y0/mu < 2 sqrt(c |N_fallback|^2): that bound must lie below every admissible
    yield strain (assumption recorded: yield strength / shear modulus >= 1e-6)."""
    rule = "D1/T7-degenerate-direction-unreachable-while-yielding"
    from fractions import Fraction
    import math
    fd = ctx.need(f"{J2}:compute_flow_direction")
    cfg = cfg_of(fd)
    cmp_nodes = [n for n in cfg.nodes if n.kind == "stmt" and isinstance(n.ast, ast.Assign) and isinstance(n.ast.value, ast.Compare)
                 and len(n.ast.value.ops) == 1 and isinstance(n.ast.value.ops[0], (ast.Gt, ast.GtE)) and const_value(n.ast.value.comparators[0]) is not None]
    fb = [c for c in ast.walk(fd.node) if isinstance(c, ast.Assign) and isinstance(c.value, ast.BinOp) and isinstance(c.value.op, ast.Mult)
          and any(isinstance(k, ast.Call) and (dotted(k.func) or "").split(".")[-1] == "array" for k in ast.walk(c.value))]
    if len(cmp_nodes) != 1 or len(fb) != 1:
        ctx.undecided(rule, fd, None, construct="threshold", detail=f"{len(cmp_nodes)} threshold comparisons, {len(fb)} literal fallback directions found")
        return
    n = cmp_nodes[0]
    c = float(const_value(n.ast.value.comparators[0]))
    from .common import expand
    lhs = expand(cfg, n, n.ast.value.left)
    is_sq = isinstance(lhs, ast.Call) and (dotted(lhs.func) or "").split(".")[-1] == "tensordot" and len(lhs.args) == 2 and same(lhs.args[0], src(lhs.args[1])) \
        and "dev" in src(lhs.args[0])
    # |N_fallback|^2 from the literal
    from optilint.expr import feval
    try:
        I, _ = _interp(ctx, False)
        N = I.call(I.module_value(ctx.need_module(J2), "compute_flow_direction"), [generic("e")], {})
        nn = sum_d(x * x for x in N.data)
        nn = float(te_const(nn))
    except Exception as ex:
        ctx.undecided(rule, fd, None, construct="threshold", detail=f"fallback direction not evaluated: {ex}")
        return
    bound = 2.0 * math.sqrt(c * nn)
    ok = is_sq and bound <= 1e-6
    ctx.decide(rule, ok, fd, n.ast, construct="fallback-needs-yield-strain-below-bound",
               detail=f"fallback when |dev E|^2 <= {c:g}; reachable while yielding only if Y0/mu < {bound:.3g} (<= 1e-6)",
               bad_detail=f"`{src(n.ast)}`: the dummy flow direction (|N|^2 = {nn:g}) is used when |dev E|^2 <= {c:g}; a step can yield there whenever "
                          f"yield strength / shear modulus < {bound:.3g}, which includes admissible materials (>= 1e-6): the plastic flow then follows the dummy direction")
    ctx.assume("admissible constants: yield strength / shear modulus >= 1e-6")


def te_const(d):
    from optilint.tensoreval import rat_const
    c = rat_const(d.a)
    if c is None:
        raise ValueError("not constant")
    return c


def d1_layout(ctx):
    rule = "D1/T5-state-layout"
    mod = ctx.need_module(J2)
    I, _ = _interp(ctx, None)
    sc = ctx.need(f"{J2}:compute_state_new_finite_deformations")
    try:
        eq = I.module_value(mod, "EQPS")
        sl = I.module_value(mod, "PLASTIC_DISTORTION")
        nsv = I.module_value(mod, "NUM_STATE_VARS")
        ok = eq == 0 and isinstance(sl, slice) and sl.start == 1 and sl.stop == 10 and nsv == 10
        ctx.decide(rule, ok, mod.scope, None, construct="constants", detail=f"EQPS={eq}, PLASTIC_DISTORTION={sl}, NUM_STATE_VARS={nsv}",
                   bad_detail=f"state layout constants are inconsistent: EQPS={eq}, PLASTIC_DISTORTION={sl}, NUM_STATE_VARS={nsv} (one scalar + 9 tensor entries expected)")
        for fn, want in (("make_initial_state_finite_deformations", "identity"), ("make_initial_state_small_deformations", "zero")):
            s0 = I.call(I.module_value(mod, fn), [], {}).ravel()
            seg = I.getitem(s0, sl).reshape((3, 3))
            okv = s0.shape == (nsv,) and I.getitem(s0, eq).is_zero()
            if want == "identity":
                okt = all((seg.data[i * 3 + j] - Dual(1 if i == j else 0)).is_zero() for i in range(3) for j in range(3))
            else:
                okt = all(x.is_zero() for x in seg.data)
            ctx.decide(rule, okv and okt, ctx.need(f"{J2}:{fn}"), None, construct=f"{fn}", detail=f"length {s0.shape[0]}, eqps 0, distortion segment {want}",
                       bad_detail=f"{fn}: virgin state has length {s0.shape[0]}, eqps slot {I.getitem(s0, eq)!r}, distortion segment not {want}")
        # finite update: [eqps_old + d_eqps, (exp_symm(segment) @ Fp_old).ravel()]
        state = Arr([Dual(_A.atom(f"s{k}")) for k in range(10)], (10,))
        incv = Arr([Dual(_A.atom(f"d{k}")) for k in range(10)], (10,))
        I.special[f"{J2}:compute_state_increment"] = lambda interp, a, k: incv
        I.special[f"{J2}:compute_elastic_logarithmic_strain"] = lambda interp, a, k: generic("e")
        X = generic("x")
        seen = {}

        def exp_symm(interp, a, k):
            seen["arg"] = a[0]
            return X
        I.special["optimism.TensorMath:exp_symm"] = exp_symm
        new = I.call(I.module_value(mod, "compute_state_new_finite_deformations"),
                     [generic("h"), state, Dual(_A.atom("dt")), PosVec("p", I), None], {})
        ok0 = _A.equal(I.getitem(new, eq).a, _A.norm(_A.atom("s0") + _A.atom("d0")))
        argok = isinstance(seen.get("arg"), Arr) and all(_A.equal(seen["arg"].data[k].a, _A.atom(f"d{k + 1}")) for k in range(9))
        from optilint.tensoreval import matmul
        FpOld = Arr([Dual(_A.atom(f"s{k + 1}")) for k in range(9)], (3, 3))
        want = matmul(X, FpOld)
        got = I.getitem(new, sl).reshape((3, 3))
        okp = all(_A.equal(a.a, b.a) for a, b in zip(got.data, want.data))
        ctx.decide(rule, ok0 and argok and okp and new.shape == (10,), sc, None, construct="finite-update-layout",
                   detail="new state = [eqps_old + d_eqps, (exp_symm(increment segment) @ Fp_old).ravel()]",
                   bad_detail=f"finite-deformation update: eqps slot ok={ok0}, exp_symm argument is the increment's tensor segment={argok}, "
                              f"distortion = exp_symm(.) @ Fp_old (row-major)={okp}, length {new.shape}")
        for fn in ("compute_state_new_small_deformations", "compute_state_new_seth_hill"):
            I2, _ = _interp(ctx, None)
            I2.special[f"{J2}:compute_state_increment"] = lambda interp, a, k: incv
            I2.special[f"{J2}:compute_elastic_linear_strain"] = lambda interp, a, k: generic("e")
            I2.special[f"{J2}:compute_elastic_seth_hill_strain"] = lambda interp, a, k: generic("e")
            new = I2.call(I2.module_value(mod, fn), [generic("h"), state, Dual(_A.atom("dt")), PosVec("p", I2), None], {})
            ok = new.shape == (10,) and all(_A.equal(new.data[k].a, _A.norm(_A.atom(f"s{k}") + _A.atom(f"d{k}"))) for k in range(10))
            ctx.decide(rule, ok, ctx.need(f"{J2}:{fn}"), None, construct=f"{fn}:additive-update", detail="new state = old state + increment",
                       bad_detail=f"{fn} does not return old state + increment")
    except (EvalError, Raised, KeyError, IndexError, TypeError, AttributeError) as ex:
        ctx.undecided(rule, sc, None, construct="layout", detail=str(ex))


def d2_bracket(ctx):
    rule = "D2/T2-bracket-roles"
    mod = ctx.need_module(J2)
    us = ctx.need(f"{J2}:update_state")
    for pol in (True, False):
        I, rec = _interp(ctx, pol)
        try:
            hm = _hardening(ctx, I)
            state = Arr([Dual(_A.atom(f"s{k}")) for k in range(10)], (10,))
            props = PosVec("p", I)
            dt = Dual(_A.atom("dt"))
            E = generic("e")
            inc = I.call(I.module_value(mod, "update_state"), [E, state, dt, props, hm], {})
            args = rec.get("args")
            if not args or len(args) < 3 or not isinstance(args[2], Arr):
                ctx.undecided(rule, us, None, construct=f"bracket[{pol}]", detail="find_root call not observed")
                continue
            lb, ub = args[2].data[0], args[2].data[1]
            guess = I.num(args[1])
            ok_lb = _A.equal(lb.a, _A.atom("s0"))
            ctx.decide(rule, ok_lb, us, None, construct=f"bracket-lower-end-is-old-eqps[{pol}]", detail=f"lower end {lb.a!r}",
                       bad_detail=f"the root-finder bracket starts at {lb.a!r}, not at the old equivalent plastic strain: the update could decrease it")
            # increment = root - old
            ok_i = _A.equal(inc.data[0].a, _A.norm(_A.atom("eqpsRoot") - _A.atom("s0")))
            ctx.decide(rule, ok_i, us, None, construct=f"increment-is-root-minus-old[{pol}]", detail="d_eqps = root - eqps_old",
                       bad_detail=f"eqps increment is {inc.data[0].a!r}, not (root - old)")
        except (EvalError, Raised, KeyError, IndexError, TypeError, AttributeError) as ex:
            ctx.undecided(rule, us, None, construct=f"bracket[{pol}]", detail=str(ex))
    d2_bracket_signs(ctx)
    # yield test uses the same trial stress and flow stress; elastic branch adds zero
    ci = ctx.need(f"{J2}:compute_state_increment")
    I, rec = _interp(ctx, False)
    try:
        hm = _hardening(ctx, I)
        state = Arr([Dual(_A.atom(f"s{k}")) for k in range(10)], (10,))
        inc = I.call(I.module_value(mod, "compute_state_increment"), [generic("e"), state, Dual(_A.atom("dt")), PosVec("p", I), hm], {})
        ok = all(x.is_zero() for x in inc.data) and inc.shape == (10,)
        ctx.decide(rule, ok, ci, None, construct="elastic-branch-adds-zero", detail="not yielding => zero increment of full length",
                   bad_detail="the elastic branch of compute_state_increment does not return a zero increment of NUM_STATE_VARS entries")
    except (EvalError, Raised, KeyError, IndexError, TypeError, AttributeError) as ex:
        ctx.undecided(rule, ci, None, construct="elastic-branch-adds-zero", detail=str(ex))
    # structure of the yield test: (trial - flow) > tol * Y0  with trial, flow as in update_state
    cfg = cfg_of(ci)
    tests = [n for n in cfg.nodes if n.kind == "stmt" and isinstance(n.ast, ast.Assign) and isinstance(n.ast.value, ast.Compare)]
    ok = False
    shown = "?"
    for n in tests:
        c = n.ast.value
        shown = src(c)
        if isinstance(c.ops[0], ast.Gt) and isinstance(c.left, ast.BinOp) and isinstance(c.left.op, ast.Sub):
            from .common import normal_form
            l = normal_form(ci, n, c.left.left)
            r = normal_form(ci, n, c.left.right)
            ok = "tensordot" in src(l) and "compute_flow_direction" in src(l) and ("FLOW_STRESS" in src(r) or "compute_flow_stress" in src(r) or "jax.grad(hardening)" in src(r))
    ctx.decide(rule, ok, ci, tests[0].ast if tests else None, construct="yield-test-form", detail=shown,
               bad_detail=f"yield test `{shown}` is not (trial Mises stress - flow stress) > tolerance")


def _sign_witness(r, want_positive):
    """A point with all symbols positive where `r` has the wrong sign (or vanishes); '' if none is found on a small grid."""
    import itertools
    atoms = sorted(r.atoms())
    plain = [a for a in atoms if not a.startswith("sqrt[")]
    if len(plain) > 7:
        return ""
    for vals in itertools.product((1.0, 1e-3, 1e3), repeat=len(plain)):
        env = dict(zip(plain, vals))
        try:
            v = _A.eval(r, env)
        except (KeyError, ZeroDivisionError, ValueError):
            continue
        if v != v:
            continue
        if (want_positive and v <= 0) or (not want_positive and v >= 0):
            return " (e.g. " + ", ".join(f"{k}={x:g}" for k, x in env.items()) + f" gives {v:.3g})"
    return ""


def d2_bracket_signs(ctx):
    """Root-finder contract at the call site (C17 returns NaN unless the residual has strictly opposite signs at the two ends):
    the residual handed to find_root is evaluated symbolically at both ends of the bracket on one-parameter families of trial
    strains (t * fixed deviatoric direction + q * I), with the trial Mises stress written as flow stress + x, x > 0 (yielding),
    linear hardening with modulus H > 0 and H = 0 (perfect plasticity), old plastic strain s0 > 0 and s0 = 0.
    Required: residual(lower) < 0 and residual(upper) > 0 strictly.  (The initial guess is not constrained: the root finder
    clips it into the bracket.)"""
    rule = "D2/T2-bracket-roles"
    mod = ctx.need_module(J2)
    us = ctx.need(f"{J2}:update_state")
    from fractions import Fraction
    half = Dual(Fraction(1, 2))
    fams = {"axial": [[Dual(1), Dual(0), Dual(0)], [Dual(0), -half, Dual(0)], [Dual(0), Dual(0), -half]],
            "shear": [[Dual(0), Dual(1), Dual(0)], [Dual(1), Dual(0), Dual(0)], [Dual(0), Dual(0), Dual(0)]]}
    n_done = 0
    for fam, Dm in fams.items():
        for hcase in ("H>0", "H=0"):
            for scase in ("s0>0", "s0=0"):
                tag = f"{fam},{hcase},{scase}"
                I, rec = _interp(ctx, True)       # flow direction on its regular branch (non-zero deviator)
                try:
                    hmod = ctx.need_module("optimism.material.Hardening")
                    opts = {"hardening model": "linear"}
                    if hcase == "H=0":
                        opts["hardening modulus"] = Dual(0)
                    hprops = mt.PropDict(I, opts, {"hardening model", "rate sensitivity"})
                    hm = I.call(I.module_value(hmod, "create_hardening_model"), [hprops], {})
                    s0 = Dual(_A.atom("s0")) if scase == "s0>0" else Dual(0)
                    I.positive.update({"s0", "t", "x", "dt"})
                    state = Arr([s0] + [Dual(_A.atom(f"s{k}")) for k in range(1, 10)], (10,))
                    props = PosVec("p", I)
                    dt = Dual(_A.atom("dt"))
                    t, q = Dual(_A.atom("t")), Dual(_A.atom("q"))
                    E = Arr([t * Dm[i][j] + (q if i == j else Dual(0)) for i in range(3) for j in range(3)], (3, 3))
                    I.call(I.module_value(mod, "update_state"), [E, state, dt, props, hm], {})
                    args = rec.get("args")
                    if not args or len(args) < 3 or not isinstance(args[2], Arr):
                        ctx.undecided(rule, us, None, construct=f"bracket-signs[{tag}]", detail="find_root call not observed")
                        continue
                    f, guess = args[0], I.num(args[1])
                    lb, ub = args[2].data[0], args[2].data[1]
                    fl, fu = I.num(I.call(f, [lb], {})), I.num(I.call(f, [ub], {}))
                    # trial Mises stress T(t) = c*t from the residual at the lower end: fl = -(T - Y_old); Y_old from the hardening model
                    Yold = I.num(I.call(hm.values[1], [s0, s0, dt], {}))
                    T = _A.norm((-fl - Dual(0)).a + Yold.a) if False else _A.norm(Yold.a - fl.a)
                    c = _A.diff(T, "t")
                    lin = _A.equal(_A.norm(c * _A.atom("t")), T) and rat_sign(c, I.positive) == 1 and "t" not in c.atoms()
                    if not lin:
                        ctx.undecided(rule, us, None, construct=f"bracket-signs[{tag}]", detail=f"residual at the lower end is not flow stress - c*t: {fl.a!r}")
                        continue
                    # yielding: T = Y_old + x with x > 0  <=>  t = (Y_old + x)/c
                    tx = _A.norm((Yold.a + _A.atom("x")) / c)
                    sub = lambda d: _A.norm(simplify(_A.subst(d.a, "t", tx)))
                    sl_, su_ = rat_sign(sub(fl), I.positive), rat_sign(sub(fu), I.positive)
                    wit_l = wit_u = ""
                    if sl_ is None:
                        w = _sign_witness(sub(fl), want_positive=False)
                        if w:
                            sl_, wit_l = 1, w
                    if su_ is None:
                        w = _sign_witness(sub(fu), want_positive=True)
                        if w:
                            su_, wit_u = -1, w
                    n_done += 1
                    ctx.decide(rule, (sl_ == -1) if sl_ is not None else None, us, None, construct=f"residual-negative-at-lower-end[{tag}]",
                               detail=f"residual(lower) = {sub(fl)!r} < 0 while yielding",
                               bad_detail=f"residual at the lower bracket end is {sub(fl)!r} (x = yield excess > 0): not negative{wit_l}, the bracket [old eqps, .] does not enclose the root from below")
                    ctx.decide(rule, (su_ == 1) if su_ is not None else None, us, None, construct=f"residual-positive-at-upper-end[{tag}]",
                               detail=f"residual(upper) = {sub(fu)!r} > 0",
                               bad_detail=f"residual at the upper bracket end is {sub(fu)!r} for {hcase}, {scase} (x = yield excess > 0): not strictly positive{wit_u}, so the "
                                          f"sign test of the root finder (NaN unless f(lo)*f(hi) < 0) is decided by round-off and the update returns NaN")
                except (EvalError, Raised, KeyError, IndexError, TypeError, AttributeError, ZeroDivisionError) as ex:
                    ctx.undecided(rule, us, None, construct=f"bracket-signs[{tag}]", detail=str(ex))
    ctx.assume("the plastic residual depends on the trial strain only through its deviator (isotropy): bracket signs are decided on two deviatoric directions")


def d3_wiring(ctx):
    rule = "D3/T5-variational-wiring"
    mod = ctx.need_module(J2)
    ip = ctx.need(f"{J2}:incremental_potential")
    bs = mod.scope.bindings.get("r")
    ok = False
    detail = "residual binding `r` not found"
    argn = None
    if bs:
        v = bs[-1].value
        if isinstance(v, ast.Call) and (dotted(v.func) or "").split(".")[-1] in ("jacfwd", "grad", "jacrev") and len(v.args) >= 1:
            tgt = ctx.repo.resolve(v.args[0], mod.scope)
            is_ip = any(isinstance(t, FuncVal) and t.scope is ip for t in tgt)
            argn = const_value(v.args[1]) if len(v.args) > 1 else 0
            pos = ip.params().index("eqps") if "eqps" in ip.params() else None
            ok = is_ip and pos is not None and argn == pos
            detail = f"r = d(incremental_potential)/d(argument {argn}); eqps is parameter {pos}"
    ctx.decide(rule, ok, mod.scope, bs[-1].node if bs else None, construct="residual-is-derivative-wrt-eqps", detail=detail,
               bad_detail=f"{detail}: the stationarity condition is taken with respect to the wrong variable")
    us = ctx.need(f"{J2}:update_state")
    lam_ok = False
    shown = "?"
    from .common import defs_to_lambdas
    for c in calls_in(us):
        if (dotted(c.func) or "").endswith("find_root") and c.args:
            lam = defs_to_lambdas(c.args[0], us)
            if not isinstance(lam, ast.Lambda):
                continue
            shown = src(lam)
            v = lam.args.args[0].arg
            body = lam.body
            if isinstance(body, ast.Call) and isinstance(body.func, ast.Name) and body.func.id == "r" and argn is not None:
                args = [a.id if isinstance(a, ast.Name) else None for a in body.args]
                want = list(ip.params())
                # slot `argn` varies, the others are passed in the order of incremental_potential's parameters
                roles = {"elasticTrialStrain": us.params()[0], "eqpsOld": None, "dt": us.params()[2], "props": us.params()[3], "hardening_model": us.params()[4]}
                lam_ok = len(args) == len(want) and args[argn] == v and args.count(v) == 1 and args[0] == us.params()[0] \
                    and args[3:] == us.params()[2:5]
                # eqpsOld slot must be the old state's eqps
                from .common import expand
                cfg = cfg_of(us)
                node = [n for n in cfg.nodes if n.ast is not None and any(x is c for x in ast.walk(n.ast))][0]
                old = expand(cfg, node, body.args[2])
                lam_ok = lam_ok and same(old, f"{us.params()[1]}[EQPS]")
    ctx.decide(rule, lam_ok, us, None, construct="root-finding-lambda-varies-eqps", detail=shown,
               bad_detail=f"root-finding function `{shown}` does not vary exactly the eqps slot of the residual with (trial strain, old eqps, dt, props, hardening) in the other slots")
    # the energy closure and the incremental potential share flow direction and hardening slots
    ed = ctx.need(f"{J2}:_energy_density")
    from .common import return_normal_form, sem_same
    e_ = ed.params()     # elStrain, state, dt, props, hardening_model
    inc_ = f"compute_state_increment({e_[0]}, {e_[1]}, {e_[2]}, {e_[3]}, {e_[4]})"
    want_w = (f"elastic_free_energy({e_[0]} - {inc_}[PLASTIC_DISTORTION].reshape((3, 3)), {e_[3]}) + "
              f"{e_[4]}[ENERGY_DENSITY]({e_[1]}[EQPS] + {inc_}[EQPS], {e_[1]}[EQPS], {e_[2]})")
    nf_ = return_normal_form(ed)
    ok = nf_ is not None and sem_same(nf_, want_w, ed)
    ctx.decide(rule, ok, ed, None, construct="energy-evaluated-at-updated-state", detail="W = elastic_free_energy(trial - d_plastic) + hardening(eqps_new, eqps_old, dt)",
               bad_detail="_energy_density does not evaluate the elastic energy at the updated elastic strain plus the hardening potential at (eqps_new, eqps_old, dt)")


def d3_dispatch(ctx):
    rule = "D3/T14-kinematics-dispatch"
    mod = ctx.need_module(J2)
    fac = ctx.need(f"{J2}:create_material_model_functions")
    values, optional, presence = mt.option_space(ctx, [J2])
    kin = sorted(values.get("kinematics", []))
    if len(kin) < 3:
        raise Incomplete(f"kinematics options found: {kin}")
    for k in kin + [None]:
        I = mt.make_interp(ctx.repo)
        sc = {"hardening model": "linear"}
        if k:
            sc["kinematics"] = k
        props = mt.PropDict(I, sc, {"kinematics", "hardening model", "rate sensitivity"})
        try:
            model = I.call(I.module_value(mod, "create_material_model_functions"), [props], {})
            e_cl = model.get("compute_energy_density")
            s_cl = model.get("compute_state_new")
            def _free_callee(cl, nargs_prefix):
                """the captured function variable that the closure calls with its own leading parameters"""
                ps_ = cl.scope.params()
                for c_ in calls_in(cl.scope):
                    if isinstance(c_.func, ast.Name) and len(c_.args) >= nargs_prefix and all(isinstance(a_, ast.Name) and a_.id == ps_[i_]
                                                                                              for i_, a_ in enumerate(c_.args[:nargs_prefix])):
                        try:
                            v_ = cl.env.lookup(c_.func.id)
                        except Exception:
                            continue
                        if isinstance(v_, Closure) and c_.func.id not in cl.scope.module.scope.bindings:
                            return v_
                raise KeyError("captured callee not found")
            strain_fn = _free_callee(e_cl, 2)
            upd_fn = _free_callee(s_cl, 3)
            init_fn = model.get("compute_initial_state")
        except (EvalError, Raised, KeyError, AttributeError) as ex:
            ctx.undecided(rule, fac, None, construct=f"kinematics={k}", detail=str(ex))
            continue
        called = set()
        for c in calls_in(upd_fn.scope):
            for v in ctx.repo.resolve(c.func, upd_fn.scope):
                if isinstance(v, FuncVal):
                    called.add(v.scope.qualname)
        ok = strain_fn.scope.qualname in called
        finite = "finite" in upd_fn.scope.name
        ok_init = ("finite" in init_fn.scope.name) == finite
        ctx.decide(rule, ok and ok_init, fac, None, construct=f"kinematics={k or 'default'}",
                   detail=f"energy uses {strain_fn.scope.name}; update {upd_fn.scope.name} uses the same; initial state {init_fn.scope.name}",
                   bad_detail=f"for kinematics={k or 'default'} the energy uses {strain_fn.scope.name} but the state update {upd_fn.scope.name} "
                              f"calls {sorted(x.split(':')[-1] for x in called if 'strain' in x)}; initial state {init_fn.scope.name}")


def variants(repo):
    from optilint.selftest import Variant, sub, sub_in_func, alpha_rename, reformat
    J = "optimism/material/J2Plastic.py"
    return [
        Variant("flow direction from full strain", J, sub_in_func("compute_flow_direction", "np.sqrt(3./2.)/np.sqrt(devElasticStrainNormSquared) * devElasticStrain", "np.sqrt(3./2.)/np.sqrt(devElasticStrainNormSquared) * elasticStrain"), "D1/T9-traceless-flow"),
        Variant("degenerate-direction threshold 1e-8", J, sub_in_func("compute_flow_direction", "    isNonzero = devElasticStrainNormSquared > 1e-16", "    isNonzero = devElasticStrainNormSquared > 1e-8"), "D1/T7-degenerate-direction-unreachable-while-yielding"),
        Variant("degenerate-direction threshold 1e-20 (equivalent)", J, sub_in_func("compute_flow_direction", "    isNonzero = devElasticStrainNormSquared > 1e-16", "    isNonzero = devElasticStrainNormSquared > 1e-20"), None),
        Variant("fallback direction with diagonal", J, sub("    dummyN = 0.5*np.array([[0.0, 1.0, 1.0],", "    dummyN = 0.5*np.array([[1.0, 1.0, 1.0],"), "D1/T9-traceless-flow"),
        Variant("increment adds eqps to diagonal", J, sub_in_func("update_state", "    DeltaPlasticStrain = DeltaEqps*N", "    DeltaPlasticStrain = DeltaEqps*(N + np.identity(3))"), "D1/T9-traceless-flow"),
        Variant("elastic branch wrong length", J, sub_in_func("compute_state_increment", "lambda e: np.zeros(NUM_STATE_VARS),", "lambda e: np.zeros(NUM_STATE_VARS-1),"), "D2/T2-bracket-roles"),
        Variant("slice off by one", J, sub("PLASTIC_DISTORTION = slice(1,1+9)", "PLASTIC_DISTORTION = slice(0,9)"), "D1/T5-state-layout"),
        Variant("exp of the whole increment", J, sub_in_func("compute_state_new_finite_deformations", "TensorMath.exp_symm(stateInc[PLASTIC_DISTORTION].reshape((3,3)))@FpOld", "TensorMath.exp_symm(stateInc[PLASTIC_DISTORTION].reshape((3,3)).T + np.identity(3))@FpOld"), "D1/T5-state-layout"),
        Variant("plastic update order", J, sub_in_func("compute_state_new_finite_deformations", "TensorMath.exp_symm(stateInc[PLASTIC_DISTORTION].reshape((3,3)))@FpOld", "FpOld@TensorMath.exp_symm(stateInc[PLASTIC_DISTORTION].reshape((3,3)))"), "D1/T9-frames"),
        Variant("bracket lower end 0", J, sub_in_func("update_state", "    lb = eqpsOld\n", "    lb = 0.0\n"), "D2/T2-bracket-roles"),
        Variant("kinetic potential without dt", "optimism/material/Hardening.py", sub("    return m/(m + 1)*S*epsDot0*dt*(eqpsDot/epsDot0)**((m+1)/m)", "    return m/(m + 1)*S*epsDot0*(eqpsDot/epsDot0)**((m+1)/m)"), "D3/T8-dimensional-homogeneity"),
        Variant("strain rate normalised by a strain", "optimism/material/Hardening.py", sub("        epsDot0 = properties['reference plastic strain rate']", "        epsDot0 = properties['reference plastic strain']"), "D3/T8-dimensional-homogeneity"),
        Variant("upper end is the root without hardening", J, sub_in_func("update_state", "    ub = eqpsOld + trialMises/(3.0*props[PROPS_MU])\n", "    ub = ub + 0.0\n"), "D2/T2-bracket-roles"),
        Variant("upper end too close", J, sub_in_func("update_state", "    ub = eqpsOld + trialMises/(3.0*props[PROPS_MU])\n", "    ub = eqpsOld + trialMises/(6.0*props[PROPS_MU])\n"), "D2/T2-bracket-roles"),
        Variant("upper end below lower end", J, sub_in_func("update_state", "    ub = eqpsOld + trialMises/(3.0*props[PROPS_MU])\n", "    ub = eqpsOld - trialMises/(3.0*props[PROPS_MU])\n"), "D2/T2-bracket-roles"),
        # a wider (still valid) bracket and a different initial guess do not break the property: the root finder clips the guess
        Variant("wider bracket (equivalent)", J, sub_in_func("update_state", "    ub = eqpsOld + trialMises/(3.0*props[PROPS_MU])\n", "    ub = eqpsOld + trialMises/props[PROPS_MU]\n"), None),
        Variant("guess at a third (equivalent)", J, sub_in_func("update_state", "    eqpsGuess = 0.5*(lb + ub)", "    eqpsGuess = lb + (ub - lb)/3.0"), None),
        Variant("increment is the root", J, sub_in_func("update_state", "    DeltaEqps = eqps - eqpsOld", "    DeltaEqps = eqps"), "D2/T2-bracket-roles"),
        Variant("jacfwd argnum 2", J, sub("r = jax.jacfwd(incremental_potential, 1)", "r = jax.jacfwd(incremental_potential, 2)"), "D3/T5-variational-wiring"),
        Variant("lambda varies old eqps", J, sub_in_func("update_state", "lambda e: r(elasticTrialStrain, e, eqpsOld, dt, props, hardening_model)", "lambda e: r(elasticTrialStrain, eqpsOld, e, dt, props, hardening_model)"), "D3/T5-variational-wiring"),
        Variant("seth-hill energy with linear update", J, sub("            compute_state_new_func = compute_state_new_seth_hill", "            compute_state_new_func = compute_state_new_small_deformations"), "D3/T14-kinematics-dispatch"),
        Variant("reformat J2Plastic", J, reformat(), None),
        Variant("alpha-rename update_state", J, alpha_rename("update_state"), None),
        Variant("alpha-rename compute_flow_direction", J, alpha_rename("compute_flow_direction"), None),
    ]
