"""C09 -- J2 plasticity update: isochoric, irreversible, consistently wired (structural clauses).

Every obligation is an identity / sign statement about *values* obtained by interpreting the public model interface
(rules/C09_sym.py: the factory `create_material_model_functions` and the closures it returns, for every kinematics option
the factory itself distinguishes) on symbolic inputs, on every feasible path (both outcomes of every comparison the
interpreter cannot decide).  The scalar solve is a recorder that returns a symbolic root; spectral tensor functions of
non-diagonal arguments are opaque symmetric matrices interned on their argument.  No statement shape, local name, helper
name or idiom is looked at; the slots of the state vector are found by use (the slot that receives the root is the
equivalent plastic strain).

  D1  isochoric: on every path of every kinematics option the plastic increment is traceless: for an additive update
      new - old (tensor segment), for a multiplicative update the argument A of the matrix exponential in
      new = exp(A) @ old (det exp A = exp tr A; frames: rules/frames.py); the virgin state has zero equivalent plastic
      strain and distortion identity (multiplicative) resp. zero plastic strain (additive); the exponential's argument is
      the plastic increment the additive update applies for the same trial strain; the state layout constants agree with
      the roles found by use; the dummy flow direction used below the degeneracy threshold cannot be reached while yielding;
  D2  irreversible: on every yielding path the bracket handed to the root finder starts at the old equivalent plastic
      strain, the new value is the root, the elastic paths leave the state unchanged; the quantity whose positivity is
      the yield test is minus the residual at the old state up to a non-negative offset (so yielding => residual(lower
      end) < 0), and the residual is strictly positive at the upper end (root-finder contract), for H > 0, H = 0, with
      and without rate sensitivity; two sites, one quantity: the residual tolerance rho of the settings handed to the root finder
      (the field that get_settings' r_tol reaches; the step tolerance must be 0) and the tolerance b / a of the yield test
      g = a * (-residual(old eqps)) - b > 0 satisfy a * rho - b <= 0 for all constants and old states, on every yielding path of
      every kinematics option (generic data) and on the strain families (H > 0 / H = 0, hardened / virgin old state): every iterate
      the solve accepts is accepted as elastic by the yield test at the committed state (yield consistency to the tolerance of
      the yield test, repeated update changes nothing);
  D3  variational wiring: the residual handed to the root finder is d/d(eqps) of the energy density the model exposes,
      evaluated at the updated state (stationarity of the incremental potential); for additive kinematics and
      rate-independent hardening the energy is the same before and after the update is committed; for each kinematics
      option the energy closure and the state update solve the same scalar equation on the same bracket (same trial
      elastic strain).
Not decided: that the iteration reaches the tolerance (C17: convergence of the safeguarded Newton iteration is numerical), round-off
in the evaluation of the yield test, minimality (second-order condition); commit
invariance for the multiplicative update (needs log(exp(A) B) identities); the size of the degeneracy tolerance.
"""
from __future__ import annotations

import math
from fractions import Fraction

from optilint.core import Incomplete
from optilint import tensoreval as te
from optilint.tensoreval import Dual, Arr, EvalError, Raised, _A, rat_is_zero, rat_sign, rat_const, matmul, ONE
from optilint.expr import simplify
from . import materials as mt
from . import frames
from . import C09_sym as sym
from .C09_sym import (Harness, explore, atom, generic, generic_sym, ident3, zeros3, trace3, sub3, dev3, ddot, d_equal, arr_equal,
                      all_atoms, short, family_matrix, FAMILIES, INTERP_ERRORS, J2, HARD)

LEVEL = "other"
RULE_TEXT = ("obligations = (kinematics option x feasible path: trace of the plastic increment is 0) + (option: state slot roles, virgin state, "
             "update structure) + (yielding path: root-finder bracket roles and signs; residual tolerance of the solve within the tolerance of the yield test) + "
             "(case: residual = d energy / d eqps; commit invariance) + "
             "(option: energy closure and state update solve the same equation) + (option scenario: dimensional homogeneity)")
EXPLANATION = ("Abstract interpretation of the J2 model through its factory and returned closures on generic symbolic tensors (exact rational "
               "entries, all feasible paths, recording root finder, interned opaque spectral functions): tracelessness of the plastic increment, "
               "state layout by use, bracket roles and residual signs, stop tolerance of the scalar solve against the tolerance of the yield test, "
               "stationarity of the exposed energy, commit invariance, agreement of the "
               "scalar equation between energy and state update per kinematics option; frame typing of the finite-deformation update; "
               "dimensional homogeneity by unit scaling. Numerical accuracy of the return mapping is not decided.")


def run(ctx):
    ctx.need_module(J2)
    ctx.need_module(HARD)
    h = ctx.guard(Harness, ctx)
    if h is not None:
        for fn in (d1_traceless, d1_degenerate_threshold, d1_layout, d2_bracket, d3_wiring, d3_dispatch):
            ctx.guard(_rule, ctx, h, fn)
        # the functions the interpreter went through are analysed functions (the thorough tier alpha-renames each of them)
        for q in sorted(h.visited):
            s = ctx.repo.find(q)
            if s is not None and "<" not in q:
                ctx.touch(s)
    from . import units
    ctx.guard(units.run, ctx, "D3/T8-dimensional-homogeneity", {J2}, min_scenarios=8)
    ctx.guard(frames.run_frames_state_only, ctx, "D1/T9-frames", [f"{J2}:compute_state_new_finite_deformations"])
    from . import tensorid
    ctx.guard(tensorid.run_identities, ctx, "D1/T7-tensor-helper-identities", ["inv", "deviator", "norm_of_deviator_squared"])
    ctx.trust("det exp(A) = exp(tr A); an isotropic function of a symmetric tensor commutes with it")
    ctx.assume("shear modulus > 0; the root returned by find_root lies in the bracket it is given (C17)")
    ctx.assume("the values given to ScalarRootFind.get_settings as r_tol / x_tol bound |residual| / |step| at convergence of find_root (C17 O4, O6)")


def _rule(ctx, h, fn):
    try:
        return fn(ctx, h)
    except (EvalError, Raised, ZeroDivisionError, RecursionError, Incomplete) as ex:
        ctx.undecided(fn.RULE, h.fscope, None, construct=f"{fn.__name__}: not interpretable", detail=str(ex)[:300])


def _kname(kin):
    return kin if kin is not None else "default"


# ------------------------------------------------------------------ shared semantic facts

def _yielding(h, kin, run, old_eqps):
    """A path is a yielding path when the state update stores the root of the scalar solve in the equivalent-plastic-strain slot."""
    e, _ = h.split_state(kin, run.value)
    return Harness.ROOT in all_atoms(e)


def _update_kind(h, kin):
    """'multiplicative' when the new tensor segment is built from a matrix exponential (a spectral call whose scalar function maps
    the probe z to exp[z]) of the plastic increment; 'additive' when no exponential is involved.  Returns (kind, facts)."""
    cache = h.__dict__.setdefault("_kind_cache", {})
    if kin in cache:
        return cache[kin]
    sc = h.scenario(kin)
    s_init = h.initial_state(sc)
    _, T0 = h.split_state(kin, s_init)
    state = h.make_state(kin, atom("s0"), T0)
    kind = None
    for p in h.paths(sc, "compute_state_new", [family_matrix("shear"), state, atom("dt")]):
        if p.error is not None:
            raise EvalError(f"state update ({_kname(kin)}) not interpretable: {p.error}")
        if not _yielding(h, kin, p.value, atom("s0")):
            continue
        _, Tn = h.split_state(kin, p.value.value)
        exps = [(A, R) for (A, sig, R) in p.value.spectral if "exp[@z]" in sig and (all_atoms(R) & all_atoms(Tn)) - {"s0", "t", "q"}]
        k = "multiplicative" if exps else "additive"
        if kind is not None and k != kind:
            raise EvalError("update is multiplicative on one yielding path and additive on another")
        kind = k
    if kind is None:
        raise EvalError(f"no yielding path found for kinematics {_kname(kin)}")
    cache[kin] = kind
    return kind


def _increment(h, kin, run, T_old):
    """(kind, plastic increment tensor) of one run of the state update: new - old (additive) or the argument of the matrix
    exponential whose result multiplies the old distortion (multiplicative); the exponential's result is returned as third item."""
    kind = _update_kind(h, kin)
    _, Tn = h.split_state(kin, run.value)
    if kind == "additive":
        return kind, sub3(Tn, T_old), None
    cands = [(A, R) for (A, sig, R) in run.spectral if "exp[@z]" in sig]
    used = [(A, R) for (A, R) in cands if (all_atoms(R) - all_atoms(A) - all_atoms(T_old)) & all_atoms(Tn)] or \
           [(A, R) for (A, R) in cands if arr_equal(matmul(R, T_old), Tn)]
    if not used:
        if arr_equal(Tn, T_old):
            return kind, zeros3(), ident3()         # no plastic flow on this path
        raise EvalError("the matrix exponential entering the new distortion was not identified")
    if len(used) > 1:
        raise EvalError("several matrix exponentials enter the new distortion")
    return kind, used[0][0], used[0][1]


# ------------------------------------------------------------------ D1

def d1_traceless(ctx, h):
    rule = d1_traceless.RULE
    dt = atom("dt")
    for kin in h.kinematics():
        sc = h.scenario(kin)
        try:
            kind = _update_kind(h, kin)
            _, T0 = h.split_state(kin, h.initial_state(sc))
            # additive: generic symmetric plastic strain; multiplicative: the virgin distortion (the general one is used in the layout rule)
            T_old = generic_sym("p") if kind == "additive" else T0
            state = h.make_state(kin, atom("s0"), T_old)
            paths = h.paths(sc, "compute_state_new", [generic("h"), state, dt])
        except INTERP_ERRORS as ex:
            ctx.undecided(rule, h.fscope, None, construct=f"{_kname(kin)}:plastic-increment-traceless", detail=str(ex)[:300])
            continue
        for p in paths:
            cons = f"kinematics={_kname(kin)}[path {p.label()}]:plastic-increment-traceless"
            if p.error is not None:
                ctx.undecided(rule, h.fscope, None, construct=cons, detail=str(p.error)[:300])
                continue
            try:
                _, A, _ = _increment(h, kin, p.value, T_old)
                tr = trace3(A)
                yielding = _yielding(h, kin, p.value, atom("s0"))
            except INTERP_ERRORS as ex:
                ctx.undecided(rule, h.fscope, None, construct=cons, detail=str(ex)[:300])
                continue
            what = "new - old plastic strain" if kind == "additive" else "argument of the matrix exponential multiplying the old distortion"
            ctx.decide(rule, rat_is_zero(_A.norm(simplify(tr.a))), h.fscope, None, construct=cons,
                       detail=f"{kind} update, {'yielding' if yielding else 'elastic'} path: trace of the plastic increment ({what}) is identically 0",
                       bad_detail=f"kinematics={_kname(kin)}, {'yielding' if yielding else 'elastic'} path: the plastic increment ({what}) has trace {short(tr)}: "
                                  f"the plastic flow changes volume (det of the plastic distortion / trace of the plastic strain is not preserved)")
    # the flow direction function, when the module still exposes one under its public name (both outcomes of its switch)
    fd = ctx.repo.find(f"{J2}:compute_flow_direction")
    if fd is not None and len(fd.params()) == 1:
        def run_fd(pol):
            I, _, _ = h.interp(pol)
            return I.call(I.module_value(h.mod, "compute_flow_direction"), [generic("e")], {})
        for p in explore(run_fd):
            cons = f"flow-direction[path {p.label()}]"
            if p.error is not None or not isinstance(p.value, Arr) or p.value.size() != 9:
                ctx.undecided(rule, fd, None, construct=cons, detail=str(p.error)[:300])
                continue
            tr = trace3(p.value.reshape((3, 3)))
            ctx.decide(rule, rat_is_zero(_A.norm(simplify(tr.a))), fd, None, construct=cons,
                       detail="trace of the flow direction is identically 0 for a generic strain",
                       bad_detail=f"flow direction has trace {short(tr)} on the path {p.label()} of its degeneracy switch: plastic flow would change volume")


d1_traceless.RULE = "D1/T9-traceless-flow"


def _poly_additive_option(h):
    """A kinematics option with an additive update whose trial strain is a polynomial of the displacement gradient (no spectral
    function is called on family strains): the setting in which signs can be decided."""
    if "_poly_option" in h.__dict__:
        return h._poly_option
    why = []
    for kin in h.kinematics():
        try:
            if _update_kind(h, kin) != "additive":
                continue
            sc = h.scenario(kin)
            state = h.make_state(kin, atom("s0"), zeros3())
            ps = h.paths(sc, "compute_state_new", [family_matrix("axial"), state, atom("dt")])
            if all(p.error is None and not p.value.spectral for p in ps):
                h._poly_option = kin
                return kin
        except INTERP_ERRORS as ex:
            why.append(str(ex)[:80])
    raise Incomplete(f"no kinematics option with an additive update and a polynomial strain measure was found {why[:2]}")



def _direction_split(h, kin, paths, T_old, E):
    """Among yielding paths: (regular, fallback) -- on a regular path the plastic increment is parallel to the deviator of the trial
    strain E with a positive factor, on a fallback path it is a fixed matrix times the increment of the equivalent plastic strain."""
    reg, fb = [], []
    dE = dev3(E)
    for p in paths:
        if p.error is not None or not _yielding(h, kin, p.value, None):
            continue
        _, A, _ = _increment(h, kin, p.value, T_old)
        par = all(d_equal(A.data[i] * dE.data[j], A.data[j] * dE.data[i]) for i in range(9) for j in range(i + 1, 9))
        (reg if par else fb).append(p)
    return reg, fb


def _threshold_along_rays(g, Q):
    """g > 0 selects the fallback direction.  Along the rays H = t * D (two deviatoric directions D) g must be positive for tiny t
    and negative for large t; returns |dev E|^2 at the switch when both rays agree (the criterion is isotropic), else None."""
    cs = []
    for D in FAMILIES.values():
        def env(t, D=D):
            return {f"h{i}{j}": t * float(D[i][j]) for i in range(3) for j in range(3)}

        def gv(t):
            try:
                v = _A.eval(g, env(t))
            except (KeyError, ZeroDivisionError, ValueError, OverflowError):
                return None
            return None if v != v else v
        lo, hi = 1e-40, 1e3
        a, b = gv(lo), gv(hi)
        if a is None or b is None or not (a > 0 and b < 0):
            return None
        for _ in range(300):
            mid = math.sqrt(lo * hi)
            v = gv(mid)
            if v is None:
                return None
            if v > 0:
                lo = mid
            else:
                hi = mid
        try:
            cs.append(_A.eval(Q.a, env(hi)))
        except (KeyError, ZeroDivisionError, ValueError):
            return None
    if not cs or min(cs) <= 0 or (max(cs) - min(cs)) > 1e-6 * max(cs):
        return None
    return max(cs)


def d1_degenerate_threshold(ctx, h):
    """The flow direction falls back to a fixed dummy direction when |dev E|^2 <= c.  On a yielding step the trial Mises stress
    2 mu dev(E):N must exceed the flow stress >= Y0; with the fallback direction it is at most 2 mu sqrt(c) |N_fallback|.  So the
    fallback can only be taken while yielding if Y0/mu < 2 sqrt(c |N_fallback|^2): that bound must lie below every admissible
    yield strain (assumption recorded: yield strength / shear modulus >= 1e-6).
    c and N_fallback are read off the *paths*: the comparison on which a regular and a fallback yielding path part is the
    degeneracy test; its difference expression must be k (|dev E|^2 - c) with E the trial strain."""
    rule = d1_degenerate_threshold.RULE
    kin = _poly_additive_option(h)
    sc = h.scenario(kin)
    H = generic("h")
    state = h.make_state(kin, atom("s0"), zeros3())
    paths = h.paths(sc, "compute_state_new", [H, state, atom("dt")])
    E = Arr([(H.data[i * 3 + j] + H.data[j * 3 + i]) * Dual(Fraction(1, 2)) for i in range(3) for j in range(3)], (3, 3))
    # the trial strain of this option at zero plastic strain must be sym(H) for the reading below; checked through the regular path
    reg, fb = _direction_split(h, kin, paths, zeros3(), E)
    if not reg:
        ctx.undecided(rule, h.fscope, None, construct="threshold", detail="no yielding path whose plastic increment is parallel to dev(sym(H)) was found")
        return
    if not fb:
        ctx.proved(rule, h.fscope, None, construct="fallback-needs-yield-strain-below-bound", detail="no yielding path uses a direction other than the deviator of the trial strain")
        return
    Q = ddot(dev3(E), dev3(E))
    results = []
    for pf in fb:
        # the decision on which this fallback path parts from a regular path
        best = None
        for pr in reg:
            for (k1, d1, s1), (k2, d2, s2) in zip(pf.trail, pr.trail):
                if k1 != k2:
                    break
                if s1 != s2:
                    best = (d1, s1)
                    break
            if best:
                break
        if best is None:
            ctx.undecided(rule, h.fscope, None, construct="threshold", detail="the comparison that selects the fallback direction was not identified")
            return
        d, s = best
        g = _A.norm(d * te.R(s))                  # g > 0 (or >= 0) on the fallback side
        c0 = g
        for a_ in sorted(g.atoms()):
            c0 = _A.subst(c0, a_, te.R(0))
        c0v = rat_const(c0)
        rest = _A.norm(c0 - g)                    # must be k * |dev E|^2, k > 0
        kq = None
        if c0v is not None and c0v > 0 and rest.d.is_const() and Q.a.d.is_const() and not Q.a.n.is_zero():
            m0 = sorted(Q.a.n.t)[0]
            cq = Q.a.n.t[m0] / Q.a.d.const_value()
            cr = rest.n.t.get(m0, Fraction(0)) / rest.d.const_value()
            kq = cr / cq if cq != 0 else None
        if kq is None or kq <= 0 or not _A.equal(rest, _A.norm(Q.a * te.R(kq))):
            # not literally k (c - |dev E|^2): locate the switch numerically along two deviatoric rays (isotropic criterion)
            c = _threshold_along_rays(g, Q)
            if c is None:
                ctx.undecided(rule, h.fscope, None, construct="threshold",
                              detail=f"the test that selects the fallback direction is not a bound on |dev E|: {short(g)} > 0")
                return
        else:
            c = c0v / kq
        _, A, _ = _increment(h, kin, pf.value, zeros3())
        e_new, _ = h.split_state(kin, pf.value.value)
        delta = e_new - atom("s0")
        nn = ddot(A, A) / (delta * delta)
        nnv = rat_const(_A.norm(simplify(nn.a)))
        if nnv is None:
            ctx.undecided(rule, h.fscope, None, construct="threshold", detail=f"|N_fallback|^2 is not a constant: {short(nn)}")
            return
        results.append((float(c), float(nnv)))
    c, nn = max(results, key=lambda r: r[0] * r[1])
    bound = 2.0 * math.sqrt(c * nn)
    ctx.decide(rule, bound <= 1e-6, h.fscope, None, construct="fallback-needs-yield-strain-below-bound",
               detail=f"fallback when |dev E|^2 <= {c:g}; reachable while yielding only if Y0/mu < {bound:.3g} (<= 1e-6)",
               bad_detail=f"the dummy flow direction (|N|^2 = {nn:g}) is used when |dev E|^2 <= {c:g} (E the trial elastic strain); a step can yield there whenever "
                          f"yield strength / shear modulus < {bound:.3g}, which includes admissible materials (>= 1e-6): the plastic flow then follows the dummy direction")
    ctx.assume("admissible constants: yield strength / shear modulus >= 1e-6")


d1_degenerate_threshold.RULE = "D1/T7-degenerate-direction-unreachable-while-yielding"


def d1_layout(ctx, h):
    rule = d1_layout.RULE
    I, _, _ = h.interp()
    dt = atom("dt")
    # layout constants, when the module defines them under their public names, must agree with the roles found by use
    roles = {}
    for kin in h.kinematics():
        try:
            roles[kin] = h.roles(kin)
        except INTERP_ERRORS as ex:
            ctx.undecided(rule, h.fscope, None, construct=f"kinematics={_kname(kin)}:state-slot-roles", detail=str(ex)[:300])
    if not roles:
        raise EvalError("the roles of the state slots could not be found for any kinematics option")
    n, ie, seg = list(roles.values())[0]
    same_roles = all(r == (n, ie, seg) for r in roles.values())
    consts = {}
    for nm in ("EQPS", "PLASTIC_DISTORTION", "NUM_STATE_VARS"):
        if nm in h.mod.scope.bindings:
            try:
                consts[nm] = I.module_value(h.mod, nm)
            except INTERP_ERRORS:
                pass
    shown = f"roles by use: {n} slots, equivalent plastic strain in slot {ie}, tensor in slots {seg[0]}..{seg[-1]}"
    if not (same_roles and len(seg) == 9 and seg == list(range(seg[0], seg[0] + 9))):
        # unusual but not contradictory: the constants cannot be compared with one layout
        ctx.undecided(rule, h.mod.scope, None, construct="constants", detail=f"the kinematics options use different state layouts or a non-contiguous tensor segment: {roles}")
        consts = None
    bad = []
    consts_ = consts or {}
    eq = consts_.get("EQPS")
    if isinstance(eq, slice):
        eq = list(range(*eq.indices(n)))
        eq = eq[0] if len(eq) == 1 else eq
    if isinstance(eq, (int, list)) and not isinstance(eq, bool) and eq != ie:
        bad.append(f"EQPS = {consts['EQPS']} but the root of the scalar solve is stored in slot {ie}")
    sl = consts_.get("PLASTIC_DISTORTION")
    if sl is not None and not (isinstance(sl, slice) and list(range(*sl.indices(n))) == seg):
        bad.append(f"PLASTIC_DISTORTION = {sl} does not select the 9 slots {seg[0]}..{seg[-1]} of the tensor segment")
    if "NUM_STATE_VARS" in consts_ and consts["NUM_STATE_VARS"] != n:
        bad.append(f"NUM_STATE_VARS = {consts['NUM_STATE_VARS']} but states have {n} slots")
    if consts is not None:
        ctx.decide(rule, not bad, h.mod.scope, None, construct="constants", detail=shown + f"; constants {consts}",
                   bad_detail="state layout is inconsistent: " + "; ".join(bad) + " (one scalar + 9 tensor entries expected)")
    for kin in h.kinematics():
        sc = h.scenario(kin)
        cons = f"kinematics={_kname(kin)}"
        try:
            kind = _update_kind(h, kin)
            s_init = h.initial_state(sc)
            e0, T0 = h.split_state(kin, s_init)
            want = ident3() if kind == "multiplicative" else zeros3()
            okv = s_init.shape[0] == n and e0.is_zero()
            okt = arr_equal(T0, want)
            ctx.decide(rule, okv and okt, h.fscope, None, construct=f"{cons}:virgin-state",
                       detail=f"{kind} update; virgin state has {s_init.shape[0]} slots, zero equivalent plastic strain, tensor segment {'identity' if kind == 'multiplicative' else 'zero'}",
                       bad_detail=f"{cons}: the update of the tensor segment is {kind} but the virgin state has equivalent plastic strain {short(e0)} and tensor segment "
                                  f"{[short(x, 12) for x in T0.data]} ({'identity' if kind == 'multiplicative' else 'zero'} expected: the plastic distortion must start volume preserving and stress free)")
        except INTERP_ERRORS as ex:
            ctx.undecided(rule, h.fscope, None, construct=f"{cons}:virgin-state", detail=str(ex)[:300])
            continue
        # structure of the update on a general old state
        try:
            T_old = generic("f") if kind == "multiplicative" else generic_sym("p")
            state = h.make_state(kin, atom("s0"), T_old)
            paths = h.paths(sc, "compute_state_new", [generic("h"), state, dt])
            bad, n_y = [], 0
            for p in paths:
                if p.error is not None:
                    raise EvalError(str(p.error))
                new = p.value.value
                if not isinstance(new, Arr) or new.ravel().shape[0] != n:
                    bad.append(f"path {p.label()}: the new state has shape {getattr(new, 'shape', None)}, not ({n},)")
                    continue
                e_new, T_new = h.split_state(kin, new)
                if _yielding(h, kin, p.value, None):
                    n_y += 1
                    if not d_equal(e_new, atom(Harness.ROOT)):
                        bad.append(f"yielding path {p.label()}: new equivalent plastic strain is {short(e_new)}, not the root of the scalar solve")
                    _, A, R = _increment(h, kin, p.value, T_old)
                    if kind == "multiplicative":
                        if not arr_equal(T_new, matmul(R, T_old)):
                            alts = {"old @ exp(A)": matmul(T_old, R), "exp(A).T @ old": matmul(R.T(), T_old), "exp(A) @ old.T": matmul(R, T_old.T()),
                                    "old.T @ exp(A)": matmul(T_old.T(), R)}
                            hit = [k for k, v in alts.items() if arr_equal(T_new, v)]
                            if hit:
                                bad.append(f"yielding path {p.label()}: the new plastic distortion is {hit[0]} instead of exp(A) @ old (row-major): the increment is applied "
                                           f"in the wrong configuration")
                            else:
                                raise EvalError("new distortion is not a product of the exponential and the old distortion")
                        if not all(d_equal(A.data[i * 3 + j], A.data[j * 3 + i]) for i in range(3) for j in range(i)):
                            bad.append(f"yielding path {p.label()}: the argument of the matrix exponential is not symmetric")
                    # a root equal to the old equivalent plastic strain means no plastic flow: the plastic increment must vanish with it
                    A0 = [_A.norm(simplify(_A.subst(x.a, Harness.ROOT, _A.atom("s0")))) for x in A.data]
                    if not all(rat_is_zero(x) for x in A0):
                        nz = [repr(x)[:60] for x in A0 if not rat_is_zero(x)]
                        bad.append(f"yielding path {p.label()}: when the root equals the old equivalent plastic strain the plastic increment "
                                   f"({'argument of the matrix exponential' if kind == 'multiplicative' else 'new - old plastic strain'}) is {nz[0]}, not 0: "
                                   f"the tensor segment changes without plastic flow")
                else:
                    if not d_equal(e_new, atom("s0")) or not arr_equal(T_new, T_old):
                        bad.append(f"elastic path {p.label()}: the state changes although no plastic solve is made (new eqps {short(e_new)})")
            if not n_y:
                raise EvalError("no yielding path")
            what = "new = [root, (exp(A) @ old distortion).ravel()], A symmetric" if kind == "multiplicative" else "new = old + [root - old eqps, plastic increment]"
            ctx.decide(rule, not bad, h.fscope, None, construct=f"{cons}:update-structure", detail=f"{len(paths)} paths: {what}; elastic paths leave the state unchanged",
                       bad_detail=f"{cons} ({kind} update): " + "; ".join(bad[:3]))
        except INTERP_ERRORS as ex:
            ctx.undecided(rule, h.fscope, None, construct=f"{cons}:update-structure", detail=str(ex)[:300])
    # multiplicative update: the argument of the exponential is the plastic strain increment of the return map.  Decided through the
    # property's own clause on coaxial data: the energy evaluated after committing the update equals the energy before (which applies
    # the increment internally), with log(exp(a) b) = a + log b on positive scalars.
    for kin in h.kinematics():
        try:
            if _update_kind(h, kin) != "multiplicative":
                continue
        except INTERP_ERRORS:
            continue
        _commit_invariance(ctx, h, kin, rule, f"kinematics={_kname(kin)}:exponential-argument-is-the-plastic-increment")


d1_layout.RULE = "D1/T5-state-layout"


def _commit_invariance(ctx, h, kin, rule, cons):
    """Rate-independent hardening: energy(H, old state) on a yielding path (the update is applied internally) must equal
    energy(H, new state) with new = compute_state_new(H, old) on the same path, evaluated where the committed state no longer yields."""
    dt = atom("dt")
    try:
        sc = h.scenario(kin)
        kind = _update_kind(h, kin)
        if kind == "additive":
            H, T_old, kw = generic("h"), zeros3(), {}        # (a general old plastic strain is used by the dispatch and layout rules)
        else:
            # coaxial data: F = diag(phi), Fp = diag(psi), positive
            pos = {f"phi{i}" for i in range(3)} | {f"psi{i}" for i in range(3)}
            H = Arr([(atom(f"phi{i}") - Dual(1)) if i == j else Dual(0) for i in range(3) for j in range(3)], (3, 3))
            T_old = Arr([atom(f"psi{i}") if i == j else Dual(0) for i in range(3) for j in range(3)], (3, 3))
            kw = {"logexp": True, "positive": pos}
        old = h.make_state(kin, atom("s0"), T_old)
        bad, n_y = [], 0
        for p in h.paths(sc, "compute_state_new", [H, old, dt], **kw):
            if p.error is not None:
                raise EvalError(str(p.error))
            if not _yielding(h, kin, p.value, None):
                continue
            new = p.value.value.ravel()
            W_old = h.call(sc, "compute_energy_density", [H, old, dt], policy=sym.replay_policy(p), **kw)
            if not W_old.solves:
                raise EvalError("the energy closure makes no scalar solve on a path on which the state update does")
            W_old = W_old.interp.num(W_old.value)
            after = [q for q in h.paths(sc, "compute_energy_density", [H, new, dt], preset=p, **kw) if q.error is None and not q.value.solves]
            if not after:
                raise EvalError("no path on which the committed state is elastic")
            n_y += 1
            for q in after:
                W_new = q.value.interp.num(q.value.value)
                if not d_equal(W_old, W_new):
                    diff = _A.norm(simplify((W_new - W_old).a))
                    bad.append(f"path {p.label()}: energy after committing the update minus energy before = {short(diff, 200)}")
                    break
        if not n_y:
            raise EvalError("no yielding path")
        ctx.decide(rule, not bad, h.fscope, None, construct=cons,
                   detail=f"{kind} update, rate-independent hardening: energy(H, old state) == energy(H, committed state) on {n_y} yielding path(s)",
                   bad_detail=f"kinematics={_kname(kin)} ({kind} update): the energy changes when the state update is committed, i.e. the state written by compute_state_new is not "
                              f"the state at which the energy closure evaluates the energy (plastic increment / equivalent plastic strain applied differently): " + "; ".join(bad[:2]))
    except INTERP_ERRORS as ex:
        ctx.undecided(rule, h.fscope, None, construct=cons, detail=str(ex)[:300])


# ------------------------------------------------------------------ D2

def _parting(p, others):
    """(difference expression, sign on p) of the first comparison on which p and one of `others` take different outcomes after
    agreeing on all earlier ones."""
    for o in others:
        for (k1, d1, s1), (k2, d2, s2) in zip(p.trail, o.trail):
            if k1 != k2:
                break
            if s1 != s2:
                return d1, s1
    return None


def _sign_witness(r, want_positive, strict=True):
    """A point with all symbols positive where `r` has the wrong sign (or vanishes, when strict); '' if none is found on a small grid."""
    import itertools
    atoms = sorted(r.atoms())
    plain = [a for a in atoms if not a.startswith("sqrt[")]
    if len(plain) > 7:
        return ""
    for vals in itertools.product((1.0, 1e-3, 1e3), repeat=len(plain)):
        env = dict(zip(plain, vals))
        try:
            v = _A.eval(r, env)
        except (KeyError, ZeroDivisionError, ValueError):
            continue
        if v != v:
            continue
        if (want_positive and (v <= 0 if strict else v < 0)) or (not want_positive and (v >= 0 if strict else v > 0)):
            return " (e.g. " + ", ".join(f"{k}={x:g}" for k, x in env.items()) + f" gives {v:.3g})"
    return ""


def d2_bracket(ctx, h):
    rule = d2_bracket.RULE
    dt = atom("dt")
    root = atom(Harness.ROOT)
    # roles of the bracket and of the root on every yielding path of every option (generic strain)
    for kin in h.kinematics():
        sc = h.scenario(kin)
        cons = f"kinematics={_kname(kin)}"
        try:
            _, T0 = h.split_state(kin, h.initial_state(sc))
            state = h.make_state(kin, atom("s0"), T0)
            paths = h.paths(sc, "compute_state_new", [generic("h"), state, dt])
            n_y = n_e = 0
            for p in paths:
                if p.error is not None:
                    raise EvalError(str(p.error))
                e_new, T_new = h.split_state(kin, p.value.value)
                if _yielding(h, kin, p.value, None):
                    n_y += 1
                    if not p.value.solves:
                        raise EvalError("a root appears in the state without a scalar solve")
                    lows = [s.lo for s in p.value.solves]
                    ok_lb = all(d_equal(lo, atom("s0")) for lo in lows)
                    ctx.decide(rule, ok_lb, h.fscope, None, construct=f"{cons}[path {p.label()}]:bracket-lower-end-is-old-eqps", detail=f"lower end {short(lows[0])}",
                               bad_detail=f"{cons}: the root-finder bracket starts at {short([lo for lo in lows if not d_equal(lo, atom('s0'))][0]) if not ok_lb else ''}, "
                                          f"not at the old equivalent plastic strain: the update could decrease it")
                    ctx.decide(rule, d_equal(e_new, root), h.fscope, None, construct=f"{cons}[path {p.label()}]:new-eqps-is-the-root", detail="eqps_new = old + (root - old) = root",
                               bad_detail=f"{cons}: the new equivalent plastic strain is {short(e_new)}, not the root found in the bracket [old, .] (increment is not root - old)")
                else:
                    n_e += 1
                    same = d_equal(e_new, atom("s0")) and arr_equal(T_new, T0) and p.value.value.ravel().shape[0] == h.roles(kin)[0]
                for (sa, sb) in p.value.branch_mismatch:
                    ctx.refuted(rule, h.fscope, None, construct=f"{cons}[path {p.label()}]:branches-return-the-same-shape",
                                detail=f"{cons}: the two branches of a lax.cond (plastic update / elastic step) return arrays of shapes {sa} and {sb}: the state increment "
                                       f"of one branch does not have the full state length")
                if not _yielding(h, kin, p.value, None):
                    ctx.decide(rule, same, h.fscope, None, construct=f"{cons}[path {p.label()}]:elastic-path-leaves-state-unchanged", detail="not yielding => zero increment of full length",
                               bad_detail=f"{cons}: on a path without plastic solve the state changes (new eqps {short(e_new)}; length {p.value.value.ravel().shape[0]})")
            if not n_y or not n_e:
                raise EvalError(f"{n_y} yielding and {n_e} elastic paths")
            d2_tolerances(ctx, h, kin, paths, all_atoms(generic("h")))
        except INTERP_ERRORS as ex:
            ctx.undecided(rule, h.fscope, None, construct=f"{cons}:bracket-roles", detail=str(ex)[:300])
    d2_bracket_signs(ctx, h)


d2_bracket.RULE = "D2/T2-bracket-roles"


def yield_test_offset(g, fl, positive):
    """g: yield test (yielding <=> g > 0), fl: residual at the old equivalent plastic strain, both affine in the strain amplitude t.
    Returns (verdict, text): True when g = a * (-fl) - b with a > 0, b >= 0 free of t; False when b < 0; None otherwise."""
    cg = _A.diff(g, "t")
    cf = _A.diff(_A.norm(-fl.a), "t")
    if "t" in cg.atoms() or "t" in cf.atoms() or rat_is_zero(cf):
        return None, "scale not constant in the strain amplitude"
    a = _A.norm(simplify(cg / cf))
    b = _A.norm(simplify(a * _A.norm(-fl.a) - g))
    shown = f"a = {short(a, 60)}, b = {short(b, 80)}"
    if rat_sign(a, positive) != 1 or "t" in b.atoms():
        return None, shown
    sg = rat_sign(b, positive)
    if sg is None and _sign_witness(b, want_positive=True, strict=False):
        sg = -1
    return (True if sg in (0, 1) else (False if sg == -1 else None)), shown


def yield_scale_offset(g, fl, positive):
    """(a, b) with g = a * (-fl) - b, a > 0 and b free of the strain amplitude t; None when the yield test is not of that form."""
    cg = _A.diff(g, "t")
    cf = _A.diff(_A.norm(-fl.a), "t")
    if "t" in cg.atoms() or "t" in cf.atoms() or rat_is_zero(cf):
        return None
    a = _A.norm(simplify(cg / cf))
    b = _A.norm(simplify(a * _A.norm(-fl.a) - g))
    if rat_sign(a, positive) != 1 or "t" in b.atoms():
        return None
    return a, b


def solver_tolerance_case(h, run, sol, g, fl, sub, positive):
    """Two sites, one quantity.  The root finder accepts an iterate e as soon as |residual(e)| < rho (rho: the residual tolerance in the
    settings of the recorded solve; the step tolerance must be 0 for the bound to hold).  The yield test, yielding <=> g > 0 with
    g = a * (-residual(old eqps)) - b, accepts an overstress of b / a as elastic.  At the committed state the residual at the *new*
    old-eqps is the residual at the accepted iterate, so the committed state is accepted as elastic (stress inside the yield surface to
    the tolerance of the yield test, repeated update changes nothing) for every accepted iterate iff  a * rho - b <= 0  for all
    admissible constants and old states.  Returns (verdict, text)."""
    ab = yield_scale_offset(g, fl, positive)
    if ab is None:
        return None, "the yield test is not a * (-residual(old eqps)) - b with a > 0 and b independent of the strain"
    a, b = ab
    rho, xtol = h.solver_tolerances(run, sol)
    rho_, xt_ = sub(rho), sub(xtol)
    shown = f"residual tolerance of the solve rho = {short(rho_, 90)}, yield test = a * (-residual(old eqps)) - b with a = {short(a, 40)}, b = {short(b, 90)}"
    if not rat_is_zero(xt_):
        return None, (f"the scalar solve also stops when |step| < {short(xt_, 60)}; a stop on the step size does not bound the residual, so the "
                      f"overstress of the committed state is not bounded by a static argument ({shown})")
    excess = _A.norm(simplify(a * rho_ - b))
    sg = rat_sign(excess, positive)
    wit = ""
    if sg is None:
        wit = _sign_witness(excess, want_positive=False, strict=False)
        if wit:
            sg = 1
    text = f"{shown}; a * rho - b = {short(excess, 120)}{wit}"
    return (True if sg in (0, -1) else (False if sg == 1 else None)), text


def d2_bracket_signs(ctx, h):
    """Root-finder contract at the call site (C17 returns NaN unless the residual has strictly opposite signs at the two ends):
    the residual handed to find_root is evaluated symbolically at both ends of the bracket on one-parameter families of trial
    strains (t * fixed deviatoric direction + q * I).  "Yielding" is taken from the model itself: the comparison on which the yielding
    path parts from the elastic one, g(t) > 0, must be increasing and linear in the strain amplitude t; t is eliminated through
    g(t) = x with x > 0.  Linear hardening with modulus H > 0 and H = 0 (perfect plasticity), old plastic strain s0 > 0 and s0 = 0,
    with and without (linear) rate sensitivity.
    Required: residual(lower) < 0 and residual(upper) > 0 strictly, and -residual(lower) - g >= 0 independent of the strain (the yield
    test is the residual at the old state up to a tolerance).  (The initial guess is not constrained: the root finder clips it.)"""
    rule = d2_bracket.RULE
    kin = _poly_additive_option(h)
    dt = atom("dt")
    cases = [(f, hc, s_, False) for f in FAMILIES for hc in ("H>0", "H=0") for s_ in ("s0>0", "s0=0")]
    if "rate sensitivity" in h.presence | h.optional:
        cases += [(f, "H>0", "s0>0", True) for f in FAMILIES]
    for fam, hcase, scase, rate in cases:
        tag = f"{fam},{hcase},{scase}" + (",rate-sensitive" if rate else "")
        try:
            sc = h.scenario(kin, perfect=(hcase == "H=0"), rate=rate)
            s0 = atom("s0") if scase == "s0>0" else Dual(0)
            state = h.make_state(kin, s0, zeros3())
            E = family_matrix(fam)
            paths = h.paths(sc, "compute_state_new", [E, state, dt])
            bad_paths = [p for p in paths if p.error is not None]
            if bad_paths:
                raise EvalError(str(bad_paths[0].error))
            reg, fb = _direction_split(h, kin, paths, zeros3(), E)
            elastic = [p for p in paths if not _yielding(h, kin, p.value, None)]
            if len(reg) != 1 or not elastic:
                raise EvalError(f"{len(reg)} regular yielding paths, {len(elastic)} elastic paths")
            p = reg[0]
            if len(p.value.solves) != 1:
                raise EvalError(f"{len(p.value.solves)} scalar solves on the yielding path")
            sol = p.value.solves[0]
            part = _parting(p, elastic)
            if part is None:
                raise EvalError("the comparison that separates the yielding from the elastic path was not identified")
            g = _A.norm(part[0] * te.R(part[1]))             # yielding <=> g > 0
            I = p.value.interp
            fl, fu = h.residual(p.value, sol, sol.lo), h.residual(p.value, sol, sol.hi)
            c = _A.diff(g, "t")
            g0 = _A.norm(_A.subst(g, "t", te.R(0)))
            lin = "t" not in c.atoms() and _A.equal(_A.norm(c * _A.atom("t") + g0), g) and rat_sign(c, I.positive) == 1
            if not lin:
                ctx.undecided(rule, h.fscope, None, construct=f"bracket-signs[{tag}]", detail=f"the yield test is not increasing and linear in the strain amplitude: {short(g)} > 0")
                continue
            tx = _A.norm((_A.atom("x") - g0) / c)
            sub = lambda d: _A.norm(simplify(_A.subst(d.a, "t", tx)))
            rl, ru = sub(fl), sub(fu)
            sl_, su_ = rat_sign(rl, I.positive), rat_sign(ru, I.positive)
            wit_l = wit_u = ""
            if sl_ is None:
                w = _sign_witness(rl, want_positive=False)
                if w:
                    sl_, wit_l = 1, w
            if su_ is None:
                w = _sign_witness(ru, want_positive=True)
                if w:
                    su_, wit_u = -1, w
            ctx.decide(rule, (sl_ == -1) if sl_ is not None else None, h.fscope, None, construct=f"residual-negative-at-lower-end[{tag}]",
                       detail=f"residual(lower) = {short(rl)} < 0 while yielding (x = excess of the yield test > 0)",
                       bad_detail=f"residual at the lower bracket end is {short(rl)} (x = excess of the yield test > 0): not negative{wit_l}, the bracket [old eqps, .] does not enclose the root from below")
            ctx.decide(rule, (su_ == 1) if su_ is not None else None, h.fscope, None, construct=f"residual-positive-at-upper-end[{tag}]",
                       detail=f"residual(upper) = {short(ru)} > 0",
                       bad_detail=f"residual at the upper bracket end is {short(ru)} for {hcase}, {scase} (x = excess of the yield test > 0): not strictly positive{wit_u}, so the "
                                  f"sign test of the root finder (NaN unless f(lo)*f(hi) < 0) is decided by round-off and the update returns NaN")
            # the yield test is the residual at the old state up to a positive scale and a non-negative tolerance:
            #   g = a * (-residual(old eqps)) - b   with a > 0 and b >= 0 independent of the strain
            ok_form, shown = yield_test_offset(g, fl, I.positive)
            ctx.decide(rule, ok_form, h.fscope, None, construct=f"yield-test-is-residual-at-old-state[{tag}]",
                       detail=f"yield test = a * (-residual(old eqps)) - b with {shown}: yielding implies a negative residual at the lower end, and only a tolerance-sized overshoot stays elastic",
                       bad_detail=f"yield test = a * (-residual(old eqps)) - b with {shown}: the yield test is not (trial Mises stress - flow stress) > tolerance with a non-negative "
                                  f"tolerance; a step can be declared yielding while the residual at the old state is already non-negative")
            # the tolerance at which the solve stops and the tolerance of the yield test refer to the same quantity
            cons_t = f"solver-residual-tolerance-within-yield-tolerance[{tag}]"
            if rate:
                continue        # (with rate sensitivity the committed state carries the viscous overstress: the clause is about rate-independent hardening)
            try:
                ok_tol, shown_t = solver_tolerance_case(h, p.value, sol, g, fl, sub, I.positive)
                if ok_tol is None:
                    ctx.undecided(d2_tolerances.RULE, h.fscope, None, construct=cons_t, detail=shown_t)
                    continue
                ctx.decide(d2_tolerances.RULE, ok_tol, h.fscope, None, construct=cons_t,
                           detail=f"{shown_t}: every iterate the root finder accepts (|residual| < rho) is accepted as elastic by the yield test at the committed state",
                           bad_detail=f"the residual tolerance handed to the root finder exceeds the tolerance of the yield test for {hcase}, {scase} ({shown_t}): the solve may stop at an "
                                      f"iterate whose overstress the yield test does not accept as elastic, so the committed stress lies outside the yield surface by more than the "
                                      f"yield tolerance and the update repeated at the same deformation yields again (the two tolerances must refer to the same stress)")
            except INTERP_ERRORS as ex:
                ctx.undecided(d2_tolerances.RULE, h.fscope, None, construct=cons_t, detail=str(ex)[:300])
        except INTERP_ERRORS as ex:
            ctx.undecided(rule, h.fscope, None, construct=f"bracket-signs[{tag}]", detail=str(ex)[:300])
    ctx.assume("the plastic residual depends on the trial strain only through its deviator (isotropy): bracket signs are decided on two deviatoric directions")


def _last_parting(p, others):
    """(difference expression, sign on p) of the comparison on which p parts from the path of `others` it shares the longest run of
    decisions with."""
    best, depth = None, -1
    for o in others:
        for i, ((k1, d1, s1), (k2, d2, s2)) in enumerate(zip(p.trail, o.trail)):
            if k1 != k2:
                break
            if s1 != s2:
                if i > depth:
                    best, depth = (d1, s1), i
                break
    return best


def _strain_atoms(exprs, seeds):
    """atoms of the expressions that stand for the deformation: the symbols of the generic displacement gradient, the entries of opaque
    spectral functions of it, and algebraic atoms (square roots) of expressions containing one of them."""
    out = set()
    for r in exprs:
        for a_ in r.atoms():
            if a_ in seeds or a_.startswith("spec") or (a_.startswith("sqrt[") and any(sd in a_ for sd in seeds | {"spec"})):
                out.add(a_)
    return out


def d2_tolerances(ctx, h, kin, paths, seeds):
    """Per kinematics option, on generic data: on every yielding path the yield test g > 0 (the last comparison on which the path parts
    from an elastic path) is a * (-residual(old eqps)) - b with a > 0 and a, b free of the deformation; the residual tolerance rho of the
    recorded solve must satisfy a * rho - b <= 0 (see solver_tolerance_case)."""
    rule = d2_tolerances.RULE
    elastic = [p for p in paths if p.error is None and not _yielding(h, kin, p.value, None)]
    for p in paths:
        if p.error is not None or not _yielding(h, kin, p.value, None):
            continue
        cons = f"kinematics={_kname(kin)}[path {p.label()}]:solver-residual-tolerance-within-yield-tolerance"
        try:
            if len(p.value.solves) != 1:
                raise EvalError(f"{len(p.value.solves)} scalar solves on the yielding path")
            sol = p.value.solves[0]
            part = _last_parting(p, elastic)
            if part is None:
                raise EvalError("the comparison that separates the yielding from the elastic path was not identified")
            g = _A.norm(simplify(part[0] * te.R(part[1])))
            fl = h.residual(p.value, sol, sol.lo)
            mfl = _A.norm(simplify(-fl.a))
            pos = p.value.interp.positive
            S = _strain_atoms([g, mfl], seeds)
            ab = None
            for X in sorted(S):
                cf = _A.norm(simplify(_A.diff(mfl, X)))
                if rat_is_zero(cf):
                    continue
                a = _A.norm(simplify(_A.diff(g, X) / cf))
                if a.atoms() & S or rat_sign(a, pos) != 1:
                    continue
                b = _A.norm(simplify(a * mfl - g))
                if b.atoms() & S:
                    continue
                ab = (a, b)
                break
            if ab is None:
                ctx.undecided(rule, h.fscope, None, construct=cons,
                              detail="the yield test is not a * (-residual(old eqps)) - b with a > 0 and a, b independent of the deformation")
                continue
            a, b = ab
            rho, xtol = h.solver_tolerances(p.value, sol)
            shown = (f"residual tolerance of the solve rho = {short(rho, 90)}, yield test = a * (-residual(old eqps)) - b with a = {short(a, 40)}, "
                     f"b = {short(b, 90)}")
            if not rat_is_zero(_A.norm(simplify(xtol.a))):
                ctx.undecided(rule, h.fscope, None, construct=cons,
                              detail=f"the scalar solve also stops when |step| < {short(xtol, 60)}; a stop on the step size does not bound the residual ({shown})")
                continue
            excess = _A.norm(simplify(a * rho.a - b))
            sg = rat_sign(excess, pos)
            wit = ""
            if sg is None and not (excess.atoms() & S):
                wit = _sign_witness(excess, want_positive=False, strict=False)
                if wit:
                    sg = 1
            ok = True if sg in (0, -1) else (False if sg == 1 else None)
            text = f"{shown}; a * rho - b = {short(excess, 120)}{wit}"
            if ok is None:
                ctx.undecided(rule, h.fscope, None, construct=cons, detail="sign of a * rho - b not decided: " + text)
                continue
            ctx.decide(rule, ok, h.fscope, None, construct=cons,
                       detail=f"{text}: every iterate the root finder accepts (|residual| < rho) is within the overstress the yield test accepts as elastic",
                       bad_detail=f"kinematics={_kname(kin)}: the residual tolerance handed to the root finder exceeds the tolerance of the yield test ({text}): the solve may stop at "
                                  f"an iterate whose overstress the yield test does not accept as elastic, so the committed stress lies outside the yield surface by more than the "
                                  f"yield tolerance and the update repeated at the same deformation yields again (the two tolerances must refer to the same stress)")
        except INTERP_ERRORS as ex:
            ctx.undecided(rule, h.fscope, None, construct=cons, detail=str(ex)[:300])


d2_tolerances.RULE = "D2/T6-solver-tolerance-vs-yield-tolerance"


# ------------------------------------------------------------------ D3

def stationarity_case(h, kin, fam, hcase, rate):
    """(number of yielding paths, defects) for one strain family / hardening case: the eps-part of the energy density with the root
    finder returning rho + eps must be a positive multiple of the recorded residual at rho."""
    dt = atom("dt")
    root = atom(Harness.ROOT)
    sc = h.scenario(kin, perfect=(hcase == "H=0"), rate=rate)
    state = h.make_state(kin, atom("s0"), zeros3())
    E = family_matrix(fam)
    paths = h.paths(sc, "compute_energy_density", [E, state, dt], root=Dual(root.a, ONE))
    n_y, bad = 0, []
    for p in paths:
        if p.error is not None:
            raise EvalError(str(p.error))
        if not p.value.solves:
            continue
        n_y += 1
        W = p.value.interp.num(p.value.value)
        dW = _A.norm(simplify(W.b))
        for sol in p.value.solves:
            f = _A.norm(simplify(h.residual(p.value, sol, root).a))
            if rat_is_zero(f):
                bad.append(f"path {p.label()}: the residual handed to the root finder vanishes identically")
                continue
            ratio = _A.norm(simplify(dW / f))
            sg = rat_sign(ratio, p.value.interp.positive)
            if sg == 1:
                continue
            # the quotient may not cancel as polynomials (a residual scaled by a rational function of the constants): when
            # dW * f' - dW' * f == 0 the ratio does not depend on the root and equals dW' / f'
            dWp, fp = _A.diff(dW, Harness.ROOT), _A.diff(f, Harness.ROOT)
            if not rat_is_zero(_A.norm(simplify(fp))) and rat_is_zero(_A.norm(simplify(dW * fp - dWp * f))) \
                    and rat_sign(_A.norm(simplify(dWp / fp)), p.value.interp.positive) == 1:
                continue
            if Harness.ROOT not in ratio.atoms() and sg is None:
                raise EvalError(f"sign of dW/d(eqps) / residual = {short(ratio)} not decided")
            bad.append(f"path {p.label()}: d(energy)/d(eqps) at the updated state is {short(dW)}, the residual handed to the root finder is {short(f)} "
                       f"(ratio {short(ratio, 80)} is not a positive factor)")
    if not n_y:
        raise EvalError("no path of the energy closure makes a scalar solve")
    return n_y, bad


def d3_wiring(ctx, h):
    """Stationarity: with the root finder returning rho + eps, the eps-part of the model's energy density is dW/d(rho) at the updated state;
    it must vanish exactly where the recorded residual does: dW/d(rho) = k * residual(rho) with k > 0."""
    rule = d3_wiring.RULE
    kin = _poly_additive_option(h)
    dt = atom("dt")
    root = atom(Harness.ROOT)
    cases = [(f, hc, False) for f in FAMILIES for hc in ("H>0", "H=0")]
    if "rate sensitivity" in h.presence | h.optional:
        cases += [(f, "H>0", True) for f in FAMILIES]
    for fam, hcase, rate in cases:
        tag = f"{fam},{hcase}" + (",rate-sensitive" if rate else "")
        cons = f"residual-is-derivative-of-the-energy-wrt-eqps[{tag}]"
        try:
            n_y, bad = stationarity_case(h, kin, fam, hcase, rate)
            ctx.decide(rule, not bad, h.fscope, None, construct=cons, detail=f"d(energy density)/d(eqps) at the updated state = k * residual(eqps), k > 0, on {n_y} yielding path(s)",
                       bad_detail="the root of the function handed to the root finder is not a stationary point of the energy density the model exposes "
                                  "(derivative taken w.r.t. the wrong variable, wrong slot varied, or energy evaluated at another state): " + "; ".join(bad[:2]))
        except INTERP_ERRORS as ex:
            ctx.undecided(rule, h.fscope, None, construct=cons, detail=str(ex)[:300])
    # energy evaluated at the updated state == energy of the committed state (additive options; the multiplicative one is in the layout rule)
    for kin in h.kinematics():
        try:
            if _update_kind(h, kin) != "additive":
                continue
        except INTERP_ERRORS:
            continue            # (reported by the layout rule)
        _commit_invariance(ctx, h, kin, rule, f"kinematics={_kname(kin)}:energy-evaluated-at-updated-state")


d3_wiring.RULE = "D3/T5-variational-wiring"


def d3_dispatch(ctx, h):
    """For each kinematics option the energy closure and the state update must solve the same scalar equation (same residual function,
    same bracket) on generic data: they use the same trial elastic strain, material constants and old state."""
    rule = d3_dispatch.RULE
    dt = atom("dt")
    probe = atom("@e")
    kins = h.kinematics()
    if len(kins) < 3:
        raise Incomplete(f"kinematics options found: {kins}")
    for kin in kins:
        cons = f"kinematics={_kname(kin)}"
        try:
            sc = h.scenario(kin)
            kind = _update_kind(h, kin)
            _, T0 = h.split_state(kin, h.initial_state(sc))
            T_old = generic_sym("p") if kind == "additive" else T0
            state = h.make_state(kin, atom("s0"), T_old)
            sigs, visited = {}, {}
            for name in ("compute_energy_density", "compute_state_new"):
                got = []
                vis = set()
                for p in h.paths(sc, name, [generic("h"), state, dt]):
                    if p.error is not None:
                        raise EvalError(f"{name}: {p.error}")
                    vis |= p.value.interp.visited
                    for sol in p.value.solves:
                        sig = (h.residual(p.value, sol, probe), sol.lo, sol.hi)
                        if not any(all(d_equal(x, y) for x, y in zip(sig, g_)) for g_ in got):
                            got.append(sig)
                sigs[name], visited[name] = got, vis
            a, b = sigs["compute_energy_density"], sigs["compute_state_new"]
            if not a or not b:
                raise EvalError(f"scalar solves observed: energy {len(a)}, state update {len(b)}")
            has = lambda sig, lst: any(all(d_equal(x, y) for x, y in zip(sig, g_)) for g_ in lst)
            a_only = [s_ for s_ in a if not has(s_, b)]
            b_only = [s_ for s_ in b if not has(s_, a)]
            if (a_only or b_only) and (len(a_only) < len(a) or len(b_only) < len(b)):
                # some equations coincide, some do not: the two closures take different sets of paths -- not a contradiction by itself
                raise EvalError(f"{len(a_only)} of {len(a)} equations of the energy and {len(b_only)} of {len(b)} of the update have no counterpart")
            only_e = sorted(q.split(":")[-1] for q in visited["compute_energy_density"] - visited["compute_state_new"] if "strain" in q.lower())
            only_u = sorted(q.split(":")[-1] for q in visited["compute_state_new"] - visited["compute_energy_density"] if "strain" in q.lower())
            ctx.decide(rule, not a_only and not b_only, h.fscope, None, construct=cons,
                       detail=f"{kind} update: energy closure and state update solve the same {len(a)} scalar equation(s) (residual and bracket identical on generic data)",
                       bad_detail=f"for {cons} the energy closure and the state update solve different plastic equations on the same data (different trial elastic strain "
                                  f"or constants): only the energy goes through {only_e or '-'}, only the state update through {only_u or '-'}; "
                                  f"none of the {len(a)} equation(s) of the energy has a counterpart in the update")
        except INTERP_ERRORS as ex:
            ctx.undecided(rule, h.fscope, None, construct=cons, detail=str(ex)[:300])


d3_dispatch.RULE = "D3/T14-kinematics-dispatch"
def _chain(*edits):
    """Apply several textual edits in sequence (a variant is inapplicable when one of them is)."""
    def f(src):
        for e in edits:
            src = e(src)
            if src is None:
                return None
        return src
    return f


def variants(repo):
    from optilint.selftest import Variant, sub, sub_in_func, alpha_rename, reformat
    J = "optimism/material/J2Plastic.py"
    Hd = "optimism/material/Hardening.py"
    # --- bolder preserving restructurings (written for this rule set; none of their names is known to the rules)
    own_a = _chain(
        sub("""    # parse kinematics
    finiteDeformations = True
    sethHill = False
    if 'kinematics' in properties:
        if properties['kinematics'] == 'large deformations':
            finiteDeformations = True
        elif properties['kinematics'] == 'small deformations':
            finiteDeformations = False
        elif properties['kinematics'] == 'seth hill':
            finiteDeformations = False
            sethHill = True
        else:
            raise ValueError('Unknown value specified for kinematics in J2Plastic')
        
    if finiteDeformations:
        compute_elastic_strain = compute_elastic_logarithmic_strain
    else:
        if sethHill:
            compute_elastic_strain = compute_elastic_seth_hill_strain
        else:
            compute_elastic_strain = compute_elastic_linear_strain
        
""", """    kinematics = properties.get('kinematics', 'large deformations')
    try:
        compute_elastic_strain, multiplicative = _KINEMATICS[kinematics]
    except KeyError:
        raise ValueError('Unknown value specified for kinematics in J2Plastic')

"""),
        sub("""    if finiteDeformations:
        compute_state_new_func = compute_state_new_finite_deformations
        compute_initial_state = make_initial_state_finite_deformations
    else:
        if sethHill:
            compute_state_new_func = compute_state_new_seth_hill
            compute_initial_state = make_initial_state_small_deformations
        else:
            compute_state_new_func = compute_state_new_small_deformations
            compute_initial_state = make_initial_state_small_deformations
        
    def compute_state_new_function(dispGrad, state, dt):
        return compute_state_new_func(dispGrad, state, dt, props, hardeningModel)
""", """    compute_initial_state = make_initial_state_finite_deformations if multiplicative else make_initial_state_small_deformations

    def compute_state_new_function(dispGrad, state, dt):
        return _advance_state(compute_elastic_strain, multiplicative, dispGrad, state, dt, props, hardeningModel)
"""),
        sub("""def compute_state_new_small_deformations(dispGrad, stateOld, dt, props, hardening_model):""",
            """def _advance_state(strain_measure, multiplicative, dispGrad, stateOld, dt, props, hardening_model):
    trial = strain_measure(dispGrad, stateOld)
    increment = compute_state_increment(trial, stateOld, dt, props, hardening_model)
    if not multiplicative:
        return stateOld + increment
    distortion = stateOld[PLASTIC_DISTORTION].reshape((3, 3))
    flow = TensorMath.exp_symm(np.reshape(increment[PLASTIC_DISTORTION], (3, 3)))
    return np.hstack((stateOld[EQPS] + increment[EQPS], (flow @ distortion).ravel()))


def compute_state_new_small_deformations(dispGrad, stateOld, dt, props, hardening_model):"""),
        sub("""    isYielding = trialStress - flowStress > _TOLERANCE*props[PROPS_Y0]

    stateInc = jax.lax.cond(isYielding,
                            lambda e: update_state(e, state, dt, props, hardening_model),
                            lambda e: np.zeros(NUM_STATE_VARS),
                            elasticStrain)

    return stateInc
""", """    threshold = flowStress + _TOLERANCE*props[PROPS_Y0]
    isElastic = trialStress <= threshold

    def plastic_step(e):
        return update_state(e, state, dt, props, hardening_model)

    return jax.lax.cond(isElastic, lambda e: np.zeros_like(state), plastic_step, elasticStrain)
"""),
        sub("""    eqps, _ = ScalarRootFind.find_root(lambda e: r(elasticTrialStrain, e, eqpsOld, dt, props, hardening_model),
                                       eqpsGuess,
                                       np.array([lb, ub]),
                                       settings)
    DeltaEqps = eqps - eqpsOld
    DeltaPlasticStrain = DeltaEqps*N
    return np.hstack( (DeltaEqps, DeltaPlasticStrain.ravel()) )
""", """    def residual(e):
        return r(elasticTrialStrain, e, eqpsOld, dt, props, hardening_model)

    solution = ScalarRootFind.find_root(residual, bracket=np.array([lb, ub]), settings=settings, x0=eqpsGuess)
    multiplier = solution[0] - eqpsOld
    return np.hstack((multiplier, (multiplier*N).ravel()))
"""),
        sub("r = jax.jacfwd(incremental_potential, 1)", "r = jax.grad(incremental_potential, argnums=1)"),
        lambda src: src + """


_KINEMATICS = {
    # name: (elastic strain measure, multiplicative update of the plastic distortion)
    'large deformations': (compute_elastic_logarithmic_strain, True),
    'small deformations': (compute_elastic_linear_strain, False),
    'seth hill': (compute_elastic_seth_hill_strain, False),
}
""")
    own_b_j2 = _chain(
        sub("""    def energy_density_function(dispGrad, state, dt):
        elasticTrialStrain = compute_elastic_strain(dispGrad, state)
        return _energy_density(elasticTrialStrain, state, dt, props, hardeningModel)
""", """    energy_density_function = lambda dispGrad, state, dt: _energy_density(compute_elastic_strain(dispGrad, state),
                                                                         state, dt, props, hardeningModel)
"""),
        sub("""    stateInc = compute_state_increment(elStrain, state, dt, props, hardening_model)
    
    eqpsNew = state[EQPS] + stateInc[EQPS]
    elasticStrainNew = elStrain - stateInc[PLASTIC_DISTORTION].reshape((3,3))
        
    W = elastic_free_energy(elasticStrainNew, props) + hardening_model[ENERGY_DENSITY](eqpsNew, state[EQPS], dt)
    
    return W
""", """    eqpsOld = state[EQPS]
    stateNew = state + compute_state_increment(elStrain, state, dt, props, hardening_model)
    plasticFlow = (stateNew - state)[PLASTIC_DISTORTION].reshape((3,3))
    stored = hardening_model.compute_hardening_energy_density(stateNew[EQPS], eqpsOld, dt)
    return stored + elastic_free_energy(elStrain - plasticFlow, props)
"""),
        sub("""def make_initial_state_finite_deformations(shape=(1,)):
    eqps = 0.0
    Fp = np.identity(3)
    return np.hstack((eqps, Fp.ravel()))
""", """def make_initial_state_finite_deformations(shape=(1,)):
    state = np.zeros(NUM_STATE_VARS)
    return state.at[PLASTIC_DISTORTION].set(np.identity(3).ravel())
"""),
        sub("    flowStress = hardening_model[FLOW_STRESS](eqps, eqps, dt)\n", "    flowStress = hardening_model.compute_flow_stress(eqps, eqps, dt)\n"),
        sub("""    return np.where(isNonzero,
                    np.sqrt(3./2.)/np.sqrt(devElasticStrainNormSquared) * devElasticStrain,
                    dummyN)
""", """    scale = np.sqrt(1.5/devElasticStrainNormSquared)
    return jax.lax.cond(isNonzero, lambda: scale*devElasticStrain, lambda: dummyN)
"""))

    def own_b_hardening(src):
        a, b = src.find("def create_hardening_model(properties):"), src.find("def linear(eqps, Y0, H):")
        if a < 0 or b < 0 or "    return HardeningModel(hardening, jax.grad(hardening))" not in src[a:b]:
            return None
        return src[:a] + """def create_hardening_model(properties):
    kinetic_potential_density = _make_kinetic_potential(properties)
    free_energy_density = _make_free_energy(properties)
    hardening = lambda eqps, eqpsOld, dt: free_energy_density(eqps) + kinetic_potential_density(eqps, eqpsOld, dt)
    return HardeningModel(compute_flow_stress=jax.grad(hardening, argnums=0),
                          compute_hardening_energy_density=hardening)


def _make_kinetic_potential(properties):
    if 'rate sensitivity' not in properties:
        return lambda e, eo, dt: 0
    S, m, epsDot0 = (properties[key] for key in ('rate sensitivity stress',
                                                 'rate sensitivity exponent',
                                                 'reference plastic strain rate'))
    return lambda eqps, eqpsOld, dt: power_law_rate_sensitivity(eqps, eqpsOld, dt, S, m, epsDot0)


def _make_free_energy(properties):
    model = properties['hardening model']
    if model == 'linear':
        Y0 = properties['yield strength']
        H = properties['hardening modulus']
        return lambda eqps: linear(eqps, Y0, H)
    if model == 'voce':
        Y0 = properties['yield strength']
        Ysat = properties['saturation strength']
        eps0 = properties['reference plastic strain']
        return lambda eqps: voce(eqps, Y0, Ysat, eps0)
    if model != 'power law':
        raise ValueError('Unknown hardening model specified')
    Y0 = properties['yield strength']
    n = properties['hardening exponent']
    eps0 = properties['reference plastic strain']
    return lambda eqps: power_law(eqps, Y0, n, eps0)


""" + src[b:]
    own_c = _chain(
        sub("""    devElasticStrainNormSquared = np.tensordot(devElasticStrain, devElasticStrain)
    isNonzero = devElasticStrainNormSquared > 1e-16
""", """    devElasticStrainNormSquared = np.einsum('ij,ij', devElasticStrain, devElasticStrain)
    isNonzero = np.sqrt(devElasticStrainNormSquared) > 1e-8
"""),
        sub_in_func("compute_state_increment", "np.tensordot(TensorMath.dev(elasticStrain), N)", "np.vdot(TensorMath.dev(elasticStrain), N)"),
        sub_in_func("compute_state_increment", "                            elasticStrain)", "                            operand=elasticStrain)"),
        sub("    return np.hstack( (DeltaEqps, DeltaPlasticStrain.ravel()) )", "    return np.concatenate((np.atleast_1d(DeltaEqps), np.ravel(DeltaPlasticStrain)))"),
        sub_in_func("compute_state_new_small_deformations", "    return stateOld + stateInc", "    return np.add(stateOld, stateInc)"))
    extra = [
        Variant("own restructuring C: norm-based degeneracy test, einsum / vdot contractions, operand keyword, concatenate", J, own_c, None),
        Variant("own restructuring C with the degeneracy test at |dev E| > 1e-4", J, _chain(own_c, sub("np.sqrt(devElasticStrainNormSquared) > 1e-8", "np.sqrt(devElasticStrainNormSquared) > 1e-4")),
                "D1/T7-degenerate-direction-unreachable-while-yielding"),
        Variant("own restructuring A: table dispatch, one generic state update, keyword solve, swapped cond", J, own_a, None),
        Variant("own restructuring B: energy from state difference, .at[].set virgin state, cond flow direction", J, own_b_j2, None),
        Variant("own restructuring B: hardening factories with early returns and keyword record", Hd, own_b_hardening, None),
        # --- subtle breaking edits
        Variant("exp of twice the increment", J, sub_in_func("compute_state_new_finite_deformations", "TensorMath.exp_symm(stateInc[PLASTIC_DISTORTION].reshape((3,3)))@FpOld", "TensorMath.exp_symm(2.0*stateInc[PLASTIC_DISTORTION].reshape((3,3)))@FpOld"), "D1/T5-state-layout"),
        Variant("exp of minus the increment", J, sub_in_func("compute_state_new_finite_deformations", "TensorMath.exp_symm(stateInc[PLASTIC_DISTORTION].reshape((3,3)))@FpOld", "TensorMath.exp_symm(-stateInc[PLASTIC_DISTORTION].reshape((3,3)))@FpOld"), "D1/T5-state-layout"),
        Variant("hardening potential at (new, new)", J, sub_in_func("_energy_density", "hardening_model[ENERGY_DENSITY](eqpsNew, state[EQPS], dt)", "hardening_model[ENERGY_DENSITY](eqpsNew, eqpsNew, dt)"), "D3/T5-variational-wiring"),
        Variant("plastic strain added in the energy", J, sub_in_func("_energy_density", "elasticStrainNew = elStrain - stateInc[PLASTIC_DISTORTION]", "elasticStrainNew = elStrain + stateInc[PLASTIC_DISTORTION]"), "D3/T5-variational-wiring"),
        Variant("yield test against the initial yield strength", J, sub_in_func("compute_state_increment", "isYielding = trialStress - flowStress > _TOLERANCE*props[PROPS_Y0]", "isYielding = trialStress - props[PROPS_Y0] > _TOLERANCE*props[PROPS_Y0]"), "D2/T2-bracket-roles"),
        Variant("seth-hill with the finite-deformation virgin state", J, sub("            compute_state_new_func = compute_state_new_seth_hill\n            compute_initial_state = make_initial_state_small_deformations", "            compute_state_new_func = compute_state_new_seth_hill\n            compute_initial_state = make_initial_state_finite_deformations"), "D1/T5-state-layout"),
        Variant("small-strain update doubles the increment", J, sub_in_func("compute_state_new_small_deformations", "    return stateOld + stateInc", "    return stateOld + 2.0*stateInc"), "D2/T2-bracket-roles"),
        Variant("finite update forgets the old eqps", J, sub_in_func("compute_state_new_finite_deformations", "    eqpsNew = stateOld[EQPS] + stateInc[EQPS]", "    eqpsNew = stateInc[EQPS]"), "D2/T2-bracket-roles"),
        Variant("linear strain with the plastic strain added", J, sub_in_func("compute_elastic_linear_strain", "    return strain - plasticStrain", "    return strain + plasticStrain"), "D3/T5-variational-wiring"),
        Variant("energy of the small-strain option uses the seth-hill strain", J, sub("            compute_elastic_strain = compute_elastic_linear_strain", "            compute_elastic_strain = compute_elastic_seth_hill_strain"), "D3/T14-kinematics-dispatch"),
    ] + _tolerance_variants()
    return extra + _base_variants()


def _tolerance_variants():
    """Two sites, one quantity: the residual tolerance of the plastic solve and the tolerance of the yield test."""
    from optilint.selftest import Variant, sub, sub_in_func
    J = "optimism/material/J2Plastic.py"
    T = "D2/T6-solver-tolerance-vs-yield-tolerance"
    solver = "    settings = ScalarRootFind.get_settings(x_tol=0, r_tol=_TOLERANCE*props[PROPS_Y0])\n"
    test = "    isYielding = trialStress - flowStress > _TOLERANCE*props[PROPS_Y0]\n"
    return [
        Variant("solver tolerance relative to the current flow stress, yield test relative to the initial one", J, _chain(
            sub_in_func("update_state", solver + "    eqpsOld = stateOld[EQPS]\n",
                        "    eqpsOld = stateOld[EQPS]\n    flowStressOld = hardening_model.compute_flow_stress(eqpsOld, eqpsOld, dt)\n"
                        "    settings = ScalarRootFind.get_settings(x_tol=0, r_tol=_TOLERANCE*flowStressOld)\n"),
            sub_in_func("update_state", "(trialMises - hardening_model.compute_flow_stress(eqpsOld, eqpsOld, dt))/(3.0*props[PROPS_MU])", "(trialMises - flowStressOld)/(3.0*props[PROPS_MU])")), T),
        Variant("solver tolerance relative to the shear modulus", J, sub_in_func("update_state", solver, solver.replace("props[PROPS_Y0]", "props[PROPS_MU]")), T),
        Variant("solver tolerance twice the yield tolerance", J, sub_in_func("update_state", solver, solver.replace("r_tol=_TOLERANCE", "r_tol=2*_TOLERANCE")), T),
        Variant("yield test with a tenth of the solver tolerance", J, sub_in_func("compute_state_increment", test, test.replace("> _TOLERANCE", "> 0.1*_TOLERANCE")), T),
        Variant("yield test without tolerance", J, sub_in_func("compute_state_increment", test, "    isYielding = trialStress > flowStress\n"), T),
        Variant("solver tolerance relative to the trial stress", J, _chain(
            sub_in_func("update_state", solver, ""),
            sub_in_func("update_state", "    eqpsGuess = 0.5*(lb + ub)\n", "    eqpsGuess = 0.5*(lb + ub)\n    settings = ScalarRootFind.get_settings(x_tol=0, r_tol=_TOLERANCE*trialMises)\n")), T),
        # preserving twins: a tighter solve, and both sites reading one shared definition
        Variant("solver tolerance half the yield tolerance (equivalent)", J, sub_in_func("update_state", solver, solver.replace("r_tol=_TOLERANCE", "r_tol=0.5*_TOLERANCE")), None),
        Variant("both tolerances from one helper, positional settings (equivalent)", J, _chain(
            sub_in_func("update_state", solver, "    settings = ScalarRootFind.get_settings(50, 0.0, _stress_tolerance(props))\n"),
            sub_in_func("compute_state_increment", test, "    overstress = trialStress - flowStress\n    isYielding = overstress - _stress_tolerance(props) > 0\n"),
            sub("def update_state(", "def _stress_tolerance(props):\n    return props[PROPS_Y0]*_TOLERANCE\n\n\ndef update_state(")), None),
        Variant("yield test and solver tolerance both in strain units (equivalent)", J, _chain(
            sub_in_func("compute_state_increment", test, "    isYielding = (trialStress - flowStress)/(3.0*props[PROPS_MU]) > _TOLERANCE*props[PROPS_Y0]/(3.0*props[PROPS_MU])\n"),
            sub_in_func("update_state", solver, solver.replace("r_tol=_TOLERANCE*props[PROPS_Y0]", "r_tol=_TOLERANCE*props[PROPS_Y0]/(3.0*props[PROPS_MU])")),
            sub_in_func("update_state", "lambda e: r(elasticTrialStrain, e, eqpsOld, dt, props, hardening_model),", "lambda e: r(elasticTrialStrain, e, eqpsOld, dt, props, hardening_model)/(3.0*props[PROPS_MU]),")), None),
    ]


def _base_variants():

    from optilint.selftest import Variant, sub, sub_in_func, alpha_rename, reformat
    J = "optimism/material/J2Plastic.py"
    return [
        Variant("flow direction from full strain", J, sub_in_func("compute_flow_direction", "np.sqrt(3./2.)/np.sqrt(devElasticStrainNormSquared) * devElasticStrain", "np.sqrt(3./2.)/np.sqrt(devElasticStrainNormSquared) * elasticStrain"), "D1/T9-traceless-flow"),
        Variant("degenerate-direction threshold 1e-8", J, sub_in_func("compute_flow_direction", "    isNonzero = devElasticStrainNormSquared > 1e-16", "    isNonzero = devElasticStrainNormSquared > 1e-8"), "D1/T7-degenerate-direction-unreachable-while-yielding"),
        Variant("degenerate-direction threshold 1e-20 (equivalent)", J, sub_in_func("compute_flow_direction", "    isNonzero = devElasticStrainNormSquared > 1e-16", "    isNonzero = devElasticStrainNormSquared > 1e-20"), None),
        Variant("fallback direction with diagonal", J, sub("    dummyN = 0.5*np.array([[0.0, 1.0, 1.0],", "    dummyN = 0.5*np.array([[1.0, 1.0, 1.0],"), "D1/T9-traceless-flow"),
        Variant("increment adds eqps to diagonal", J, sub_in_func("update_state", "    DeltaPlasticStrain = DeltaEqps*N", "    DeltaPlasticStrain = DeltaEqps*(N + np.identity(3))"), "D1/T9-traceless-flow"),
        Variant("elastic branch wrong length", J, sub_in_func("compute_state_increment", "lambda e: np.zeros(NUM_STATE_VARS),", "lambda e: np.zeros(NUM_STATE_VARS-1),"), "D2/T2-bracket-roles"),
        Variant("slice off by one", J, sub("PLASTIC_DISTORTION = slice(1,1+9)", "PLASTIC_DISTORTION = slice(0,9)"), "D1/T5-state-layout"),
        Variant("exp of the whole increment", J, sub_in_func("compute_state_new_finite_deformations", "TensorMath.exp_symm(stateInc[PLASTIC_DISTORTION].reshape((3,3)))@FpOld", "TensorMath.exp_symm(stateInc[PLASTIC_DISTORTION].reshape((3,3)).T + np.identity(3))@FpOld"), "D1/T5-state-layout"),
        Variant("plastic update order", J, sub_in_func("compute_state_new_finite_deformations", "TensorMath.exp_symm(stateInc[PLASTIC_DISTORTION].reshape((3,3)))@FpOld", "FpOld@TensorMath.exp_symm(stateInc[PLASTIC_DISTORTION].reshape((3,3)))"), "D1/T9-frames"),
        Variant("bracket lower end 0", J, sub_in_func("update_state", "    lb = eqpsOld\n", "    lb = 0.0\n"), "D2/T2-bracket-roles"),
        Variant("kinetic potential without dt", "optimism/material/Hardening.py", sub("    return m/(m + 1)*S*epsDot0*dt*(eqpsDot/epsDot0)**((m+1)/m)", "    return m/(m + 1)*S*epsDot0*(eqpsDot/epsDot0)**((m+1)/m)"), "D3/T8-dimensional-homogeneity"),
        Variant("strain rate normalised by a strain", "optimism/material/Hardening.py", sub("        epsDot0 = properties['reference plastic strain rate']", "        epsDot0 = properties['reference plastic strain']"), "D3/T8-dimensional-homogeneity"),
        Variant("upper end is the root without hardening", J, sub_in_func("update_state", "    ub = eqpsOld + trialMises/(3.0*props[PROPS_MU])\n", "    ub = ub + 0.0\n"), "D2/T2-bracket-roles"),
        Variant("upper end too close", J, sub_in_func("update_state", "    ub = eqpsOld + trialMises/(3.0*props[PROPS_MU])\n", "    ub = eqpsOld + trialMises/(6.0*props[PROPS_MU])\n"), "D2/T2-bracket-roles"),
        Variant("upper end below lower end", J, sub_in_func("update_state", "    ub = eqpsOld + trialMises/(3.0*props[PROPS_MU])\n", "    ub = eqpsOld - trialMises/(3.0*props[PROPS_MU])\n"), "D2/T2-bracket-roles"),
        # a wider (still valid) bracket and a different initial guess do not break the property: the root finder clips the guess
        Variant("wider bracket (equivalent)", J, sub_in_func("update_state", "    ub = eqpsOld + trialMises/(3.0*props[PROPS_MU])\n", "    ub = eqpsOld + trialMises/props[PROPS_MU]\n"), None),
        Variant("guess at a third (equivalent)", J, sub_in_func("update_state", "    eqpsGuess = 0.5*(lb + ub)", "    eqpsGuess = lb + (ub - lb)/3.0"), None),
        Variant("increment is the root", J, sub_in_func("update_state", "    DeltaEqps = eqps - eqpsOld", "    DeltaEqps = eqps"), "D2/T2-bracket-roles"),
        Variant("jacfwd argnum 2", J, sub("r = jax.jacfwd(incremental_potential, 1)", "r = jax.jacfwd(incremental_potential, 2)"), "D3/T5-variational-wiring"),
        Variant("lambda varies old eqps", J, sub_in_func("update_state", "lambda e: r(elasticTrialStrain, e, eqpsOld, dt, props, hardening_model)", "lambda e: r(elasticTrialStrain, eqpsOld, e, dt, props, hardening_model)"), "D3/T5-variational-wiring"),
        Variant("seth-hill energy with linear update", J, sub("            compute_state_new_func = compute_state_new_seth_hill", "            compute_state_new_func = compute_state_new_small_deformations"), "D3/T14-kinematics-dispatch"),
        Variant("reformat J2Plastic", J, reformat(), None),
        Variant("alpha-rename update_state", J, alpha_rename("update_state"), None),
        Variant("alpha-rename compute_flow_direction", J, alpha_rename("compute_flow_direction"), None),
    ]
