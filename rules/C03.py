"""C03 -- function space reproduces polynomials and integrates them exactly (structural clauses).

  a  dispatch tables: compute_shapes has a branch for every element-type constant; the function-space
     constructor maps each advertised mode2D to a volume function and an isAxisymmetric flag that agree;
  b  axisymmetric weight: the axisymmetric volumes are 2*pi * (shapes @ X_nodes[:, r]) * (Cartesian volumes of the same
     element), r = 0, the same radial column as Mechanics.axisymmetric_gradient and TensorMath.gradient_2D_to_axisymmetric;
  c  affine map: gradients and volumes use the vertex nodes of the same parent element; det of the gradient map's
     Jacobian equals the volume Jacobian (identity on generic points); the interior-node map of order elevation follows
     the same vertex convention (rules/C13); values and volumes are restricted by the same block;
  d  edge normals: four sibling implementations agree (rules/C16);
  e  index typing of the parametric axis xi versus the physical axis x in map_element_shape_grads:
     solve(J^T, dN^T)^T : [node, x];
  f  tabulated rules (constant folding of the literal tables in QuadratureRule): for every branch of the triangle rule
     the weights are positive, the points lie in the reference triangle and all monomial moments up to the largest degree
     admitted by the branch equal a! b!/(a+b+2)!; the 1D rule uses ceil((degree+1)/2) Gauss points (2n-1 >= degree for
     degree 0..25);
  g  edge integration: integrand weights are (edge Jacobian * Gauss weights); field and coordinates are interpolated
     with the same edge shape functions at the same points; the normal comes from Mesh.compute_edge_vectors.
Not decided: partition of unity / reproduction by the Vandermonde inversion (numerical linear algebra), the divergence
theorem on physical meshes as numbers.
"""
from __future__ import annotations

import ast
import math
from fractions import Fraction

from optilint.cfg import cfg_of
from optilint.model import dotted
from optilint.core import Incomplete
from optilint.expr import Algebra, NotPolynomial
from optilint.tensoreval import Dual, Arr, EvalError, Raised, _A, rat_is_zero
from .common import Unifier, sem_same, normalize, canon, return_normal_form, src, same, calls_in, const_value, expand
from . import materials as mt

LEVEL = "other"
RULE_TEXT = ("obligations = (element type / mode2D x dispatch branch) + (axisymmetric weight identity) + (Jacobian identity) + (axis typing) + "
             "(quadrature table branch x monomial moment) + (edge integration role)")
EXPLANATION = ("Dispatch-table, sibling and role rules on Interpolants/FunctionSpace/Mesh/Surface, index typing of parametric vs physical axes, "
               "symbolic identities of the affine map on generic points, and constant folding of the literal quadrature tables against the "
               "exact monomial moments of the reference triangle. Reproduction properties of the Vandermonde-inverted basis are not decided.")

FS = "optimism.FunctionSpace"
IP = "optimism.Interpolants"
QR = "optimism.QuadratureRule"


def run(ctx):
    for m in (FS, IP, QR, "optimism.Mesh", "optimism.Surface", "optimism.Mechanics", "optimism.TensorMath"):
        ctx.need_module(m)
    ctx.guard(a_dispatch, ctx)
    ctx.guard(b_axisymmetric, ctx)
    ctx.guard(c_affine, ctx)
    ctx.guard(e_axis_typing, ctx)
    ctx.guard(f_tables, ctx)
    ctx.guard(g_edges, ctx)
    from . import C16, C13
    ctx.guard(C16.o1_normals, _Ren(ctx, "d/"))
    ctx.guard(C13.d3_elevation, _Ren(ctx, "c/"))
    from . import parentelem
    ctx.guard(parentelem.run, ctx, "c/T6-parent-element-tables")
    ctx.trust("integral of x^a y^b over the unit triangle = a! b! / (a+b+2)!; n-point Gauss-Legendre is exact to degree 2n-1")
    ctx.assume("literal table entries carry ~15 significant digits: moments are compared with tolerance 2e-14")


class _Ren:
    def __init__(self, ctx, prefix):
        self._c, self._p = ctx, prefix

    def __getattr__(self, k):
        return getattr(self._c, k)

    def _r(self, rule):
        return self._p + rule.split("/", 1)[-1]

    def decide(self, rule, *a, **kw):
        return self._c.decide(self._r(rule), *a, **kw)

    def refuted(self, rule, *a, **kw):
        return self._c.refuted(self._r(rule), *a, **kw)

    def undecided(self, rule, *a, **kw):
        return self._c.undecided(self._r(rule), *a, **kw)

    def proved(self, rule, *a, **kw):
        return self._c.proved(self._r(rule), *a, **kw)


def a_dispatch(ctx):
    rule = "a/T14-dispatch"
    mod = ctx.need_module(IP)
    consts = [st.targets[0].id for st in mod.tree.body if isinstance(st, ast.Assign) and isinstance(st.targets[0], ast.Name)
              and st.targets[0].id.endswith("_ELEMENT") or (isinstance(st, ast.Assign) and isinstance(st.targets[0], ast.Name) and "ELEMENT" in st.targets[0].id)]
    consts = sorted(set(consts))
    cs = ctx.need(f"{IP}:compute_shapes")
    handled = set()
    for n in ast.walk(cs.node):
        if isinstance(n, ast.Compare) and isinstance(n.ops[0], ast.Eq) and src(n.left).endswith(".elementType") and isinstance(n.comparators[0], ast.Name):
            handled.add(n.comparators[0].id)
    for c in consts:
        ctx.decide(rule, c in handled, cs, None, construct=f"compute_shapes:{c}", detail=f"element type {c} has a branch",
                   bad_detail=f"compute_shapes has no branch for element type {c}")
    if len(consts) < 3:
        raise Incomplete(f"element type constants found: {consts}")
    # constants distinct
    vals = {}
    for st in mod.tree.body:
        if isinstance(st, ast.Assign) and isinstance(st.targets[0], ast.Name) and st.targets[0].id in consts:
            vals[st.targets[0].id] = const_value(st.value)
    ctx.decide(rule, len(set(vals.values())) == len(vals), mod.scope, None, construct="element-type-constants-distinct", detail=str(vals),
               bad_detail=f"element type constants are not distinct: {vals}")
    # makers stamp their own type
    for fn, want in (("make_parent_element_1d", "LINE_ELEMENT"), ("make_parent_element_2d", "TRIANGLE_ELEMENT"), ("make_parent_element_2d_with_bubble", "TRIANGLE_ELEMENT_WITH_BUBBLE")):
        sc = ctx.need(f"{IP}:{fn}")
        r = sc.returns()
        ok = len(r) == 1 and isinstance(r[0], ast.Call) and r[0].args and src(r[0].args[0]) == want
        ctx.decide(rule, ok, sc, r[0] if r else None, construct=f"{fn}:element-type", detail=f"{fn} -> {want}",
                   bad_detail=f"{fn} builds a ParentElement of type `{src(r[0].args[0]) if r and r[0].args else '?'}`, expected {want}")
    # mode table
    for q in (f"{FS}:construct_function_space_from_parent_element",):
        sc = ctx.need(q)
        cfg = cfg_of(sc)
        table = {}
        for n in cfg.nodes:
            if n.kind == "stmt" and isinstance(n.ast, ast.Assign) and isinstance(n.ast.targets[0], ast.Name):
                facts = [(src(c.ast), l) for (c, l) in cfg.edge_facts(n) if c.kind == "cond" and l]
                for (t, l) in facts:
                    if "mode2D ==" in t:
                        mode = t.split("==")[1].strip().strip("'\"")
                        table.setdefault(mode, {})[n.ast.targets[0].id] = src(n.ast.value)
        want = {"cartesian": ("compute_element_volumes", "False"), "axisymmetric": ("compute_element_volumes_axisymmetric", "True")}
        for mode, (vf, flag) in want.items():
            got = table.get(mode, {})
            vals_ = set(got.values())
            ok = vf in vals_ and flag in vals_
            ctx.decide(rule, ok, sc, None, construct=f"mode:{mode}", detail=f"{mode}: {got}",
                       bad_detail=f"mode2D='{mode}' selects {got}; expected volume function {vf} with isAxisymmetric={flag}")
        # the selected function / flag reach the constructor
        r = sc.returns()
        u = Unifier(sc)
        p_ = sc.params()
        n1 = u.assigns(f"jax.vmap(lambda elConns, elShape: elShape, (0, None))({p_[0]}.conns, {p_[1]}.values)", target="shapes")
        n2 = u.assigns(f"jax.vmap(map_element_shape_grads, (None, 0, None, None))({p_[0]}.coords, {p_[0]}.conns, {p_[0]}.parentElement, {p_[1]}.gradients)", target="shapeGrads")
        n3 = u.assigns(f"jax.vmap(el_vols, (None, 0, None, 0, None))({p_[0]}.coords, {p_[0]}.conns, {p_[0]}.parentElement, shapes, {p_[2]}.wgauss)", target="vols")
        ok = len(n1) == len(n2) == len(n3) == 1 and len(r) == 1 and u.match(r[0], f"FunctionSpace(shapes, vols, shapeGrads, {p_[0]}, {p_[2]}, isAxisymmetric)")
        ctx.decide(rule, ok, sc, r[0] if r else None, construct="FunctionSpace-fields", detail="FunctionSpace(shapes, vols, shapeGrads, mesh, quadratureRule, isAxisymmetric)",
                   bad_detail=f"FunctionSpace constructed as `{src(r[0]) if r else '?'}`")


def b_axisymmetric(ctx):
    rule = "b/T7-axisymmetric-weight"
    sc = ctx.need(f"{FS}:compute_element_volumes_axisymmetric")
    cfg = cfg_of(sc)
    ps = sc.params()
    r = cfg.returns()
    e = expand(cfg, r[0], r[0].ast.value) if r else None
    cart = f"compute_element_volumes({', '.join(ps)})"
    want = f"2*np.pi*({ps[3]} @ {ps[0]}.take({ps[1]}, 0)[:, 0])*{cart}"
    ok = e is not None and sem_same(e, want, sc)
    ctx.decide(rule, ok, sc, r[0].ast if r else None, construct="vols_axi=2*pi*r(xi_q)*vols",
               detail="2*pi*(shapes @ X_nodes[:,0])*compute_element_volumes(same arguments)",
               bad_detail=f"axisymmetric volumes are `{src(e) if e is not None else '?'}`; expected 2*pi times the radius interpolated at each quadrature point "
                          f"(shapes @ X_nodes[:,0]) times the Cartesian volumes of the same element")
    # radial column agreement
    ag = ctx.need("optimism.Mechanics:axisymmetric_gradient")
    g2 = ctx.need("optimism.TensorMath:gradient_2D_to_axisymmetric")
    for s_, disp, coord in ((ag, ag.params()[1], ag.params()[2]), (g2, g2.params()[1], g2.params()[2])):
        hit = [c for c in ast.walk(s_.node) if isinstance(c, ast.Call) and isinstance(c.func, ast.Attribute) and c.func.attr == "set"
               and "at[2, 2]" in src(c.func.value)]
        ok = len(hit) == 1 and same(hit[0].args[0], f"{disp}[0]/{coord}[0]")
        ctx.decide(rule, ok, s_, hit[0] if hit else None, construct=f"{s_.name}:hoop-strain=u_r/r", detail="entry (2,2) = u[0]/X[0] (column 0 is the radius)",
                   bad_detail=f"{s_.name}: hoop entry is `{src(hit[0].args[0]) if hit else '?'}`; the radius is column 0 everywhere else")
    # element-level transformation interpolates disp and coords with the element shapes
    at = ctx.need("optimism.Mechanics:axisymmetric_element_gradient_transformation")
    cfg2 = cfg_of(at)
    r2 = cfg2.returns()
    e2 = expand(cfg2, r2[0], r2[0].ast.value) if r2 else None
    p = at.params()
    ok = e2 is not None and same(e2, f"vmap(axisymmetric_gradient)({p[0]}, {p[1]} @ {p[3]}, {p[1]} @ {p[4]})")
    ctx.decide(rule, ok, at, r2[0].ast if r2 else None, construct="axisymmetric-transformation-roles", detail="(grads, shapes@disps, shapes@coords)",
               bad_detail=f"axisymmetric gradient transformation is `{src(e2) if e2 is not None else '?'}`")


def c_affine(ctx):
    rule = "c/T6-affine-map"
    mg = ctx.need(f"{FS}:map_element_shape_grads")
    ev = ctx.need(f"{FS}:compute_element_volumes")
    mod = ctx.need_module(FS)
    # the kernels are compared in normal form: return value expanded to the parameters with small helpers inlined
    A = Algebra()
    import copy
    norm = {}
    for sc in (mg, ev):
        cfg = cfg_of(sc)
        r_ = cfg.returns()
        norm[sc.name] = return_normal_form(sc)
    vert = {sc.name: canon(f"{sc.params()[0]}.take({sc.params()[1]}, 0)[{sc.params()[2]}.vertexNodes]") for sc in (mg, ev)}

    def pieces(sc, fname):
        """argument list of the first call of `fname` in the normal form, and whether every vertex access goes through the parent element's vertex list"""
        e_ = norm[sc.name]
        if e_ is None:
            return None, False
        calls_ = [c for c in ast.walk(e_) if isinstance(c, ast.Call) and (dotted(c.func) or "").split(".")[-1] == fname]
        if not calls_:
            return None, False
        c = calls_[0]
        args_ = list(c.args[0].elts) if (len(c.args) == 1 and isinstance(c.args[0], ast.Tuple)) else list(c.args)
        subs_ = [x for a_ in args_ for x in ast.walk(a_) if isinstance(x, ast.Subscript) and const_value(x.slice) is not None]
        okv = bool(subs_) and all(canon(x.value) == vert[sc.name] for x in subs_)
        return args_, okv

    def pt(e, comp, vtxt):
        class Rp(ast.NodeTransformer):
            def visit_Subscript(self, s_):
                if const_value(s_.slice) is not None and canon(s_.value) == vtxt:
                    return ast.Name(id=f"v{const_value(s_.slice)}{comp}", ctx=ast.Load())
                return self.generic_visit(s_)
        return A.lower(Rp().visit(copy.deepcopy(e)))
    cols, okv_m = pieces(mg, "column_stack")
    cr, okv_e = pieces(ev, "cross")
    for sc, okv in ((mg, okv_m), (ev, okv_e)):
        ctx.decide(rule, okv, sc, None, construct=f"{sc.name}:vertices-of-the-parent-element",
                   detail="v = coords.take(nodes,0)[parentElement.vertexNodes]", bad_detail=f"{sc.name} does not take the vertex nodes of the given parent element")
    try:
        if not cols or not cr or len(cols) != 2 or len(cr) != 2:
            raise IndexError("Jacobian columns / cross product not found in the normal form")
        vm, ve = vert[mg.name], vert[ev.name]
        J = [[pt(cols[0], "x", vm), pt(cols[1], "x", vm)], [pt(cols[0], "y", vm), pt(cols[1], "y", vm)]]
        detJ = A.norm(J[0][0] * J[1][1] - J[0][1] * J[1][0])
        a_, b_ = cr
        jac = A.norm(pt(a_, "x", ve) * pt(b_, "y", ve) - pt(a_, "y", ve) * pt(b_, "x", ve))
        ok = A.equal(detJ, jac)
        ctx.decide(rule, ok, ev, None, construct="det(J)==volume-jacobian", detail=f"det of the gradient map's Jacobian equals cross(...) = {jac!r}",
                   bad_detail=f"det J of map_element_shape_grads is {detJ!r} but compute_element_volumes uses {jac!r}: gradients and volumes belong to different affine maps")
        e_ev = norm[ev.name]
        ok = isinstance(e_ev, ast.BinOp) and isinstance(e_ev.op, ast.Mult) and \
            any(isinstance(x_, ast.Call) and (dotted(x_.func) or "").split(".")[-1] == "cross" and isinstance(y_, ast.Name) and y_.id == ev.params()[4]
                for x_, y_ in ((e_ev.left, e_ev.right), (e_ev.right, e_ev.left)))
        ctx.decide(rule, ok, ev, None, construct="vols=jacobian*weights", detail="jac*weights", bad_detail=f"volumes are `{src(e_ev)[:120]}`")
    except (NotPolynomial, IndexError, AttributeError) as ex:
        ctx.undecided(rule, mg, None, construct="det(J)==volume-jacobian", detail=str(ex))
    # integration restricted by the same block
    iob = ctx.need(f"{FS}:integrate_over_block")
    r = iob.returns()
    u = Unifier(iob)
    ok = len(r) == 1 and u.match(r[0], "np.dot(vals.ravel(), functionSpace.vols[block].ravel())")
    vals = u.def_of("vals")
    ok = ok and len(vals) == 1 and "evaluate_on_block(functionSpace, U, stateVars, dt, func, block," in src(vals[0].value)
    ctx.decide(rule, ok, iob, r[0] if r else None, construct="integrate=dot(values[block], vols[block])", detail="same block restricts values and volumes",
               bad_detail="integrate_over_block does not contract the block's values with the block's volumes")
    # function space factory wires the same parent element / shapes to both maps
    cf = ctx.need(f"{FS}:construct_function_space_from_parent_element")
    u = Unifier(cf)
    p_ = cf.params()
    calls_ = [c for c in ast.walk(cf.node) if isinstance(c, ast.Call)]
    ok = any(u.match(c, f"jax.vmap(map_element_shape_grads, (None, 0, None, None))({p_[0]}.coords, {p_[0]}.conns, {p_[0]}.parentElement, {p_[1]}.gradients)") for c in calls_) and \
        any(u.match(c, f"jax.vmap(el_vols, (None, 0, None, 0, None))({p_[0]}.coords, {p_[0]}.conns, {p_[0]}.parentElement, shapes, {p_[2]}.wgauss)") for c in calls_)
    ctx.decide(rule, ok, cf, None, construct="factory-wiring", detail="gradients and volumes mapped over the same coords/conns/parent element",
               bad_detail="construct_function_space_from_parent_element does not map gradients and volumes over the same coordinates, connectivity and parent element")
    c0 = ctx.need(f"{FS}:construct_function_space")
    r = c0.returns()
    u = Unifier(c0)
    q_ = c0.params()
    st = u.assigns(f"Interpolants.compute_shapes({q_[0]}.parentElement, {q_[1]}.xigauss)", target="shapeOnRef")
    ok = len(st) == 1 and len(r) == 1 and u.match(r[0], f"construct_function_space_from_parent_element({q_[0]}, shapeOnRef, {q_[1]}, {q_[2]})")
    ctx.decide(rule, ok, c0, st[0] if st else None, construct="shapes-at-the-rule's-points", detail="shape functions of the mesh's parent element at the rule's own points",
               bad_detail="construct_function_space does not evaluate the mesh's parent element at the quadrature rule's own points")


def e_axis_typing(ctx):
    rule = "e/T9-axis-typing"
    mg = ctx.need(f"{FS}:map_element_shape_grads")
    # J = column_stack((dx/dxi0, dx/dxi1)) : [x, xi] ; shapeGradients per point dN : [node, xi]
    cfg_m = cfg_of(mg)
    r_m = cfg_m.returns()
    e_m = return_normal_form(mg)
    lam = [n for n in ast.walk(e_m) if isinstance(n, ast.Lambda)] if e_m is not None else []
    ok = None
    shown = "?"
    jcalls = [c for c in ast.walk(e_m) if isinstance(c, ast.Call) and (dotted(c.func) or "").split(".")[-1] == "column_stack"] if e_m is not None else []
    if len(lam) == 1 and jcalls:
        import copy
        jtxt = canon(jcalls[0])

        class _J(ast.NodeTransformer):
            def visit_Call(self, c_):
                if canon(c_) == jtxt:
                    return ast.Name(id="J__", ctx=ast.Load())
                return self.generic_visit(c_)
        body = _J().visit(copy.deepcopy(lam[0].body))
        dn = lam[0].args.args[0].arg
        shown = src(body)
        ty = _type_axes(body, {"J__": ("x", "xi"), dn: ("node", "xi")})
        ok = True if ty == ("node", "x") else (False if ty is not None else None)
        shown += f" : {ty}"
    ctx.decide(rule, ok, mg, None, construct="physical-gradients=[node,x]", detail=shown,
               bad_detail=f"`{shown}`: with J : [x, xi] and reference gradients : [node, xi] the mapped gradients must have axes [node, x] "
                          f"(both axes have length 2, so NumPy cannot catch the mix-up)")
    ok = len(jcalls) >= 1 and len(lam) == 1 and any(canon(c_) == canon(jcalls[0]) for c_ in ast.walk(lam[0].body) if isinstance(c_, ast.Call))
    ctx.decide(rule, ok, mg, None, construct="J-columns-are-parametric-directions", detail="J = column_stack((dx/dxi0, dx/dxi1))",
               bad_detail="J is not assembled with the parametric directions as columns")
    sg = ctx.need(f"{FS}:compute_quadrature_point_field_gradient")
    r = sg.returns()
    cfg = cfg_of(sg)
    e = expand(cfg, cfg.returns()[0], r[0]) if r else None
    ok = e is not None and sem_same(e, f"np.tensordot({sg.params()[0]}, {sg.params()[1]}, axes=[0, 0])", sg)
    ctx.decide(rule, ok, sg, r[0] if r else None, construct="field-gradient-contracts-the-node-axis", detail="tensordot(u[node,:], dN[node,x], axes=[0,0])",
               bad_detail=f"field gradient is `{src(e) if e is not None else '?'}`; it must contract nodal values with shape gradients over the node axis")


def _type_axes(e, env):
    """Axis names of small linear-algebra expressions: names, .T, solve(A,B)."""
    if isinstance(e, ast.Name):
        return env.get(e.id)
    if isinstance(e, ast.Attribute) and e.attr == "T":
        t = _type_axes(e.value, env)
        return (t[1], t[0]) if t else None
    if isinstance(e, ast.Call) and (dotted(e.func) or "").split(".")[-1] == "solve" and len(e.args) == 2:
        a, b = _type_axes(e.args[0], env), _type_axes(e.args[1], env)
        if not a or not b:
            return None
        if a[0] != b[0]:
            return ("MISMATCH", f"{a}x{b}")
        return (a[1], b[1])
    if isinstance(e, ast.BinOp) and isinstance(e.op, ast.MatMult):
        a, b = _type_axes(e.left, env), _type_axes(e.right, env)
        if not a or not b:
            return None
        if a[1] != b[0]:
            return ("MISMATCH", f"{a}@{b}")
        return (a[0], b[1])
    if isinstance(e, ast.Call) and (dotted(e.func) or "").endswith("inv") and len(e.args) == 1:
        t = _type_axes(e.args[0], env)
        return (t[1], t[0]) if t else None
    return None


def _literal_array(node):
    def val(x):
        if isinstance(x, (ast.List, ast.Tuple)):
            return [val(e) for e in x.elts]
        c = const_value(x)
        if c is None:
            raise ValueError(src(x))
        return Fraction(repr(float(c)))
    if isinstance(node, ast.Call) and (dotted(node.func) or "").endswith("array") and node.args:
        return val(node.args[0])
    raise ValueError("not a literal array")


def f_tables(ctx):
    rule = "f/T7-quadrature-tables"
    tri = ctx.need(f"{QR}:create_quadrature_rule_on_triangle")
    # dispatch evaluated per requested degree: the branch that a given integer degree selects is found by folding the tests
    # (comparisons of the parameter with literals, not/and/or); raising branches mean "not supported"
    dpar = tri.params()[0]

    def fold_test(t, d):
        if isinstance(t, ast.Compare) and len(t.ops) == 1 and isinstance(t.left, ast.Name) and t.left.id == dpar:
            c = const_value(t.comparators[0])
            if c is None:
                raise ValueError("non-literal bound")
            return {ast.LtE: d <= c, ast.Lt: d < c, ast.Eq: d == c, ast.GtE: d >= c, ast.Gt: d > c, ast.NotEq: d != c}[type(t.ops[0])]
        if isinstance(t, ast.UnaryOp) and isinstance(t.op, ast.Not):
            return not fold_test(t.operand, d)
        if isinstance(t, ast.BoolOp):
            vals_ = [fold_test(v, d) for v in t.values]
            return all(vals_) if isinstance(t.op, ast.And) else any(vals_)
        raise ValueError("test is not a bound on the degree")

    def select(body, d, env):
        """statements executed for degree d (assignments recorded in env); returns 'raise' / 'return' / None"""
        for st_ in body:
            if isinstance(st_, ast.If):
                r_ = select(st_.body if fold_test(st_.test, d) else st_.orelse, d, env)
                if r_:
                    return r_
            elif isinstance(st_, ast.Raise):
                return "raise"
            elif isinstance(st_, ast.Return):
                env["@return"] = st_.value
                return "return"
            elif isinstance(st_, ast.Assign) and isinstance(st_.targets[0], ast.Name):
                env[st_.targets[0].id] = st_.value
        return None
    chain = []
    seen_tables = {}
    for d in range(0, 16):
        env_ = {}
        try:
            r_ = select(tri.node.body, d, env_)
        except ValueError as ex:
            ctx.undecided(rule, tri, None, construct=f"degree={d}:dispatch", detail=str(ex))
            continue
        if r_ != "return":
            continue
        rv = env_["@return"]
        args_ = list(rv.args) + [k.value for k in rv.keywords] if isinstance(rv, ast.Call) else []
        tabs = [env_.get(a.id) if isinstance(a, ast.Name) else a for a in args_[:2]]
        key_ = tuple(id(t) for t in tabs)
        seen_tables.setdefault(key_, [tabs, d])
        seen_tables[key_][1] = d           # highest degree that selects this table
    for key_, (tabs, hi) in seen_tables.items():
        chain.append((hi, tabs))
    n_br = 0
    tol = Fraction(2, 10**14)
    for (hi, tabs) in chain:
        xi, w = (tabs + [None, None])[:2]
        try:
            X, W = _literal_array(xi), _literal_array(w)
        except (ValueError, AttributeError, TypeError) as ex:
            ctx.undecided(rule, tri, None, construct=f"degree<={hi}:table", detail=f"table is not a literal array: {ex}")
            continue
        n_br += 1
        okc = len(X) == len(W) and all(len(p) == 2 for p in X)
        pos = all(x > 0 for x in W)
        inside = all(p[0] >= 0 and p[1] >= 0 and p[0] + p[1] <= 1 for p in X)
        ctx.decide(rule, okc and pos and inside, tri, w, construct=f"degree<={hi}:positive-weights-points-inside",
                   detail=f"{len(W)} points, weights positive, points in the reference triangle",
                   bad_detail=f"rule for degree <= {hi}: {len(X)} points / {len(W)} weights, positive weights: {pos}, points inside the triangle: {inside}")
        worst = None
        for a in range(hi + 1):
            for b in range(hi + 1 - a):
                exact = Fraction(math.factorial(a) * math.factorial(b), math.factorial(a + b + 2))
                got = sum(wq * (p[0] ** a) * (p[1] ** b) for wq, p in zip(W, X))
                err = abs(got - exact)
                if worst is None or err > worst[0]:
                    worst = (err, a, b, got, exact)
        ok = worst[0] <= tol
        ctx.decide(rule, ok, tri, xi, construct=f"degree<={hi}:monomial-moments",
                   detail=f"all moments x^a y^b, a+b <= {hi}, match a!b!/(a+b+2)! (max error {float(worst[0]):.2e})",
                   bad_detail=f"rule selected for degree <= {hi} integrates x^{worst[1]} y^{worst[2]} to {float(worst[3]):.16g} instead of {float(worst[4]):.16g} "
                              f"(error {float(worst[0]):.2e}): it is not exact to the degree it is selected for")
    if n_br < 6:
        raise Incomplete(f"{n_br} literal triangle tables checked (6 expected)")
    # 1D rule: number of points
    q1 = ctx.need(f"{QR}:create_quadrature_rule_1D")
    nd = [s for s in ast.walk(q1.node) if isinstance(s, ast.Assign) and isinstance(s.value, ast.Call) and (dotted(s.value.func) or "").endswith("ceil")]
    ok = None
    bad_d = None
    if len(nd) == 1:
        arg = nd[0].value.args[0]
        ok = True
        for d in range(0, 26):
            try:
                v = _fold(arg, {"degree": Fraction(d)})
            except ValueError:
                ok = None
                break
            n = math.ceil(v)
            if 2 * n - 1 < d or n < 1:
                ok = False
                bad_d = (d, n)
                break
        calls = [c for c in ast.walk(q1.node) if isinstance(c, ast.Call) and (dotted(c.func) or "").endswith("roots_sh_legendre")]
        ok = ok and len(calls) == 1 and src(calls[0].args[0]) == src(nd[0].targets[0]) if ok else ok
    ctx.decide(rule, ok, q1, nd[0] if nd else None, construct="1D:points=ceil((degree+1)/2)", detail="2n-1 >= degree for degree 0..25; shifted Gauss-Legendre nodes on [0,1]",
               bad_detail=f"1D rule uses n = {src(nd[0].value) if nd else '?'} points: for degree {bad_d[0] if bad_d else '?'} that is n = {bad_d[1] if bad_d else '?'}, "
                          f"exact only to degree {2 * bad_d[1] - 1 if bad_d else '?'}")
    ei = ctx.need(f"{QR}:eval_at_iso_points")
    r = ei.returns()
    cfg = cfg_of(ei)
    e = expand(cfg, cfg.returns()[0], r[0]) if r else None
    ok = e is not None and Unifier(ei).match(e, f"np.array([{ei.params()[1]}[0, :] + ({ei.params()[1]}[1, :] - {ei.params()[1]}[0, :]) * xi for xi in {ei.params()[0]}])")
    ctx.decide(rule, ok, ei, r[0] if r else None, construct="eval_at_iso_points", detail="f0 + (f1 - f0) xi at every point",
               bad_detail=f"eval_at_iso_points is `{src(e) if e is not None else '?'}`")


def _fold(e, env):
    if isinstance(e, ast.Constant):
        return Fraction(repr(float(e.value)))
    if isinstance(e, ast.Name):
        if e.id in env:
            return env[e.id]
        raise ValueError(e.id)
    if isinstance(e, ast.BinOp):
        a, b = _fold(e.left, env), _fold(e.right, env)
        if isinstance(e.op, ast.Add):
            return a + b
        if isinstance(e.op, ast.Sub):
            return a - b
        if isinstance(e.op, ast.Mult):
            return a * b
        if isinstance(e.op, ast.Div):
            return a / b
    raise ValueError(src(e))


def g_edges(ctx):
    rule = "g/T5-edge-integration"
    ie = ctx.need(f"{FS}:integrate_function_on_edge")
    cfg = cfg_of(ie)
    fsn, fn, U, qr, edge = ie.params()
    r = cfg.returns()
    u = Unifier(ie)
    want = [
        ("uq", f"interpolate_nodal_field_on_edge({fsn}, {U}, {qr}.xigauss, {edge})"),
        ("Xq", f"interpolate_nodal_field_on_edge({fsn}, {fsn}.mesh.coords, {qr}.xigauss, {edge})"),
        ("edgeCoords", f"Mesh.get_edge_coords({fsn}.mesh, {edge})"),
    ]
    for nm, tmpl in want:
        hit = u.assigns(tmpl, target=nm)
        ctx.decide(rule, len(hit) == 1, ie, hit[0] if hit else None, construct=f"role:{nm}", detail=tmpl,
                   bad_detail=f"no assignment `{nm} = {tmpl}` (up to names of locals) in integrate_function_on_edge: found " +
                              "; ".join(src(s_)[:80] for s_ in ast.walk(ie.node) if isinstance(s_, ast.Assign) and tmpl.split("(")[0].split(".")[-1] in src(s_.value))[:200])
    tup = [s_ for s_ in ast.walk(ie.node) if isinstance(s_, ast.Assign) and isinstance(s_.targets[0], ast.Tuple) and "compute_edge_vectors" in src(s_.value)]
    ok = len(tup) == 1 and u.match(tup[0], ast.parse(f"_, normal, jac = Mesh.compute_edge_vectors({fsn}.mesh, edgeCoords)").body[0])
    ctx.decide(rule, ok, ie, tup[0] if tup else None, construct="normal-and-jacobian-from-edge-vectors", detail="(_, normal, jac) = Mesh.compute_edge_vectors(mesh, edgeCoords)",
               bad_detail=f"`{src(tup[0]) if tup else '?'}`: tangent/normal/jacobian are not unpacked as (_, normal, jac) from Mesh.compute_edge_vectors(mesh, edge coordinates)")
    hit = u.assigns(f"jax.vmap({fn}, (0, 0, None))(uq, Xq, normal)", target="integrand")
    ctx.decide(rule, len(hit) == 1, ie, hit[0] if hit else None, construct="role:integrand", detail="f(u_q, X_q, n) at every quadrature point",
               bad_detail="the integrand is not jax.vmap(func, (0, 0, None))(interpolated field, interpolated coordinates, edge normal)")
    ok = len(r) == 1 and u.match(r[0].ast.value, f"np.dot(integrand, jac*{qr}.wgauss)")
    ctx.decide(rule, ok, ie, r[0].ast if r else None, construct="weights=jacobian*gauss-weights", detail="dot(integrand, jac*w)",
               bad_detail=f"edge integral is `{src(r[0].ast.value) if r else '?'}`")
    io = ctx.need(f"{FS}:interpolate_nodal_field_on_edge")
    r2 = io.returns()
    u2 = Unifier(io)
    s1 = u2.assigns(f"Interpolants.compute_shapes({io.params()[0]}.mesh.parentElement1d, {io.params()[2]})", target="edgeShapes")
    s2 = u2.assigns(f"get_nodal_values_on_edge({io.params()[0]}, {io.params()[1]}, {io.params()[3]})", target="edgeU")
    ok = len(s1) == 1 and len(s2) == 1 and len(r2) == 1 and u2.match(r2[0], "edgeShapes.values.T@edgeU")
    ctx.decide(rule, ok, io, r2[0] if r2 else None, construct="edge-interpolation-with-1d-parent-element", detail="shapes of parentElement1d at the given points, contracted with the edge's nodal values",
               bad_detail="interpolate_nodal_field_on_edge does not use the 1D parent element's shape functions at the given points")
    gn = ctx.need(f"{FS}:get_nodal_values_on_edge")
    g_ = gn.params()
    gcfg = cfg_of(gn)
    gr = gcfg.returns()
    ok = len(gr) == 1 and sem_same(expand(gcfg, gr[0], gr[0].ast.value),
                                   f"{g_[1]}[{g_[0]}.mesh.conns[{g_[2]}[0], {g_[0]}.mesh.parentElement.faceNodes[{g_[2]}[1], :]]]", gn)
    ctx.decide(rule, ok, gn, None, construct="edge-nodes=conns[element, faceNodes[side]]", detail="edge = (element, local side)",
               bad_detail="get_nodal_values_on_edge does not gather conns[edge[0], faceNodes[edge[1]]]")
    ies = ctx.need(f"{FS}:integrate_function_on_edges")
    r3 = ies.returns()
    ok = len(r3) == 1 and "np.sum(" in src(r3[0]) and "jax.vmap(integrate_function_on_edge, (None, None, None, None, 0))" in src(ies.node)
    ctx.decide(rule, ok, ies, r3[0] if r3 else None, construct="sum-over-edges", detail="sum of per-edge integrals, mapped over the edge list",
               bad_detail="integrate_function_on_edges is not the sum of integrate_function_on_edge over the edge axis")


def variants(repo):
    from optilint.selftest import Variant, sub, sub_in_func, alpha_rename, reformat
    F = "optimism/FunctionSpace.py"
    Q = "optimism/QuadratureRule.py"
    I = "optimism/Interpolants.py"
    Me = "optimism/Mesh.py"
    return [
        Variant("bubble face 2 listed forwards", "optimism/Interpolants.py", sub("    kk = onp.array([i for i in reversed(range(degree + 1, nNodesFromBase, 2))] + [0])", "    kk = onp.array([nNodesFromBase - 1] + [i for i in range(degree + 1, nNodesFromBase - 1, 2)] + [0])"), "c/T6-parent-element-tables"),
        Variant("bubble face 1 copied from plain element", "optimism/Interpolants.py", sub("    jj = onp.array([i for i in range(degree, 3*degree, 2)] + [nNodesFromBase - 1])", "    jj = onp.cumsum(onp.flip(ii)) + ii"), "c/T6-parent-element-tables"),
        Variant("plain face 2 not reversed", "optimism/Interpolants.py", sub("    kk = onp.flip(jj) - ii", "    kk = jj - onp.flip(ii)"), "c/T6-parent-element-tables"),
        Variant("vertex list misses the last node", "optimism/Interpolants.py", sub("    vertexPoints = np.array([0, degree, nPoints - 1], dtype=np.int32)", "    vertexPoints = np.array([0, degree, nPoints - 2], dtype=np.int32)"), "c/T6-parent-element-tables"),
        Variant("nodal x/y formulas exchanged", "optimism/Interpolants.py", sub("            points[point, 0] = (1.0 + 2.0*lobattoPoints[k] - lobattoPoints[j] - lobattoPoints[i])/3.0", "            points[point, 0] = (1.0 + 2.0*lobattoPoints[j] - lobattoPoints[k] - lobattoPoints[i])/3.0"), "c/T6-parent-element-tables"),
        Variant("alpha-rename bubble element", "optimism/Interpolants.py", alpha_rename("make_parent_element_2d_with_bubble"), None),
        Variant("drop 2pi", F, sub("    return 2*np.pi*Rs*vols", "    return np.pi*Rs*vols"), "b/T7-axisymmetric-weight"),
        Variant("radius from column 1", F, sub("    Rs = shapes@Xn[:,0]", "    Rs = shapes@Xn[:,1]"), "b/T7-axisymmetric-weight"),
        Variant("centroid radius", F, sub("    Rs = shapes@Xn[:,0]", "    Rs = np.mean(Xn[parentElement.vertexNodes,0])"), "b/T7-axisymmetric-weight"),
        Variant("solve(J, ...)", F, sub("solve(J.T, dN.T).T", "solve(J, dN.T).T"), "e/T9-axis-typing"),
        Variant("untransposed result", F, sub("solve(J.T, dN.T).T", "solve(J.T, dN.T)"), "e/T9-axis-typing"),
        Variant("volume jacobian of another map", F, sub("    jac = np.cross(v[1] - v[0], v[2] - v[0])", "    jac = np.cross(v[1] - v[0], v[0] - v[2])"), "c/T6-affine-map"),
        Variant("axisymmetric flag swapped", F, sub("        el_vols = compute_element_volumes_axisymmetric\n        isAxisymmetric = True", "        el_vols = compute_element_volumes_axisymmetric\n        isAxisymmetric = False"), "a/T14-dispatch"),
        Variant("element type without handler", I, sub("TRIANGLE_ELEMENT_WITH_BUBBLE = 2", "TRIANGLE_ELEMENT_WITH_BUBBLE = 2\nQUAD_ELEMENT = 3"), "a/T14-dispatch"),
        Variant("weight digit", Q, sub("w  = np.array([1.116907948390055E-01,\n                        1.116907948390055E-01,", "w  = np.array([1.116907948390055E-01,\n                        1.116917948390055E-01,"), "f/T7-quadrature-tables"),
        Variant("degree-5 rule used for degree 6", Q, sub("    elif degree <= 5:", "    elif degree <= 6:"), "f/T7-quadrature-tables"),
        Variant("1D rule one point short", Q, sub("    n = math.ceil((degree + 1)/2)", "    n = math.ceil(degree/2)"), "f/T7-quadrature-tables"),
        Variant("edge weights without jacobian", F, sub("    return np.dot(integrand, jac*quadRule.wgauss)", "    return np.dot(integrand, quadRule.wgauss)"), "g/T5-edge-integration"),
        Variant("edge vectors order", F, sub("    _, normal, jac = Mesh.compute_edge_vectors", "    normal, _, jac = Mesh.compute_edge_vectors"), "g/T5-edge-integration"),
        Variant("interior node convention", Me, sub("        A = np.column_stack((N0,N1,N2))", "        A = np.column_stack((N2,N0,N1))"), "c/T6-order-elevation"),
        Variant("flip one normal", "optimism/Surface.py", sub_in_func("compute_edge_vectors", "    normal = np.array([tangent[1], -tangent[0]])", "    normal = np.array([-tangent[1], tangent[0]])"), "d/T6-normal-siblings"),
        Variant("reformat FunctionSpace", F, reformat(), None),
        Variant("reformat QuadratureRule", Q, reformat(), None),
    ]
